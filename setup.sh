#!/bin/sh
# Offline setup: nothing to build (specs are interpreted by TLC, harness is pure Python run by /venv/bin/python).
set -e
cd "$(dirname "$0")"
mkdir -p evidence replays .work
command -v tlc >/dev/null
/venv/bin/python -c "import scinumtools, numpy" 
echo setup ok
