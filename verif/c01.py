"""C01 - the expression solver evaluates by the documented step table.

1. TLC checks SolverGen!Refines (machine transcription = ideal grammar) on every token string of
   length <= L and emits one record per string (class, ideal tree, machine outcome).
2. The harness draws deeper strings from the grammar plus single-edit variants; TLC classifies them,
   computes the ideal tree and checks Refines on them too.
3. Every record is rendered to text under several blank layouts / function names / numbers and solved
   by a fresh real ExpressionSolver(AtomBase); the observation is compared with the IDEAL (verdict)
   and with the MACHINE outcome (drift).
"""
import json, os, random, sys
from . import common as C
from . import solver_adapter as A

PID = "C01"
ALPHA_QUICK = ["a", "b", "**", "*", "/", "+", "-", "<", "==", "!", "&&", "||", "(", "f1(", "f2(", ")", ","]
ATOMS = ["a", "b"]
# second enumeration: every comparison operator (shorter strings)
ALPHA_CMP = ["a", "b", "*", "+", "-", "<", "<=", ">", ">=", "==", "!=", "!", "&&", "||", "(", "f1(", ")"]


def cfg(alphabet, maxlen, emit, source):
    devs = set()
    for f in C.Findings(PID).open:
        devs |= {t for t in f.get("tags", []) if not t.startswith("ill:")}
    return f"""CONSTANTS
  KnownDevs = {C.tla_str(devs)}
  Atoms = {C.tla_str(set(ATOMS))}
  Alphabet = {C.tla_str(set(alphabet))}
  MaxLen = {maxlen}
  Emit = {C.tla_str(emit)}
  Source = "{source}"
INIT Init
NEXT Next
INVARIANT Refines
CHECK_DEADLOCK FALSE
"""


# ------------------------------------------------------------------ deep strings from the grammar

def gen_expr(rnd, depth, level=0, budget=None):
    """Random derivation of the stratified grammar; returns a token list.
    budget: [remaining tokens] shared by the whole derivation, keeps strings short."""
    if budget is None:
        budget = [rnd.choice([6, 10, 16, 24])]
    LEVELS = [["||"], ["&&"], None, ["==", "!=", "<=", ">=", "<", ">"], ["+", "-"], ["*", "/"], ["**"]]
    if level == 2:                                   # not
        if rnd.random() < 0.2 and budget[0] > 0:
            budget[0] -= 1
            return ["!"] + gen_expr(rnd, depth, 3, budget)
        return gen_expr(rnd, depth, 3, budget)
    if level == 7:                                   # una
        signs = []
        if rnd.random() < 0.3 and budget[0] > 0:
            signs = [rnd.choice("+-") for _ in range(rnd.choice([1, 1, 2, 3]))]
            budget[0] -= len(signs)
        return signs + gen_prim(rnd, depth, budget)
    ops = LEVELS[level]
    p = [0.15, 0.2, 0, 0.2, 0.4, 0.4, 0.25][level]
    out = gen_expr(rnd, depth, level + 1, budget)
    n = 1
    while rnd.random() < p and n < 4 and budget[0] > 0:
        n += 1
        budget[0] -= 2
        out = out + [rnd.choice(ops)]
        if level == 4 and rnd.random() < 0.25:       # sign chain folded into the binary +/-
            out += [rnd.choice("+-") for _ in range(rnd.choice([1, 1, 2]))]
        out += gen_expr(rnd, depth, level + 1, budget)
    return out


def gen_prim(rnd, depth, budget):
    r = rnd.random()
    if depth <= 0 or budget[0] <= 0 or r < 0.45:
        return [rnd.choice(ATOMS)]
    budget[0] -= 2
    if r < 0.7:
        return ["("] + gen_expr(rnd, depth - 1, 0, budget) + [")"]
    if r < 0.9:
        return ["f1("] + gen_expr(rnd, depth - 1, 0, budget) + [")"]
    budget[0] -= 1
    return ["f2("] + gen_expr(rnd, depth - 1, 0, budget) + [","] + gen_expr(rnd, depth - 1, 0, budget) + [")"]


def edits(rnd, s):
    """Single-edit variants: drop/insert a parenthesis, drop an operand, add/remove an argument, drop an operator."""
    out = []
    idx_par = [i for i, t in enumerate(s) if t in ("(", ")", "f1(", "f2(")]
    idx_atom = [i for i, t in enumerate(s) if t in ATOMS]
    idx_comma = [i for i, t in enumerate(s) if t == ","]
    idx_close = [i for i, t in enumerate(s) if t == ")"]
    if idx_par:
        i = rnd.choice(idx_par); out.append(s[:i] + s[i + 1:])
    i = rnd.randint(0, len(s)); out.append(s[:i] + [rnd.choice(["(", ")"])] + s[i:])
    if idx_atom:
        i = rnd.choice(idx_atom); out.append(s[:i] + s[i + 1:])
    if idx_comma:
        i = rnd.choice(idx_comma); out.append(s[:i] + s[i + 2:])
    if idx_close:
        i = rnd.choice(idx_close); out.append(s[:i] + [",", rnd.choice(ATOMS)] + s[i:])
    return [e for e in out if len(e) <= 40]


def deep_strings(n, seed):
    rnd = random.Random(seed)
    out, seen = [], set()
    while len(out) < n:
        s = gen_expr(rnd, rnd.choice([1, 2, 2, 3, 4, 6]))
        if len(s) > 40 or tuple(s) in seen:
            continue
        seen.add(tuple(s)); out.append(s)
        for e in edits(rnd, s):
            if tuple(e) not in seen and len(out) < n:
                seen.add(tuple(e)); out.append(e)
    return out


# ------------------------------------------------------------------ replay of one record

def replay_record(rec):
    """-> (status, detail) ; status in ok | violation | unspecified | drift | arith"""
    toks = rec["s"]
    rnd = random.Random(rec["_seed"])
    results = []
    ideal, mach, cls = rec["ideal"], rec["mach"], rec["cls"]
    nlay = rec.get("_nlay", 3)
    status = "ok"; detail = None
    for k in range(nlay):
        nums, fn1, fn2 = A.concretise(toks, rnd)
        layout = ["tight", "spaced", "random"][k % 3]
        text = A.render(toks, nums, fn1, fn2, layout, rnd)
        kind, val = A.solve_real(text)
        # --- verdict against the ideal
        if cls == "wellformed":
            try:
                exp = A.eval_tree(ideal, nums, fn1, fn2)
            except A.Arith:
                status = "arith" if status == "ok" else status
                continue
            if kind != "val" or not A.same_value(val, exp):
                return ("violation", {"text": text, "layout": layout, "expected_value": repr(exp),
                                      "observed": [kind, repr(val)], "clause": "wellformed => value = ideal value"})
            # blank independence: same concretisation under the other layouts
            for lay2 in ("tight", "spaced", "random"):
                if lay2 == layout:
                    continue
                t2 = A.render(toks, nums, fn1, fn2, lay2, rnd)
                k2, v2 = A.solve_real(t2)
                if k2 != "val" or not A.same_value(v2, exp):
                    return ("violation", {"text": t2, "layout": lay2, "expected_value": repr(exp),
                                          "observed": [k2, repr(v2)], "clause": "blanks around operators do not change the result"})
        elif cls in ("ill:unbalanced", "ill:arity", "ill:missing_operand"):
            if kind != "err":
                return ("violation", {"text": text, "layout": layout, "expected_value": "an exception",
                                      "observed": [kind, repr(val)], "clause": cls + " => rejected with an error"})
        # --- drift: machine outcome vs code (no verdict)
        if status in ("ok", "arith"):
            if mach == ["#err"]:
                okm = kind == "err"
            elif mach == ["#none"]:
                okm = kind == "none"
            elif mach in (["#item"], ["#py"]):
                okm = kind == "item"
            elif mach == ["#py?"]:
                okm = kind in ("item", "err")
            else:
                try:
                    mv = A.eval_tree(mach, nums, fn1, fn2)
                    okm = kind == "val" and A.same_value(val, mv)
                except A.MachineRaises:
                    okm = kind == "err"
                except A.Arith:
                    okm = True
                except Exception:
                    okm = False
            if not okm:
                status = "drift"; detail = {"text": text, "machine": mach, "observed": [kind, repr(val)]}
    if cls not in ("wellformed", "ill:unbalanced", "ill:arity", "ill:missing_operand") and status == "ok":
        return ("unspecified", None)
    return (status, detail)


def run(replay=None):
    V = C.Verdicts(PID, "model_checking")
    wd = C.workdir(PID)
    t = C.tier()
    sd = C.seed()
    if replay:
        body = json.load(open(replay))
        rec = body["scenario"]
        st, det = replay_record(rec)
        print(f"replay {replay}: {st} {det}")
        if st == "violation":
            print(f"VIOLATION property={PID} replay={replay}")
            return 1
        return 0
    L = 4 if t == "quick" else 5
    ndeep = 6000 if t == "quick" else 60000
    # 1. exhaustive, design level + emission
    r1 = C.run_tlc(wd, "SolverGen", cfg(ALPHA_QUICK, L, True, "enum"), extra=["-continue"])
    if r1.violated:
        # a design-level disagreement between machine transcription and ideal; it only becomes a
        # violation if the real code reproduces it (the records are replayed below anyway)
        V.notes.append("TLC: machine spec disagrees with ideal: " + r1.cex[:500])
    r1b = C.run_tlc(wd, "SolverGen", cfg(ALPHA_CMP, 3 if t == "quick" else 4, True, "enum"), extra=["-continue"])
    if r1b.violated:
        V.notes.append("TLC: machine spec disagrees with ideal (comparison alphabet): " + r1b.cex[:500])
    seen_ = {tuple(x["s"]) for x in r1.records}
    recs = r1.records + [x for x in r1b.records if tuple(x["s"]) not in seen_]
    states, trans = r1.distinct + r1b.distinct, r1.generated + r1b.generated
    # 2. deeper strings: harness draws from the grammar, TLC is the oracle
    deep = deep_strings(ndeep, sd + 17)
    fin = os.path.join(wd, "deep.json")
    json.dump(deep, open(fin, "w"))
    r2 = C.run_tlc(wd, "SolverGen", cfg(ALPHA_QUICK, 0, True, "file"), env={"SOLVER_IN": fin}, extra=["-continue"])
    if r2.violated:
        V.notes.append("TLC (deep): machine spec disagrees with ideal: " + r2.cex[:500])
    recs = recs + r2.records
    states += r2.distinct; trans += r2.generated
    for i, rec in enumerate(recs):
        rec["_seed"] = sd * 7919 + i
        rec["_nlay"] = 3
    # 3. replay
    res = C.pmap(replay_record, recs)
    classes = {}
    nontrivial = set()
    for rec, (st, det) in zip(recs, res):
        classes[rec["cls"]] = classes.get(rec["cls"], 0) + 1
        if rec["cls"] == "wellformed" and len(rec["s"]) >= 3:
            nontrivial.add(tuple(rec["s"]))
        if st == "violation":
            scen = {k: rec[k] for k in ("s", "cls", "ideal", "mach", "_seed", "_nlay")}
            V.fail(scen, det.get("expected_value"), det.get("observed"), det["clause"] + " :: " + det["text"],
                   tags=[rec["cls"]] + list(rec.get("tags", [])), failure=det["clause"].split(" =>")[0])
        elif st == "drift":
            V.drift(json.dumps(det)[:300])
        elif st == "unspecified":
            V.unspecified()
        else:
            V.ok()
    # a TLC counterexample that the code did not reproduce is a spec problem, not a violation
    if (r1.violated or r1b.violated or r2.violated) and V.counts["violation"] == 0:
        V.drift("TLC Refines counterexample not reproduced by the code")
    V.cov.update({
        "states": states, "transitions": trans,
        "traces_validated_against_impl": len(recs),
        "evaluations": len(recs) * 3,
        "distinct_nontrivial": len(nontrivial),
        "rule": f"every token string of length <= {L} over {len(ALPHA_QUICK)} symbols (exhaustive, TLC) plus {len(deep)} "
                "grammar derivations of depth <= 6 and their single-edit variants; each solved by the real solver under 3 "
                "concretisations x 3 blank layouts; non-trivial = distinct well-formed strings with >= 3 tokens",
        "samples": [{"tokens": r["s"], "class": r["cls"], "ideal": r["ideal"]} for r in (recs[1000:1003] + recs[-3:])],
        "exhaustive": True,
        "classes": classes,
        "tlc_refines": "ok" if not (r1.violated or r2.violated) else "counterexample",
    })
    V.assumptions += ["NumPy/Python float primitives are the ground truth for the value of a tree",
                      "number literals are plain decimals (signed-exponent literals are outside the grammar)",
                      "strings with a folded sign chain in front of the base of ** after a binary +/- and '!!' are unspecified"]
    C.cleanup(PID)
    return V.finish()
