"""C11 - number and mass fractions are normalised and mutually consistent.

1. TLC (spec/Composite.tla) enumerates the scenario structures (Substance / Material in the three normalisation modes,
   1..3 components, single object | proportions scaled by a common factor | number<->mass-fraction dual) over a small
   rational model, checks that every emitted obligation is a theorem of the ideal formulas, that the transcription of
   Composite._norm/_data satisfies them, and that mutations of the transcription are noticed by them.
2. Every emitted scenario is concretised several times (TLC's own proportions once, then seeded positive floats; real
   substances from a pool of formulas / species; natural or most-abundant isotopes; dict or text form), built with the
   real classes, and the obligations are evaluated on data_composite(quantity=False) (rel 1e-9).  Component masses enter
   as observed values.
"""
import json, math, random
from . import common as C

PID = "C11"
MUTANTS = ["X_wrong_sum", "x_unnormalised", "mass_mode_as_number", "stale_norm", "mass_unit_blind", "operand_aliased", "selection_by_position"]


def cfg(maxk, pvals, mvals, emit):
    return f"""CONSTANTS
  MaxK = {maxk}
  PVals = {C.tla_str(set(pvals))}
  MVals = {C.tla_str(set(mvals))}
  Emit = {C.tla_str(emit)}
  Mutants = {C.tla_str(set(MUTANTS))}
INIT Init
NEXT Next
INVARIANT Sound
CHECK_DEADLOCK FALSE
"""


def draw_positive(rnd):
    r = rnd.random()
    if r < 0.3:
        return float(rnd.randint(1, 20))
    if r < 0.6:
        return round(10 ** rnd.uniform(-3, 3), rnd.choice([2, 4, 6])) or 0.5
    return 10 ** rnd.uniform(-4, 4)


def draw_spelled(rnd):
    """A positive proportion together with a way of writing it in an expression string: integer, decimals, trailing
    point, exponent notation with and without decimal point / sign / capital E.  -> (text, value = float(text))"""
    mant, exp = rnd.randint(1, 99), rnd.randint(-4, 3)
    r = rnd.randrange(8)
    if r == 0:
        t = str(rnd.randint(1, 20))
    elif r == 1:
        t = repr(round(10 ** rnd.uniform(-3, 3), 4) or 0.5)
        if "e" in t:
            t = "0.5"
    elif r == 2:
        t = "%de%d" % (mant, exp)                      # 25e-2
    elif r == 3:
        t = "%dE%d" % (mant, abs(exp))                 # 2E3
    elif r == 4:
        t = "%d.%de%d" % (mant, rnd.randint(0, 9), exp)   # 2.5e-1
    elif r == 5:
        t = "%de+%d" % (mant, abs(exp))                # 1e+2
    elif r == 6:
        t = "%d." % mant                               # 5.
    else:
        t = "%d.%02dE%+03d" % (mant % 10, rnd.randint(0, 99), exp)   # 1.50E-02
    return t, float(t)


def concretisations(rec, nconc, rnd):
    from . import materials_adapter as A
    out = []
    k = rec["k"]
    for j in range(nconc):
        natural = rnd.random() < 0.5
        if rec["cls"] == "substance":
            names = A.pick_species(rnd, natural, k)
        else:
            names = rnd.sample(A.FORMULA_POOL, k)
        texts = None
        if j == 0:
            props = [float(x) for x in rec["p"]]
        elif rec["cls"] == "material" and j % 2 == 0:
            texts, props = zip(*[draw_spelled(rnd) for _ in range(k)])        # written in some number spelling
            texts, props = list(texts), list(props)
        else:
            props = [draw_positive(rnd) for _ in range(k)]
        form = "string" if (rec["cls"] == "material" and (j % 3 == 0 or texts) and all(1e-4 <= x < 1e15 for x in props)) else "dict"
        inp = {"A.p.%d" % (i + 1): props[i] for i in range(k)}
        # further inputs some scenario kinds use: the amount added afterwards, the second operand's proportions
        inp["A.q"] = 2.0 if j == 0 else draw_positive(rnd)
        for i in range(k):
            inp["B.p.%d" % (i + 1)] = float(rec["p"][k - 1 - i]) if j == 0 else draw_positive(rnd)
        out.append({"names": names, "natural": natural, "form": form, "inp": inp, "texts": texts})
    return out


def replay_case(case):
    from . import materials_adapter as A
    rec, conc = case
    try:
        return A.replay_objects(rec, conc, "fractions")
    except Exception:
        import traceback
        return ("machinery", {"trace": traceback.format_exc()[-800:]})


def run(replay=None):
    V = C.Verdicts(PID, "exploration")
    if replay:
        body = json.load(open(replay))
        st, det = replay_case((body["scenario"]["rec"], body["scenario"]["conc"]))
        print(f"replay {replay}: {st} {json.dumps(det, default=str)[:600]}")
        if st == "fail" and C.Findings(PID).match(body.get("tags", []), body.get("failure")) is None:
            print(f"VIOLATION property={PID} replay={replay}")
            return 1
        return 0
    wd = C.workdir(PID)
    t, sd = C.tier(), C.seed()
    if t == "quick":
        r = C.run_tlc(wd, "Composite", cfg(3, [1, 2], [1, 2], True))
        nconc = 5
    else:
        r = C.run_tlc(wd, "Composite", cfg(3, [1, 2, 3, 4], [1, 2, 3], True))
        nconc = 10
    if r.violated:
        V.notes.append("TLC: Sound violated on the rational model: " + r.cex[:800])
    tlc_wall = r.wall
    rnd = random.Random(sd * 611953 + 3)
    cases = []
    for rec in r.records:
        for conc in concretisations(rec, nconc, rnd):
            cases.append((rec, conc))
    res = C.pmap(replay_case, cases)
    nontrivial, kinds = set(), {}
    nobl = 0
    for (rec, conc), (st, det) in zip(cases, res):
        key = (rec["kind"], rec["cls"], rec["mode"], rec["k"], tuple(rec["scale"]), rec["j"])
        kinds["/".join(map(str, key[:3]))] = kinds.get("/".join(map(str, key[:3])), 0) + 1
        nobl += len(rec["obl"])
        if st == "ok":
            V.ok()
            if rec["k"] >= 2:
                nontrivial.add(key + (tuple(sorted(conc["inp"].items())), tuple(conc["names"])))
        elif st == "machinery":
            raise C.MachineryError(json.dumps(det)[:1500])
        else:
            V.fail({"rec": rec, "conc": conc}, det.get("expected"), det.get("observed"),
                   det["clause"] + " :: " + json.dumps(det.get("built"))[:300], tags=list(rec["tags"]), failure=det["failure"])
    if r.violated and V.counts["violation"] == 0:
        V.drift("TLC counterexample on the rational model not reproduced by the code")
    V.cov.update({
        "states": r.distinct, "transitions": r.generated,
        "evaluations": len(cases),
        "obligations_evaluated": nobl,
        "distinct_nontrivial": len(nontrivial),
        "rule": "TLC enumerates class/mode x 1..3 components x {single, scaled by 2, 1/2, 5/3, number<->mass dual} x proportion vectors "
                "of the model and proves the obligations on the rational model; each emitted scenario is built %d times with the real "
                "classes (model proportions, then seeded positive floats over 8 decades; substances drawn from %d formulas / species from "
                "the isotope table; natural or most-abundant; dict or text form); non-trivial = distinct (structure, inputs, substances) "
                "with >= 2 components whose obligations all held" % (nconc, 0),
        "samples": [{"kind": c[0]["kind"], "cls": c[0]["cls"], "mode": c[0]["mode"], "names": c[1]["names"], "inp": c[1]["inp"],
                     "natural": c[1]["natural"], "obligations": [o["name"] for o in c[0]["obl"]][:8]} for c in cases[5:8] + cases[-2:]],
        "exhaustive": False,
        "scenario_kinds": kinds,
        "tlc_sound": "ok" if not r.violated else "counterexample", "tlc_wall_s": round(tlc_wall, 1),
        "tlc_mutants_noticed": MUTANTS,
    })
    from . import materials_adapter as A
    V.cov["rule"] = V.cov["rule"].replace("from 0 formulas", "from %d formulas" % len(A.FORMULA_POOL))
    V.assumptions += ["component masses are taken as observed (component_mass); their correctness is C10",
                      "the 'avg' row is not covered",
                      "proportions are positive and within 1e-4..1e4 of each other; tolerance rel 1e-9"]
    C.cleanup(PID)
    return V.finish()
