"""C07 - operations on quantities never alter their operands.

1. TLC explores QuantityHeap.tla (a heap of Magnitude cells, BaseUnits cells, exponent dicts and Quantity objects
   holding REFERENCES; one action per public operation passing the references the code passes) in lock step with
   QuantityIdeal.tla (value semantics) over all histories of a bounded shape from 16 initial configurations
   (same unit / other unit of one dimension / three units / dB levels / Decimal / array / uncertain / angles /
   dimensionless / different dimensions):
     a. Fixed = AllDevs  : invariants Frame, NoShare, SameObjects and the action property Immutable hold
                           (the design without the in-place conversions of operands satisfies the property);
     b. Fixed = {}       : Frame / NoShare yield counterexamples (sensitivity) - the aliasing defects of the pinned
                           code, each a NAMED DEVIATION; AllNamed holds (no unnamed departure exists in the machine);
     c. every explored history is emitted with, per step, the receiver (the only object allowed to change), the
        deviations fired per object, the machine's units / reference structure / Decimal flags.
2. Every emitted history is replayed on real objects.  After every step ALL live objects are snapshotted through the
   public API (value(), units(), abse(), baseunits.value(); arrays by content) and compared with the snapshot before
   the step: an object other than the receiver that reports something else is a failure (verdict, from the ideal).
   The machine is bound as well: fired deviations, units, the sharing structure (`is` identity of magnitude /
   baseunits / dict) and Decimal promotion are compared with the prediction (drift only).
   A seeded part of the replays renders the abstract units m/cm/km/s with arbitrary linear table units.
"""
import json, os, warnings, itertools
from decimal import Decimal
import numpy as np
from . import common as C
from . import units_b_adapter as A

PID = "C07"

CONFIGS = {
    "same_unit":      [("m", 0, 0, 0), ("m", 0, 0, 0)],
    "other_unit":     [("m", 0, 0, 0), ("c:m", 0, 0, 0)],
    "three_units":    [("m", 0, 0, 0), ("c:m", 0, 0, 0), ("k:m", 0, 0, 0)],
    "dB_same":        [("d:Bm", 0, 0, 0), ("d:Bm", 0, 0, 0)],
    "dB_other":       [("d:Bm", 0, 0, 0), ("d:BW", 0, 0, 0)],
    "dB_prefix":      [("d:Bm", 0, 1, 1), ("Bm", 0, 1, 1)],                  # one level unit under two prefixes, uncertain arrays
    "decimal_left":   [("m", 1, 0, 0), ("c:m", 0, 0, 0)],
    "decimal_right":  [("m", 0, 0, 0), ("c:m", 1, 0, 0)],
    "array_left":     [("m", 0, 1, 0), ("c:m", 0, 0, 0)],
    "array_both":     [("m", 0, 1, 0), ("c:m", 0, 1, 0)],
    "uncertain":      [("m", 0, 0, 1), ("c:m", 0, 0, 1)],
    "angles":         [("deg", 0, 0, 0), ("rad", 0, 0, 0)],
    "dimensionless":  [("", 0, 0, 0), ("%", 0, 0, 0)],
    "other_dimension": [("m", 0, 0, 0), ("s", 0, 0, 0)],
    "array_uncertain": [("m", 0, 1, 1), ("c:m", 0, 0, 1)],
    "compound_units": [("k:m*m", 0, 0, 0), ("c:m*m", 0, 0, 1)],             # a repeated dimension: rebase() has something to merge
    "mixed_kinds":    [("m", 1, 0, 0), ("m", 0, 1, 0), ("m", 0, 0, 0)],      # Decimal, array and float magnitudes side by side
}
# named deviations of QuantityHeap.tla that have been repaired in /repo: those whose findings in known_findings are all
# `fixed` (none so far); the machine spec then follows the repaired algorithm (DESIGN 4.5).
ALL_DEVIATIONS = ["rhs_converted_in_place", "log_operands_to_linear", "arg_converted_in_place", "operand_to_rad", "operand_to_none",
                  "ctor_shares_magnitude", "ctor_mutates_magnitude", "decimal_promoted_in_place"]
FIXED_DEVIATIONS = sorted(set(A.repaired_deviations(PID, ALL_DEVIATIONS)) |
                          {x for x in os.environ.get("VERIF_C07_FIXED", "").split(",") if x})      # (env: trial of a patch only)
REP_PURE = ["add", "mul", "eq", "neg", "np.sqrt", "np.abs", "np.linspace", "np.sin", "value", "ctor_dict", "getitem", "radd", "pow1"]
REP_PURE_QUICK = ["add", "mul", "eq", "neg", "np.abs", "np.linspace", "ctor_dict"]
QUICK_REPAIRED = ["other_unit", "dB_same", "dB_prefix", "decimal_right", "array_uncertain", "angles", "dimensionless", "compound_units", "mixed_kinds"]
KINDS_PURE = ["value", "mul", "add", "neg", "eq"]        # histories of two operations over quantities of different kinds


def _b(x):
    return "TRUE" if x else "FALSE"


def mc_module(configs, pure, inpl):
    def kind(k):
        u, dec, arr, err = k
        ux = "<<>>" if u == "" else " \\o ".join(f'X1("{x}")' for x in u.split("*"))
        return f"K({ux}, {_b(dec)}, {_b(arr)}, {_b(err)})"
    cfgs = ",\n   ".join("<<" + ", ".join(kind(k) for k in c) + ">>" for c in configs)
    return f"""---- MODULE QuantityHeapMC ----
EXTENDS QuantityHeap, Json
K(u, dec, arr, err) == [u |-> u, dec |-> dec, arr |-> arr, err |-> err]
MCConfigs == {{ {cfgs} }}
MCPure == {pure}
MCInpl == {inpl}
MCFixed == {C.tla_str(set(FIXED_DEVIATIONS))}
MCNone == {{}}
EmitInv == hist # <<>> => PrintT(ToJson([cfg |-> cfg, hist |-> hist]))
====
"""


def cfg_text(repaired, steps, pure, inpl, invariants, view=False, prop=True):
    inv = "\n".join("INVARIANT " + i for i in invariants)
    return f"""CONSTANTS
  UInfo <- HeapUnits
  Fixed <- {"AllDevs" if repaired is True else ("MCNone" if repaired == "none" else "MCFixed")}
  Configs <- MCConfigs
  PureOps <- MCPure
  InplOps <- MCInpl
  MaxSteps = {steps}
  MaxPure = {pure}
  MaxInpl = {inpl}
SPECIFICATION Spec
{inv}
{"PROPERTY Immutable" if prop else ""}
{"VIEW HeapView" if view else ""}
CHECK_DEADLOCK FALSE
"""


# ------------------------------------------------------------------ rendering / performing on real objects

BASE_VALUES = [0.5, 0.25, 0.125, 0.0625]


def unit_mapping(rnd, style):
    """abstract unit id -> concrete unit id.  style 'plain': identity; 'table': m/cm/km and s replaced by arbitrary
    linear table units of one dimension class resp. of an independent one."""
    ident = {u: u for u in ("m", "c:m", "k:m", "s", "deg", "rad", "d:Bm", "d:BW", "Bm", "%")}
    if style == "plain":
        return ident
    lin = A.linear_units()
    bydim = {}
    for uid, dims in lin:
        if any(dims):
            bydim.setdefault(tuple(dims), []).append(uid)
    classes = [(d, v) for d, v in sorted(bydim.items()) if len(v) >= 3 and d[7] == 0]
    d1, fam = rnd.choice(classes)
    fam = rnd.sample(fam, 3)

    def independent(d):
        # not proportional to d1
        pairs = [(a, b) for a, b in zip(d, d1) if a or b]
        ratios = {(a / b) if b else None for a, b in pairs}
        return len(ratios) > 1
    # (the second dimension class also differs in WHICH base dimensions occur: Quantity.rebase() keys units by the set of
    #  occurring dimensions, so N*J or Pa/W would be merged - a defect of rebase() outside C07, reported separately)
    support = lambda d: tuple(bool(x) for x in d)
    others = [(d, v) for d, v in sorted(bydim.items()) if independent(d) and d[7] == 0 and support(d) != support(d1)]
    d2, o = rnd.choice(others)
    m = dict(ident)
    m.update({"m": fam[0], "c:m": fam[1], "k:m": fam[2], "s": rnd.choice(o)})
    return m


def conc_ex(ex, umap):
    return [{"u": umap[r["u"]], "e": r["e"]} for r in ex]


def make_initial(kinds, umap):
    objs = []
    for i, k in enumerate(kinds):
        v = BASE_VALUES[i]
        if k["arr"]:
            val = np.array([v, v / 2, v / 4])
        elif k["dec"]:
            val = Decimal(str(v))
        else:
            val = v
        kw = {"abse": v / 8} if k["err"] else {}
        objs.append(A.make_quantity(val, conc_ex(k["u"], umap), style="text", **kw))
    return objs


def perform(a, objs, umap, k):
    from scinumtools.units import Quantity
    op = a["op"]
    x = objs[a["x"] - 1]
    y = objs[a["y"] - 1] if a["y"] else None
    arg = A.unit_text(conc_ex(a["arg"], umap)) if a["op"] in ("to", "value") else None
    if op == "add": return x + y
    if op == "sub": return x - y
    if op == "mul": return x * y
    if op == "div": return x / y
    if op == "eq": return x == y
    if op == "np.linspace": return np.linspace(x, y, 3)
    if op == "np.logspace": return np.logspace(x, y, 3)
    if op == "radd": return 2 + x
    if op == "rsub": return 2 - x
    if op == "rmul": return 2 * x
    if op == "rdiv": return 2 / x
    if op == "np.linspace_nq": return np.linspace(0, x, 3)
    if op == "np.logspace_nq": return np.logspace(0, x, 3)
    if op == "addn": return x + 2
    if op == "subn": return x - 2
    if op == "muln": return x * 2
    if op == "divn": return x / 2
    if op == "eqn": return x == 2
    if op == "np.linspace_qn": return np.linspace(x, 5, 3)
    if op == "np.logspace_qn": return np.logspace(x, 2, 3)
    if op == "radd0": return 0 + x
    if op == "radd0f": return 0.0 + x
    if op == "sum1": return sum([x])
    if op == "sum2": return sum([x, y])
    if op == "muln1": return x * 1
    if op == "divn1": return x / 1
    if op == "rmul1": return 1 * x
    if op == "addn0": return x + 0
    if op == "subn0": return x - 0
    if op == "pow1": return x ** 1
    if op == "pow_pair11": return x ** (2, 2)
    if op == "pow_float1": return x ** 1.0
    if op == "np.power1": return np.power(x, 1)
    if op == "neg": return -x
    if op == "pow2": return x ** 2
    if op == "getitem": return x[:2]
    if op == "np.power": return np.power(x, 3)
    if op in ("np.sqrt", "np.cbrt", "np.sin", "np.cos", "np.tan", "np.arcsin", "np.arccos", "np.arctan", "np.isnan", "np.isnat",
              "np.absolute", "np.abs", "np.round", "np.floor", "np.ceil", "np.sum", "np.iscomplexobj"):
        return getattr(np, op[3:])(x)
    if op == "value": return x.value(arg)
    if op == "value0": return x.value()
    if op == "units": return x.units()
    if op == "abse_get": return x.abse()
    if op == "str": return str(x)
    if op == "ctor_dict": return Quantity(x.magnitude, dict(x.baseunits.value()))
    if op == "ctor_dict_abse": return Quantity(x.magnitude, dict(x.baseunits.value()), abse=0.0390625 * (k + 1))
    if op == "to": return x.to(arg)
    if op == "rebase": return x.rebase()
    if op == "abse_set": return x.abse(0.046875 * (k + 1))
    if op == "rele_set": return x.rele(3.0 + k)
    raise KeyError(op)


def _kind(v):
    """the kind of number an object reports (part of its state: a float does not become a Decimal by being an operand)"""
    if v is None:
        return "none"
    if isinstance(v, Decimal):
        return "Decimal"
    if isinstance(v, np.ndarray):
        return "array:" + ("Decimal" if v.dtype == object and v.size and isinstance(v.ravel()[0], Decimal) else "float")
    return "float"


def _num(v):
    if v is None:
        return None
    if isinstance(v, Decimal):
        return float(v)
    if isinstance(v, np.ndarray):
        return [float(t) for t in v.ravel().tolist()] + [list(v.shape)]
    try:
        return float(v)
    except Exception:
        return repr(v)


def snapshot(q):
    try:
        bu = q.baseunits.value()
        val, err = q.value(), q.abse()
        if isinstance(val, np.ndarray) and err is not None and not isinstance(err, np.ndarray):
            err = np.full_like(val, float(err), dtype=float)     # one uncertainty for all elements, reported either way
        return (_num(val), q.units(), _num(err), {k: tuple(v) if isinstance(v, tuple) else v for k, v in bu.items()},
                _kind(val))
    except Exception as e:                      # an object that can no longer report its state has changed
        return ("#unreadable", type(e).__name__)


def same(a, b):
    return json.dumps(a, sort_keys=True, default=str) == json.dumps(b, sort_keys=True, default=str)


def partition(ids):
    """canonical partition of indices by identity"""
    seen = {}
    return [seen.setdefault(i, len(seen)) for i in ids]


def replay_history(job):
    """job: {cfg, hist, style, seed}.  -> list of events (kind, payload)"""
    import random
    rnd = random.Random(job["seed"])
    umap = unit_mapping(rnd, job["style"])
    inv = {v: k for k, v in umap.items()}
    out = []
    with warnings.catch_warnings():
        warnings.simplefilter("ignore")
        np.seterr(all="ignore")
        try:
            objs = make_initial(job["cfg"], umap)
        except Exception as e:
            return [("machinery", f"initial objects: {type(e).__name__}: {e}")]
        snaps = [snapshot(o) for o in objs]
        check_from = job.get("check_from", 0)
        for k, st in enumerate(job["hist"]):
            a = st["a"]
            try:
                res = perform(a, objs, umap, k)
                raised = None
            except Exception as e:
                res, raised = None, e
            from scinumtools.units import Quantity
            new = [snapshot(o) for o in objs]
            judged = k >= check_from
            fired, must = {}, set()
            for d in st["devs"]:
                fired.setdefault(d["o"], []).append(d["d"])
                if d["must"]:
                    must.add(d["o"])
            # ---- verdict: nobody but the receiver changes
            for i, (s0, s1) in enumerate(zip(snaps, new)):
                o = i + 1
                if o == st["recv"]:
                    continue
                if not same(s0, s1):
                    if judged:
                        inplace = a["op"] in ("to", "rebase", "abse_set", "rele_set")
                        role = "x" if a["x"] == o else ("y" if a["y"] == o else "bystander")
                        # is the change the one the transcribed machine predicts for this deviation?  (another change of
                        # the same object is a different defect than the recorded one)
                        names = fired.get(o, [])
                        as_tr = bool(names) and s1[0] != "#unreadable" and s0[0] != "#unreadable"
                        if as_tr:
                            mu = A.ex_to_map(st["mu"][i])
                            ou = {inv.get(u, u): e for u, e in s1[3].items()}
                            ou = {u: (A.PyFrac(e[0], e[1]) if isinstance(e, (tuple, list)) else A.PyFrac(e)) for u, e in ou.items()}
                            if names[0] in ("rhs_converted_in_place", "arg_converted_in_place", "operand_to_rad", "operand_to_none"):
                                as_tr = ou == mu                      # value and units move (the uncertainty may be rescaled)
                            elif "decimal_promoted_in_place" in names and len(names) == 1:
                                as_tr = all(same(s0[j], s1[j]) for j in range(4)) and s1[4] == "Decimal"
                            elif names[0] == "log_operands_to_linear":
                                as_tr = ou == mu and same(s0[1], s1[1]) and same(s0[2], s1[2])
                            else:                                       # shared / mutated Magnitude: only the uncertainty moves
                                as_tr = same(s0[0], s1[0]) and same(s0[1], s1[1]) and same(s0[3], s1[3])
                        out.append(("fail", dict(
                            step=k + 1, obj=o, role=role, op=a["op"],
                            clause=("an in-place method changes only the object it is called on" if inplace else
                                    "an operation leaves every operand reporting the same value, units and uncertainty"),
                            failure=("shared_state" if inplace else "operand_changed") + (":as_transcribed" if as_tr else ""),
                            tags=[a["op"], "role:" + role] + sorted(fired.get(o, [])),
                            expected=s0, observed=s1)))
                elif o in must and judged and "nan" not in json.dumps(s1).lower():
                    out.append(("drift", f"machine predicts {fired[o]} on object {o} at step {k+1} of {brief(job)} but the object did not change"))
            snaps = new
            # ---- conformance of raising / result
            expects_res = st["mres"] > 0
            got_res = isinstance(res, Quantity) and a["op"] not in ("to", "rebase", "abse_set", "rele_set")
            if (raised is not None) != st["mraises"] or expects_res != got_res:
                if judged:
                    out.append(("raise_mismatch", f"{a['op']} on {brief(job)} step {k+1}: machine raises={st['mraises']} result={expects_res}; "
                                                  f"code raised={type(raised).__name__ if raised else None} result={got_res}"))
                break
            if (st["mres"] > 0) != (st["res"] > 0):
                break                                   # the pinned machine has left the ideal: the history ends here
            if got_res:
                objs.append(res)
                snaps.append(snapshot(res))
            if not judged:
                continue
            # ---- machine conformance (drift only): units, sharing structure, Decimal promotion
            try:
                for i, o in enumerate(objs):
                    mu = A.ex_to_map(st["mu"][i])
                    ou = {inv.get(u, u): e for u, e in A.obs_exmap(o).items()}
                    if mu != ou:
                        out.append(("drift", f"units of object {i+1} after step {k+1} of {brief(job)}: machine {A.fmt_map(mu)} code {A.fmt_map(ou)}"))
                        break
                else:
                    for col, ids in ((0, [id(o.magnitude) for o in objs]), (1, [id(o.baseunits) for o in objs]),
                                     (2, [id(o.baseunits.baseunits) for o in objs])):
                        if partition(ids) != partition([st["sh"][i][col] for i in range(len(objs))]):
                            out.append(("drift", f"sharing of {['Magnitude', 'BaseUnits', 'dict'][col]} objects after step {k+1} of {brief(job)}: "
                                                 f"machine {partition([st['sh'][i][col] for i in range(len(objs))])} code {partition(ids)}"))
                            break
                    else:
                        for i, o in enumerate(objs):
                            dec = isinstance(o.magnitude.value, Decimal)
                            dm = isinstance(o.baseunits.magnitude, Decimal)
                            if [dec, dm] != st["fl"][i][:2]:
                                out.append(("drift", f"Decimal flags of object {i+1} after step {k+1} of {brief(job)}: machine {st['fl'][i][:2]} code {[dec, dm]}"))
                                break
            except Exception as e:
                out.append(("drift", f"cannot project objects after step {k+1} of {brief(job)}: {type(e).__name__}: {e}"))
    return out


def brief(job):
    c = "+".join(("".join(x["u"] for x in k["u"]) or "none") + ("D" if k["dec"] else "") + ("A" if k["arr"] else "") + ("E" if k["err"] else "")
                 for k in job["cfg"])
    return c + ":" + " ; ".join(f"{s['a']['op']}({s['a']['x']}{',' + str(s['a']['y']) if s['a']['y'] else ''}"
                                f"{',' + (A.unit_text(s['a']['arg']) or 'None') if s['a']['op'] in ('to', 'value') else ''})" for s in job["hist"])


def _safe_replay(job):
    try:
        return replay_history(job)
    except Exception:
        import traceback
        return [("machinery", traceback.format_exc()[-1500:])]


# ------------------------------------------------------------------ main

def run(replay_path=None, replay=None):
    replay_path = replay_path or replay
    V = C.Verdicts(PID, "model_checking")
    if replay_path:
        body = json.load(open(replay_path))
        ev = _safe_replay(body["scenario"])
        bad = 0
        for kind, det in ev:
            print(kind, json.dumps(det, default=str)[:700])
            if kind == "fail" and V.findings.match(det["tags"], det["failure"]) is None:
                bad += 1
        if bad:
            print(f"VIOLATION property={PID} replay={replay_path}")
            return 1
        return 0
    wd = C.workdir(PID)
    t = C.tier()
    rnd = C.rng(7)
    configs = list(CONFIGS.values())
    states = trans = 0
    tlc = {}

    def model(name, confs, pure, inpl, repaired, bounds, invariants, view=False, emit=True, prop=True):
        nonlocal states, trans
        with open(os.path.join(wd, "QuantityHeapMC.tla"), "w") as f:
            f.write(mc_module(confs, pure, inpl))
        inv = (["EmitInv"] if emit else []) + invariants
        r = C.run_tlc(wd, "QuantityHeapMC", cfg_text(repaired, *bounds, inv, view=view, prop=prop), want_records=emit)
        states += r.distinct; trans += r.generated
        tlc[name] = {"states": r.distinct, "transitions": r.generated, "violated": r.violated, "wall_s": round(r.wall, 1),
                     "histories": len(r.records)}
        return r

    # ---- replay of one batch of emitted histories (batch by batch: the records of a TLC run are dropped before the next
    #      run starts, and the worker processes are forked from a small parent)
    acc = dict(n=0, nontriv=set(), failclasses={}, raise_mis=0, devnames=set(), ops_seen=set(), samples=[], idx=0)

    def consume(records, src):
        import gc
        records.sort(key=lambda r: json.dumps([r["cfg"], [s_["a"] for s_ in r["hist"]]], sort_keys=True))
        step = 40000
        for lo in range(0, len(records), step):
            jobs = []
            for r in records[lo:lo + step]:
                i = acc["idx"]; acc["idx"] += 1
                # in the full run every prefix is a record of its own: judge the last step only; deep paths are judged entirely
                cf = len(r["hist"]) - 1 if src == "full" else 0
                jobs.append(dict(cfg=r["cfg"], hist=r["hist"], style="plain", seed=i, check_from=cf))
                tabular = all(x["u"] in ("m", "c:m", "k:m", "s") for k in r["cfg"] for x in k["u"])
                if tabular and rnd.random() < (0.35 if t == "quick" else 0.5):
                    jobs.append(dict(cfg=r["cfg"], hist=r["hist"], style="table", seed=C.seed() * 7919 + i, check_from=cf))
            gc.collect()
            res = C.pmap(_safe_replay, jobs)
            for job, evs in zip(jobs, res):
                bad = False
                for kind, det in evs:
                    if kind == "machinery":
                        raise C.MachineryError("replay of a C07 history crashed:\n" + str(det))
                    if kind == "fail":
                        bad = True
                        scen = dict(cfg=job["cfg"], hist=job["hist"], style=job["style"], seed=job["seed"], check_from=job["check_from"],
                                    text=brief(job))
                        kf = V.fail(scen, det["expected"], det["observed"],
                                    f"step {det['step']} ({det['op']}), object {det['obj']} ({det['role']}): " + det["clause"],
                                    tags=det["tags"], failure=det["failure"])
                        fk = f"{kf}:{det['failure']}:{','.join(det['tags'])}"
                        acc["failclasses"][fk] = acc["failclasses"].get(fk, 0) + 1
                    elif kind == "drift":
                        V.drift(det)
                    elif kind == "raise_mismatch":
                        acc["raise_mis"] += 1
                        if acc["raise_mis"] <= 5:
                            V.notes.append("raise prediction: " + det)
                if not bad:
                    V.ok()
                for s_ in job["hist"]:
                    acc["ops_seen"].add(s_["a"]["op"])
                    for d in s_["devs"]:
                        acc["devnames"].add(d["d"])
                if len(job["hist"]) >= 2 or any(s_["devs"] for s_ in job["hist"]):
                    acc["nontriv"].add(hash(brief(job) + "|" + job["style"]))
            if len(acc["samples"]) < 3 and jobs:
                acc["samples"].append(jobs[len(jobs) // 3])
            acc["n"] += len(jobs)
            del jobs, res
        del records[:]
        gc.collect()

    deep_names = ("other_unit",) if t == "quick" else ("other_unit", "dB_same", "uncertain", "dimensionless")
    deep_confs = [CONFIGS[k] for k in deep_names]
    deep_pure = C.tla_str(set(REP_PURE_QUICK if t == "quick" else REP_PURE))
    deep_inpl = '{"to", "abse_set"}' if t == "quick" else '{"to", "abse_set", "rebase"}'
    deep_bounds = (3, 2, 1) if t == "quick" else (3, 2, 2)
    deep4 = ([CONFIGS["other_unit"]], '{"add", "eq", "neg", "ctor_dict"}', '{"to", "abse_set"}', (4, 2, 2))
    key_confs = [CONFIGS[k] for k in ("other_unit", "dB_same", "uncertain")]
    full_bounds = (2, 1, 2)
    # 1a. the repaired design satisfies the property
    rep_runs = [("repaired_design", [CONFIGS[k] for k in QUICK_REPAIRED] if t == "quick" else configs, "AllPureOps", "InplaceOps", full_bounds, False)]
    if t != "quick":
        rep_runs.append(("repaired_design_deep", deep_confs, deep_pure, deep_inpl, deep_bounds, True))
        rep_runs.append(("repaired_design_deep4", deep4[0], deep4[1], deep4[2], deep4[3], True))
        rep_runs.append(("repaired_design_3", key_confs, "AllPureOps", "InplaceOps", (3, 1, 2), False))
    for name, confs, pure, inpl, bounds, view in rep_runs:
        ra = model(name, confs, pure, inpl, True, bounds, ["Frame", "NoShare", "SameObjects"], emit=False, view=view, prop=not view)
        if ra.violated:
            raise C.MachineryError(f"the repaired machine violates {ra.violated}: the ideal/machine pair is inconsistent\n{ra.cex[:3000]}")
    # 1b. sensitivity: the pinned machine yields the aliasing counterexamples
    sens = {}
    for inv in ("Frame", "NoShare"):
        # (the transcription of the tree as it was pinned, all deviations on: the spec can tell the difference)
        rs = model("pinned_" + inv, [CONFIGS["other_unit"]], "AllPureOps", "InplaceOps", "none", (2, 1, 1), [inv], emit=False, prop=False)
        sens[inv] = rs.violated or "none"
        if not rs.violated:
            raise C.MachineryError(f"the pinned machine does not violate {inv}: the spec lost its sensitivity")
    # 1c. every history of the full alphabet
    full_runs = [("pinned_full", configs, full_bounds)] + ([("pinned_full_3", key_confs, (3, 1, 2))] if t != "quick" else [])
    for name, confs, bounds in full_runs:
        rf = model(name, confs, "AllPureOps", "InplaceOps", False, bounds, ["AllNamed"])
        if rf.violated:
            V.notes.append(f"TLC: {rf.violated} violated on the pinned machine: {rf.cex[:500]}")
        rf.stdout = ""
        consume([r for r in rf.records if not (name == "pinned_full_3" and len(r["hist"]) < 3)], "full")
        rf.records = None
    # 1d. deeper histories over representative operations (one path per distinct heap state)
    rd = model("pinned_deep", deep_confs, deep_pure, deep_inpl, False, deep_bounds, ["AllNamed"], view=True, prop=False)
    rd.stdout = ""
    consume(rd.records, "deep")
    rd.records = None
    rk = model("pinned_kinds", [CONFIGS["mixed_kinds"], CONFIGS["decimal_right"]], C.tla_str(set(KINDS_PURE)), '{"to"}', False,
               (2, 2, 1) if t == "quick" else (3, 2, 1), ["AllNamed"], view=True, prop=False)
    rk.stdout = ""
    consume(rk.records, "deep")
    rk.records = None
    if t != "quick":
        rd4 = model("pinned_deep4", deep4[0], deep4[1], deep4[2], False, deep4[3], ["AllNamed"], view=True, prop=False)
        rd4.stdout = ""
        consume([r for r in rd4.records if len(r["hist"]) == 4], "deep")
        rd4.records = None
    nontriv, failclasses, raise_mis, devnames, ops_seen = acc["nontriv"], acc["failclasses"], acc["raise_mis"], acc["devnames"], acc["ops_seen"]
    njobs = acc["n"]
    doc_np = ["np.sqrt", "np.cbrt", "np.power", "np.sin", "np.cos", "np.tan", "np.arcsin", "np.arccos", "np.arctan", "np.isnan", "np.isnat",
              "np.linspace", "np.logspace", "np.absolute", "np.abs", "np.round", "np.floor", "np.ceil", "np.iscomplexobj", "np.sum"]
    missing = [f for f in doc_np if f not in ops_seen]
    if missing:
        raise C.MachineryError(f"documented NumPy functions missing from the explored alphabet: {missing}")
    V.cov.update({
        "states": states, "transitions": trans, "traces_validated_against_impl": njobs,
        "evaluations": njobs, "distinct_nontrivial": len(nontriv),
        "rule": "histories = every sequence of <= {} steps (3 for three key configurations in the thorough tier) with <= {} operation(s) of the full alphabet ({} operations incl. all documented "
                "NumPy functions) and <= {} in-place methods, from 16 initial configurations (TLC, exhaustive), plus one path to every "
                "distinct heap state of depth <= {} over 7-12 representative operations; each replayed on real objects with all live objects "
                "snapshotted after every step; non-trivial = distinct histories with >= 2 steps or a fired deviation".format(
                    full_bounds[0], full_bounds[1], len(ops_seen), full_bounds[2], deep_bounds[0]),
        "samples": [dict(history=brief(j), style=j["style"], steps=[dict(op=s["a"]["op"], x=s["a"]["x"], y=s["a"]["y"], receiver=s["recv"],
                                                                         deviations=s["devs"], raises=s["raises"]) for s in j["hist"]])
                    for j in acc["samples"]],
        "exhaustive": True, "tlc_runs": tlc,
        "spec_sensitivity": sens, "named_deviations_reached": sorted(devnames),
        "operations_in_alphabet": sorted(ops_seen), "failing_classes": failclasses,
        "raise_prediction_mismatches": raise_mis,
    })
    V.assumptions += [
        "an object's state is what value(), units(), abse() and baseunits.value() report (arrays by content, Decimal by value)",
        "whether a call raises is not C07's subject: a mismatch with the spec's prediction ends the history and is counted, not judged",
        "initial values are non-zero; the histories use one conversion target per unit family",
        "Decimal magnitudes combined with logarithmic units, temperature units, and Quantity arguments of to() are outside the explored alphabet",
    ]
    C.cleanup(PID)
    return V.finish()
