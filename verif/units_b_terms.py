"""Evaluator for the term language emitted by the units-B specs (QuantityAlg, Magnitude).

Terms are JSON records {"t": kind, ...}; which term must equal / bound which observation is decided by the
TLA+ specs, this module only computes numbers (floats or numpy arrays).  No library formulas live here.
  q(n,d)  tab(u)  obs(p)  mul div add sub neg abs powq(a; n,d)
tab(u) is the factor of table unit id u ("k:m", "ft", ...) read from the live library tables.
"""
import numpy as np


class TermError(Exception):
    pass


def tab_factor(uid):
    from scinumtools.units.settings import UNIT_PREFIXES, UNIT_STANDARD
    if ":" in uid:
        p, b = uid.split(":")
        return float(UNIT_PREFIXES[p].magnitude) * float(UNIT_STANDARD[b].magnitude)
    return float(UNIT_STANDARD[uid].magnitude)


def ev(t, obs=None, mag=False):
    """Value of a term.  mag=True: the magnitude scale of the computation (every leaf by absolute value,
    differences as sums) - used to scale the tolerance of sums that cancel."""
    k = t["t"]
    if mag:
        if k == "q":
            return abs(t["n"] / t["d"])
        if k == "obs":
            return np.abs(ev(t, obs))
        if k in ("sub", "add"):
            return ev(t["a"], obs, True) + ev(t["b"], obs, True)
        if k in ("neg", "abs"):
            return ev(t["a"], obs, True)
        if k == "mul":
            return ev(t["a"], obs, True) * ev(t["b"], obs, True)
        if k == "div":
            return ev(t["a"], obs, True) / ev(t["b"], obs, True)
        if k == "powq":
            return ev(t["a"], obs, True) ** (t["n"] / t["d"])
        if k == "p10":
            return 10.0 ** ev(t["a"], obs)
    if k == "q":
        return t["n"] / t["d"]
    if k == "tab":
        return tab_factor(t["u"])
    if k == "obs":
        if obs is None or t["p"] not in obs:
            raise TermError("no observation " + t["p"])
        return obs[t["p"]]
    if k == "mul":
        return ev(t["a"], obs) * ev(t["b"], obs)
    if k == "div":
        return ev(t["a"], obs) / ev(t["b"], obs)
    if k == "add":
        return ev(t["a"], obs) + ev(t["b"], obs)
    if k == "sub":
        return ev(t["a"], obs) - ev(t["b"], obs)
    if k == "neg":
        return -ev(t["a"], obs)
    if k == "abs":
        return np.abs(ev(t["a"], obs))
    if k == "p10":
        return 10.0 ** ev(t["a"], obs)
    if k == "powq":
        a = ev(t["a"], obs)
        n, d = t["n"], t["d"]
        if d == 1:
            return a ** n if n >= 0 else 1.0 / (a ** (-n))
        return a ** (n / d)
    raise TermError("unknown term kind " + str(k))


def subst(t, env):
    """Replace {"t":"var","x":name} leaves by terms of env (used to build array cases from scalar records)."""
    if not isinstance(t, dict):
        return t
    if t.get("t") == "var":
        return env[t["x"]]
    return {k: subst(v, env) for k, v in t.items()}


def close(x, y, rel=1e-9, scale=None):
    """x ~ y element-wise within rel * max(|x|, |y|, scale)."""
    try:
        x = np.asarray(x, dtype=float)
        y = np.asarray(y, dtype=float)
    except Exception:
        return False
    if x.shape != y.shape:
        try:
            x, y = np.broadcast_arrays(x, y)
        except ValueError:
            return False
    if not (np.all(np.isfinite(x)) and np.all(np.isfinite(y))):
        return bool(np.all((x == y) | (np.isnan(x) & np.isnan(y))))
    sc = np.maximum(np.abs(x), np.abs(y))
    if scale is not None:
        sc = np.maximum(sc, np.abs(np.asarray(scale, dtype=float)))
    return bool(np.all(np.abs(x - y) <= rel * sc + 1e-300))
