"""C06 - quantity arithmetic agrees with arithmetic on base-dimension values.

1. TLC enumerates (QuantityAlgGen, Source="enum") every operand pair over the exact-ratio units
   {none, m, cm, km, s, ms, g, kg, %, m/s, cm2, s-1, rad} x values {-2, 0, 1, 3} x {+ - * /, np.linspace, np.logspace} x both operand orders x a plain
   number on either side, negation, and power under 30 exponent spellings (int, pair, float, Fraction, np.float64/float32/int64, np.power,
   np.sqrt, np.cbrt); it computes the ideal's expectation (exponent map, dimension, base-dimension value as an
   exact rational and as a term, refusal) and checks the algebraic lemmas on the rational model.
2. Every record is replayed on real Quantity objects (scalar operands written as unit text, as exponent dict, as results of earlier arithmetic whose exponents add up to
   the intended ones, and as operands that have already been used in roots / powers / rebased products / comparisons,
   plain numbers as Python and as NumPy numbers) and, grouped by shape, with array magnitudes whose elements are
   the values of the group's records (the expectation of an element is the record's).
3. A seeded sample of scenarios over arbitrary linear table units (all admissible one-letter prefixes) is written to a
   file, classified and annotated by TLC (Source="file": dimension check, exponent map, value as a term over table
   factors) and replayed the same way.
Verdict: refusal missing, exception on a defined operation, exponent map / dimension / base-dimension value /
value in the result's units different from the ideal (rel 1e-9 of the computation's magnitude).
"""
import json, os, sys, random
from fractions import Fraction as PyFrac
import numpy as np
from . import common as C
from . import units_b_terms as T
from . import units_b_adapter as A

PID = "C06"
DEVIATIONS = ["float_exponent_truncated", "npfloat32_exponent_truncated", "numpy_left_operand"]      # named deviations of the spec; switched off when their findings are fixed

CFG = """CONSTANTS
  UInfo <- {uinfo}
  Source = "{source}"
  FixedDevs = {fixed}
  Emit = TRUE
SPECIFICATION Spec
INVARIANT EmitInv
{lemmas}
CHECK_DEADLOCK FALSE
"""


# ------------------------------------------------------------------ performing one scenario on the real code

def _num(v, kind):
    x = v[0] / v[1]
    if kind == "py":
        return int(x) if v[1] == 1 else x
    if kind == "npscalar":
        return np.float64(x)
    raise KeyError(kind)


def _operand(spec, plain, values, style, numkind):
    """values: list of [n,d] (one element: scalar).
    style text / dict: the operand is written down; derived: it is the RESULT of earlier arithmetic whose unit exponents add up
    to the intended ones ((q / h) * h with h = (1 <units>)**(1,2)); reused: written down, then used (see _reuse)."""
    if plain:
        if len(values) == 1:
            return _num(values[0], "py" if numkind == "py" else "npscalar")
        xs = [v[0] / v[1] for v in values]
        return xs if numkind == "py" else np.array(xs, dtype=float)
    if len(values) == 1:
        val = _num(values[0], "py")
    else:
        val = [v[0] / v[1] for v in values] if style != "dict" else np.array([v[0] / v[1] for v in values])
    q = A.make_quantity(val, spec["ex"], style="dict" if style == "dict" else "text")
    if style == "derived" and spec["ex"]:
        half = A.make_quantity(1, spec["ex"], style="dict") ** (1, 2)
        q = (q / half) * half
    return q


def _reuse(a, b):
    """The operands have been operands before: roots, powers, negation, a rebased product, a quotient, a comparison and a query
    (results discarded; refusals ignored)."""
    from scinumtools.units import Quantity
    qs = [x for x in (a, b) if isinstance(x, Quantity)]
    for x in qs:
        for f in (np.sqrt, np.cbrt, lambda t: t ** 2, lambda t: -t, lambda t: t.value(t.units())):
            try:
                f(x)
            except Exception:
                pass
    if len(qs) == 2:
        for f in (lambda: (a * b).rebase(), lambda: (b * a).rebase(), lambda: a / b, lambda: a == b, lambda: a + b, lambda: b - a):
            try:
                f()
            except Exception:
                pass


def perform(op, form, lit, n, a, b):
    from scinumtools.units import Fraction
    if op == "add":
        return a + b
    if op == "sub":
        return a - b
    if op == "mul":
        return a * b
    if op == "div":
        return a / b
    if op == "np.linspace":
        return np.linspace(a, b, 3)
    if op == "np.logspace":
        return np.logspace(a, b, 3)
    if op == "neg":
        return -a
    if op == "pow":
        if form == "int":
            return a ** int(lit[0])
        if form == "pair":
            return a ** (lit[0], lit[1])
        if form == "float":
            return a ** (lit[0] / lit[1])
        if form == "fraction":
            return a ** Fraction(lit[0], lit[1])
        if form == "np.float64":
            return a ** np.float64(lit[0] / lit[1])
        if form == "np.float32":
            return a ** np.float32(lit[0] / lit[1])
        if form == "np.int64":
            return a ** np.int64(lit[0])
        if form == "np.power":
            return np.power(a, lit[0] if len(lit) == 1 else lit[0] / lit[1])
        if form == "np.sqrt":
            return np.sqrt(a)
        if form == "np.cbrt":
            return np.cbrt(a)
    raise KeyError((op, form))


def run_case(case):
    """case: {rec(s), style, numkind, array}.  -> (status, detail)
    status: ok | unspecified | fail ; detail for fail: dict(clause, failure, expected, observed, tags)"""
    recs = case["recs"]
    r0 = recs[0]
    style = case["style"]
    numkind = r0.get("num", "py") if r0.get("num", "-") != "-" else "py"
    tags = [r0["op"], r0["side"], "form:" + r0["form"], "style:" + style] + sorted(set(t for r in recs for t in r["tags"]))
    if len(recs) > 1:
        tags.append("array")
    if case.get("bscalar"):
        tags.append("broadcast")
    if r0["cls"] == "unspecified":
        return ("unspecified", None)
    if r0["cls"] == "ok":
        # scenarios in which the ideal value, the factor of the result units or an operand's factor / base value leaves
        # 1e-150..1e150 are not judged (squares and products of such numbers leave the normal range of a double)
        def _facof(ex):
            f = 1.0
            for x in ex:
                f *= T.tab_factor(x["u"]) ** (x["e"][0] / x["e"][1])
            return f
        try:
            with np.errstate(all="ignore"):
                probe = [T.ev(r["base"]) for r in recs] + [T.ev(r["val"]) for r in recs] + [T.ev(r["base"], mag=True) for r in recs]
                probe += [T.ev(t) for r in recs for t in r.get("seqb", []) + r.get("seqv", [])]
                probe += [_facof(r0["ex"]), _facof(r0["a"]["ex"]), _facof(r0["b"]["ex"])]
                probe += [_facof(r["a"]["ex"]) * r["a"]["v"][0] / r["a"]["v"][1] for r in recs]
                probe += [_facof(r["b"]["ex"]) * r["b"]["v"][0] / r["b"]["v"][1] for r in recs]
            if any((not np.isfinite(x)) or (x != 0 and not (1e-150 < abs(x) < 1e150)) for x in probe):
                return ("unspecified", None)
        except (ZeroDivisionError, OverflowError):
            return ("unspecified", None)
    try:
        # derived: the left operand is a result of earlier arithmetic, derived_b: the right one (the other is written down)
        sa = "text" if style == "derived_b" else style
        sb = "derived" if style == "derived_b" else ("text" if style == "derived" else style)
        a = _operand(r0["a"], r0["side"] == "nq", [r["a"]["v"] for r in recs], sa, numkind)
        bvals = [r["b"]["v"] for r in recs]
        if case.get("bscalar"):
            bvals = bvals[:1]
        b = _operand(r0["b"], r0["side"] == "qn", bvals, sb, numkind) \
            if r0["op"] in ("add", "sub", "mul", "div", "np.linspace", "np.logspace") else None
    except Exception as e:
        return ("fail", dict(clause="operands can be constructed", failure="construction_failed", tags=tags,
                             expected="operands", observed=f"{type(e).__name__}: {e}"))
    try:
        import warnings
        with warnings.catch_warnings():
            warnings.simplefilter("ignore")
            if style == "reused":
                with np.errstate(all="ignore"):
                    _reuse(a, b)
            res = perform(r0["op"], r0["form"], r0["lit"], r0["n"], a, b)
        exc = None
    except Exception as e:
        res, exc = None, e
    if r0["cls"] == "refused":
        if exc is None:
            return ("fail", dict(clause="adding/subtracting quantities of different dimension is refused", tags=tags,
                                 failure="missing_raise", expected="an exception", observed=repr(res)))
        return ("ok", None)
    if exc is not None:
        return ("fail", dict(clause="a defined operation returns a quantity", failure="unexpected_exception", tags=tags,
                             expected="a Quantity", observed=f"{type(exc).__name__}: {exc}"))
    # --- observations through the public API
    try:
        omap = A.obs_exmap(res)
        odims = A.obs_dims(res)
        oval = np.asarray(res.value(), dtype=float)
        obase = oval * float(res.baseunits.magnitude)
    except Exception as e:
        return ("fail", dict(clause="the result is a quantity with value, units and dimensions", failure="unexpected_exception",
                             tags=tags, expected="a Quantity", observed=f"{type(e).__name__}: {e} ({res!r})"))
    emap = A.ex_to_map(r0["ex"])
    if omap != emap:
        as_tr = omap == A.ex_to_map(r0["machex"])       # the units the transcribed exponent scaling of the code predicts
        return ("fail", dict(clause="result units follow the exponent rule of the operation",
                             failure="wrong_units" + (":as_transcribed" if as_tr else ""), tags=tags,
                             expected=A.fmt_map(emap), observed=A.fmt_map(omap)))
    edims = [PyFrac(d[0], d[1]) for d in r0["dim"]]
    if odims[:len(edims)] != edims or any(d != 0 for d in odims[len(edims):]):
        return ("fail", dict(clause="result dimension is the dimension of the ideal result", failure="wrong_dimensions", tags=tags,
                             expected=[str(d) for d in edims], observed=[str(d) for d in odims]))
    if r0.get("seqv"):
        # np.linspace / np.logspace: every element of the result against the spec's element terms
        ev_ = np.array([T.ev(t) for t in r0["seqv"]], dtype=float)
        eb_ = np.array([T.ev(t) for t in r0["seqb"]], dtype=float)
        sv_ = np.array([T.ev(t, mag=True) for t in r0["seqv"]], dtype=float)
        sb_ = np.array([T.ev(t, mag=True) for t in r0["seqb"]], dtype=float)
        if oval.shape != ev_.shape or not T.close(oval, ev_, rel=1e-9, scale=sv_):
            return ("fail", dict(clause="the points run from the first to the second argument, both re-expressed in the result's units",
                                 failure="wrong_value", tags=tags, expected=ev_.tolist(), observed=oval.tolist()))
        if not T.close(obase, eb_, rel=1e-9, scale=sb_):
            return ("fail", dict(clause="base-dimension values of the points", failure="wrong_value", tags=tags,
                                 expected=eb_.tolist(), observed=np.asarray(obase).tolist()))
        return ("ok", None)
    ebase = np.array([T.ev(r["base"]) for r in recs], dtype=float)
    sbase = np.array([T.ev(r["base"], mag=True) for r in recs], dtype=float)
    eval_ = np.array([T.ev(r["val"]) for r in recs], dtype=float)
    sval = np.array([T.ev(r["val"], mag=True) for r in recs], dtype=float)
    for r, eb in zip(recs, ebase):
        if r["exact"] and not T.close(eb, r["exact"][0] / r["exact"][1], rel=1e-12):
            raise C.MachineryError(f"term evaluator disagrees with TLC's exact value: {eb} vs {r['exact']}")
    if len(recs) == 1:
        ebase, sbase, eval_, sval = ebase[0], sbase[0], eval_[0], sval[0]
        if oval.shape != ():
            return ("fail", dict(clause="scalar operands give a scalar result", failure="wrong_value", tags=tags,
                                 expected=float(eval_), observed=oval.tolist()))
    if not T.close(obase, ebase, rel=1e-9, scale=sbase):
        return ("fail", dict(clause="base-dimension value of the result = operation on the operands' base-dimension values",
                             failure="wrong_value", tags=tags, expected=np.asarray(ebase).tolist(), observed=np.asarray(obase).tolist()))
    if not T.close(oval, eval_, rel=1e-9, scale=sval):
        return ("fail", dict(clause="value in the result's units = ideal base value / factor of the result units",
                             failure="wrong_value", tags=tags, expected=np.asarray(eval_).tolist(), observed=oval.tolist()))
    return ("ok", None)


def _safe_run(case):
    try:
        return run_case(case)
    except C.MachineryError:
        raise
    except Exception as e:                               # harness problem, not a verdict
        import traceback
        return ("machinery", traceback.format_exc()[-1500:])


# ------------------------------------------------------------------ cases from records

def shape_key(r):
    return json.dumps([r["op"], r["side"], r.get("num", "-"), r["form"], r["lit"], r["a"]["ex"], r["b"]["ex"], r["cls"]], sort_keys=True)


def cases_from_records(recs, rnd, arrays=True):
    cases = []
    for r in recs:
        for style in ("text", "dict", "derived", "derived_b", "reused"):
            if style != "text" and not r["a"]["ex"] and not r["b"]["ex"]:
                continue
            if style in ("derived", "derived_b", "reused") and r["cls"] == "unspecified":
                continue
            if (style == "derived" and not r["a"]["ex"]) or (style == "derived_b" and not (r["b"]["ex"] and r["side"] == "qq")):
                continue
            cases.append(dict(recs=[r], style=style))
    if arrays:
        groups = {}
        for r in recs:
            if r["cls"] == "ok" and not r.get("seqv"):
                groups.setdefault(shape_key(r), []).append(r)
        for k, g in groups.items():
            if len(g) < 2:
                continue
            g = sorted(g, key=lambda r: (r["a"]["v"], r["b"]["v"]))
            cases.append(dict(recs=g, style="text"))
            cases.append(dict(recs=g, style="dict"))
            if g[0]["a"]["ex"] or g[0]["b"]["ex"]:
                cases.append(dict(recs=g, style="derived"))
                cases.append(dict(recs=g, style="reused"))
            # array on one side, one scalar value on the other (broadcast)
            byb = {}
            for r in g:
                byb.setdefault(json.dumps(r["b"]["v"]), []).append(r)
            for gb in byb.values():
                if 1 < len(gb) < len(g):
                    cases.append(dict(recs=gb, style="text", bscalar=True))
    return cases


# ------------------------------------------------------------------ scenarios over arbitrary table units

def table_scenarios(rnd, n):
    lin = A.linear_units()
    bydim = {}
    for uid, dims in lin:
        bydim.setdefault(tuple(dims), []).append(uid)
    dimless = [u for u, d in lin if not any(d)]
    dimful = [u for u, d in lin if any(d)]
    dimof = dict(lin)

    def val():
        return [rnd.choice([1, -1]) * rnd.randint(1, 4000), rnd.choice([1, 2, 4, 8, 16, 64, 1024])]

    def pval():
        return [rnd.randint(1, 4000), rnd.choice([1, 2, 4, 8, 16, 64, 1024])]

    def exmap(k=None):
        k = k or rnd.choice([1, 1, 1, 2, 2, 3])
        us = rnd.sample(dimful if rnd.random() < 0.9 else lin_ids, k)
        return [{"u": u, "e": rnd.choice([[1, 1], [1, 1], [2, 1], [-1, 1], [-2, 1], [1, 2], [3, 1]])} for u in us]
    lin_ids = [u for u, _ in lin]

    def same_dim_variant(ex):
        out = []
        used = set()
        for r in ex:
            cands = [u for u in bydim[tuple(dimof[r["u"]])] if u not in used]
            u = rnd.choice(cands) if cands else r["u"]
            used.add(u)
            out.append({"u": u, "e": r["e"]})
        rnd.shuffle(out)
        return out
    pow_cases = [("int", [2]), ("int", [-1]), ("int", [3]), ("pair", [1, 2]), ("pair", [3, 2]), ("pair", [-1, 2]),
                 ("pair", [2, 6]), ("float", [2, 1]), ("float", [1, 2]), ("float", [-3, 2]), ("float", [1, 4]),
                 ("fraction", [1, 2]), ("fraction", [3, 1]), ("np.float64", [1, 2]), ("np.float64", [-3, 2]), ("np.float32", [1, 2]),
                 ("np.int64", [2]), ("np.int64", [-1]), ("np.power", [2]), ("np.power", [3, 2]), ("np.sqrt", []), ("np.cbrt", [])]
    scen = []
    used_units = set()
    while len(scen) < n:
        op = rnd.choice(["add", "sub", "mul", "div", "mul", "div", "pow", "neg", "add", "np.linspace", "np.logspace"])
        side, form, lit, nn = "qq", "-", [], [1, 1]
        aex = exmap() if rnd.random() < 0.93 else ([{"u": rnd.choice(dimless), "e": [1, 1]}] if rnd.random() < 0.6 else [])
        bex = []
        if op in ("add", "sub", "np.linspace", "np.logspace"):
            r = rnd.random()
            bex = same_dim_variant(aex) if r < 0.7 else (exmap() if r < 0.85 else
                                                         ([{"u": x["u"], "e": [-x["e"][0], x["e"][1]]} for x in same_dim_variant(aex)] if r < 0.93 else []))
        elif op in ("mul", "div"):
            r = rnd.random()
            bex = exmap() if r < 0.45 else (same_dim_variant(aex) if r < 0.85 else
                                            ([{"u": rnd.choice(dimless), "e": [1, 1]}] if r < 0.93 else []))
        if op in ("mul", "div") and dimless and rnd.random() < 0.2:      # a dimensionless named unit rides along
            d_ = rnd.choice(dimless)
            if all(x["u"] != d_ for x in aex + bex):
                (aex if rnd.random() < 0.5 else bex).append({"u": d_, "e": [rnd.choice([1, 1, -1, 2]), 1]})
        a = {"v": val(), "ex": aex}
        b = {"v": val(), "ex": bex}
        if op == "np.logspace":                      # exponents of ten stay small
            a["v"], b["v"] = [rnd.randint(-20, 20), 8], [rnd.randint(-20, 20), 8]
        if op in ("add", "sub", "mul", "div", "np.linspace", "np.logspace") and rnd.random() < 0.12:
            if rnd.random() < 0.5:
                side, b = "qn", {"v": b["v"], "ex": []}
            else:
                side, a, b = "nq", {"v": a["v"], "ex": []}, {"v": b["v"], "ex": aex}
        if op == "pow":
            side = "q"
            form, lit = rnd.choice(pow_cases)
            fr = PyFrac(1, 2) if form == "np.sqrt" else PyFrac(1, 3) if form == "np.cbrt" else \
                PyFrac(lit[0], lit[1] if len(lit) > 1 else 1)
            nn = [fr.numerator, fr.denominator]
            a = {"v": pval() if fr.denominator != 1 else val(), "ex": aex}
            b = {"v": [1, 1], "ex": []}
        if op == "neg":
            side, b = "q", {"v": [1, 1], "ex": []}
        # units the library cannot combine at all (two units sharing a symbol with different prefixes are fine)
        sc = dict(op=op, side=side, num=(("py" if op.startswith("np.") else rnd.choice(["py", "np"])) if side in ("nq", "qn") else "-"),
                  form=form, lit=lit, n=nn, a=a, b=b)
        for r in a["ex"] + b["ex"]:
            used_units.add(r["u"])
        scen.append(sc)
    units = {u: {"dim": list(dimof[u]), "fac": []} for u in sorted(used_units)}
    if not units:
        units = {"m": {"dim": [1, 0, 0, 0, 0, 0, 0, 0], "fac": []}}
    return {"units": units, "scenarios": scen}


# ------------------------------------------------------------------ main

def run(replay=None):
    V = C.Verdicts(PID, "exploration")
    if replay:
        body = json.load(open(replay))
        st, det = _safe_run(body["scenario"])
        print(f"replay {replay}: {st} {json.dumps(det, default=str)[:600] if det else ''}")
        if st == "fail":
            k = V.findings.match(det["tags"], det["failure"])
            if k is None:
                print(f"VIOLATION property={PID} replay={replay}")
                return 1
            print(f"(known finding {k})")
        return 0
    wd = C.workdir(PID)
    FIXED = C.tla_str(set(A.repaired_deviations(PID, DEVIATIONS)))
    t = C.tier()
    rnd = C.rng(6)
    # 1. exhaustive enumeration over the exact-ratio units
    r = C.run_tlc(wd, "QuantityAlgGen", CFG.format(uinfo="ExactUnits", source="enum", lemmas="INVARIANT Lemmas", fixed=FIXED))
    if r.violated:
        raise C.MachineryError(f"QuantityAlgGen: {r.violated} violated on the rational model:\n{r.cex[:3000]}")
    recs = r.records
    states, trans = r.distinct, r.generated
    if len(recs) < 5000:
        raise C.MachineryError(f"only {len(recs)} records from QuantityAlgGen")
    # 2. scenarios over arbitrary linear table units, annotated by TLC
    nfile = 6000 if t == "quick" else 60000
    fin = os.path.join(wd, "qalg_in.json")
    with open(fin, "w") as f:
        json.dump(table_scenarios(rnd, nfile), f)
    r2 = C.run_tlc(wd, "QuantityAlgGen", CFG.format(uinfo="FileUnits", source="file", lemmas="", fixed=FIXED), env={"QALG_IN": fin})
    if r2.violated or len(r2.records) != nfile:
        raise C.MachineryError(f"QuantityAlgGen(file): {r2.violated} records={len(r2.records)}/{nfile}\n{r2.cex[:2000]}")
    states += r2.distinct; trans += r2.generated
    cases = cases_from_records(recs, rnd) + cases_from_records(r2.records, rnd, arrays=False)
    # file-mode arrays: pair records of identical shape do not exist; use the record's own value scaled (TLC cannot
    # know the scaled values, so arrays over table units are built only from same-shape groups -> none) - skipped.
    res = C.pmap(_safe_run, cases)
    nontriv = set()
    classes = {}
    failclasses = {}
    for case, (st, det) in zip(cases, res):
        r0 = case["recs"][0]
        if st == "machinery":
            raise C.MachineryError("replay of a C06 case crashed:\n" + det)
        if st == "ok":
            V.ok()
        elif st == "unspecified":
            V.unspecified()
        else:
            kind = V.fail(case, det["expected"], det["observed"], det["clause"], tags=det["tags"], failure=det["failure"])
            fk = kind + ":" + det["failure"] + ":" + ",".join(x for x in det["tags"] if not x.startswith("style:"))
            failclasses[fk] = failclasses.get(fk, 0) + 1
        if st != "unspecified":
            mixed = len({x["u"] for x in r0["a"]["ex"]} | {x["u"] for x in r0["b"]["ex"]}) > 1 or r0["op"] == "pow" \
                or r0["side"] in ("nq", "qn")
            if mixed:
                nontriv.add(shape_key(r0) + json.dumps([r0["a"]["v"], r0["b"]["v"]]) if len(case["recs"]) == 1 else shape_key(r0) + "#arr")
        classes[(r0["op"], r0["side"], r0["cls"])] = classes.get((r0["op"], r0["side"], r0["cls"]), 0) + 1
    V.cov.update({
        "states": states, "transitions": trans,
        "evaluations": len(cases), "distinct_nontrivial": len(nontriv),
        "scenarios_enumerated_by_tlc": len(recs), "scenarios_over_table_units": len(r2.records),
        "table_units_used": len(json.load(open(fin))["units"]),
        "rule": "TLC enumerates all operand pairs over 13 exact-ratio unit expressions x 4 values x (+,-,*,/) x both orders x plain number "
                "on either side, negation and 30 exponent spellings incl. NumPy scalar types (exhaustive), plus a seeded sample of scenarios over all linear "
                "table units with one-letter prefixes annotated by TLC; each replayed as scalars (unit text and exponent dict, Python and "
                "NumPy plain numbers) and as arrays; non-trivial = distinct (shape, values) whose operands mix units, involve a plain "
                "number, or a power",
        "samples": [dict(op=c["recs"][0]["op"], side=c["recs"][0]["side"], form=c["recs"][0]["form"], lit=c["recs"][0]["lit"],
                         a=c["recs"][0]["a"], b=c["recs"][0]["b"], cls=c["recs"][0]["cls"], expected_units=c["recs"][0]["ex"],
                         expected_base_value=c["recs"][0]["exact"], n_elements=len(c["recs"]))
                    for c in (cases[17], cases[len(cases) // 3], cases[-5])],
        "exhaustive": True,
        "failing_classes": failclasses,
        "classes": {"/".join(k): v for k, v in sorted(classes.items())},
        "lemmas_checked_by_tlc": "commutativity of + and . in base value, a-b=a+(-b), (a/b).b=a in value and units, dimension of "
                                 "product/quotient/power, (a**n)**(1/n) restores units, a**2=a.a, cancellation leaves only dimensionless "
                                 "units, transcribed exponent scaling = ideal except non-integral float products",
    })
    V.assumptions += [
        "the unit tables (factor, dimension vector) are given; tab(u) in a term is the library's own table factor",
        "base-dimension value is observed as value() * baseunits.magnitude (public attributes)",
        "table units with fractional dimension vectors (Gaussian units), offset temperature scales, logarithmic units, the quote "
        "symbols and the two-letter prefix 'da' are outside the concretisation",
        "tolerance rel 1e-9 of the magnitude of the computation (differences are judged against |a|+|b|)",
        "division by zero, 0**n (n<=0) and fractional powers of negative numbers are unspecified and not judged",
        "scenarios whose ideal base value, value or unit factor or an operand's factor / base value is outside 1e-150..1e150 (stacked extreme prefixes) are not judged",
    ]
    C.cleanup(PID)
    return V.finish()
