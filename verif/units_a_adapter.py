"""Adapter between the unit specs (UnitAtom / UnitExpr / UnitConv / Temperature / LogUnits) and
scinumtools.units: observations through the public API, and the evaluator of the term language in which
the specs state numeric expectations (DESIGN 4.2).  No library-specific formula lives here."""
import math, warnings
import numpy as np

warnings.filterwarnings("ignore")
np.seterr(all="ignore")


# ------------------------------------------------------------------ term evaluator

class TermError(Exception):
    pass


def ev(t, tabs, x=None, y=None):
    """Evaluate a term (nested JSON arrays emitted by TLC) to a float / numpy array."""
    op = t[0]
    if op == "q":
        return np.float64(t[1]) / np.float64(t[2])
    if op == "p10":
        return np.float64(10.0) ** np.float64(t[1])
    if op == "lit":
        return np.float64(float(t[1]))          # the decimal number written as this text
    if op == "tab":
        return np.float64(tabs[t[1]][t[2]][t[3]])
    if op == "x":
        return x
    if op == "y":
        return y
    if op == "mul":
        return ev(t[1], tabs, x, y) * ev(t[2], tabs, x, y)
    if op == "div":
        return ev(t[1], tabs, x, y) / ev(t[2], tabs, x, y)
    if op == "add":
        return ev(t[1], tabs, x, y) + ev(t[2], tabs, x, y)
    if op == "sub":
        return ev(t[1], tabs, x, y) - ev(t[2], tabs, x, y)
    if op == "neg":
        return -ev(t[1], tabs, x, y)
    if op == "inv":
        return np.float64(1.0) / ev(t[1], tabs, x, y)
    if op == "powq":
        return np.power(ev(t[1], tabs, x, y), np.float64(t[2]) / np.float64(t[3]))
    if op == "prod":
        r = np.float64(1.0)
        for s in t[1]:
            r = r * ev(s, tabs, x, y)
        return r
    if op == "log10":
        return np.log10(ev(t[1], tabs, x, y))
    if op == "ln":
        return np.log(ev(t[1], tabs, x, y))
    if op == "exp":
        return np.exp(ev(t[1], tabs, x, y))
    if op == "exp10":
        return np.power(10.0, ev(t[1], tabs, x, y))
    if op == "abs":
        return np.abs(ev(t[1], tabs, x, y))
    raise TermError(op)


def in_range(v, lo=1e-300, hi=1e300):
    """finite, non-zero and safely inside the range of a double"""
    v = np.asarray(v, dtype=float)
    return bool(np.all(np.isfinite(v)) and np.all(np.abs(v) < hi) and np.all(np.abs(v) > lo))


def tabs_of(data):
    return {"unit": {u["name"]: u for u in data["units"]},
            "prefix": {p["name"]: p for p in data["prefixes"]},
            "sys": {s["name"]: s for s in data["sys"]}}


def close(a, b, rel=1e-9, abs_=0.0):
    """|a-b| <= rel*max(|a|,|b|) + abs_, element-wise; non-finite only equal to the same non-finite"""
    a = np.asarray(a, dtype=float); b = np.asarray(b, dtype=float)
    if a.shape != b.shape:
        try:
            a, b = np.broadcast_arrays(a, b)
        except ValueError:
            return False
    fin = np.isfinite(a) & np.isfinite(b)
    ok = np.where(fin, np.abs(a - b) <= rel * np.maximum(np.abs(a), np.abs(b)) + abs_, (a == b) | (np.isnan(a) & np.isnan(b)))
    return bool(np.all(ok))


# ------------------------------------------------------------------ observations

def split_unitid(uid):
    if uid.startswith("#"):
        return ("", uid)
    if ":" in uid:
        p, u = uid.split(":")
        return (p, u)
    return ("", uid)


def frac_pair(f):
    """scinumtools Fraction / int / tuple -> (n, d) in lowest terms, d > 0"""
    from fractions import Fraction as PF
    v = f.value() if hasattr(f, "value") else f
    if isinstance(v, tuple):
        q = PF(int(v[0]), int(v[1]))
    else:
        q = PF(int(v))
    return [q.numerator, q.denominator]


def observe_baseunits(text):
    from scinumtools.units import BaseUnits
    try:
        b = BaseUnits(text)
        units = [[*split_unitid(k), frac_pair(e)] for k, e in b.baseunits.items()]
        return {"ok": True, "units": units, "magnitude": float(b.magnitude),
                "dims": [frac_pair(d) for d in b.dimensions.value()], "expression": b.expression}
    except Exception as e:
        return {"ok": False, "exc": type(e).__name__ + ": " + str(e.args[:2])[:120]}


def observe_quantity(text):
    """Quantity(1, text): total factor = numeric part * unit factor, dimensions"""
    from scinumtools.units import Quantity
    try:
        q = Quantity(1, text)
        return {"ok": True, "total": float(q.magnitude.value) * float(q.baseunits.magnitude),
                "dims": [frac_pair(d) for d in q.baseunits.dimensions.value()]}
    except Exception as e:
        return {"ok": False, "exc": type(e).__name__ + ": " + str(e.args[:2])[:120]}


def snapshot(q):
    v = q.magnitude.value
    return (as_float(v), q.baseunits.expression,
            [[k, frac_pair(e)] for k, e in q.baseunits.baseunits.items()],
            None if q.magnitude.error is None else np.array(q.magnitude.error, dtype=float).tolist())


def mag_in(x):
    """harness magnitude -> what is handed to Quantity: float | list (array) | {"dec": text} -> Decimal"""
    if isinstance(x, dict):
        from decimal import Decimal
        return Decimal(x["dec"])
    return list(x) if isinstance(x, list) else x


def mag_float(x):
    """the numeric value of a harness magnitude (for evaluating obligation terms)"""
    if isinstance(x, dict):
        return float(x["dec"])
    return np.array(x, dtype=float) if isinstance(x, list) else float(x)


def mag_kind(x):
    return "decimal" if isinstance(x, dict) else "array" if isinstance(x, list) else "float"


def kind_of(v):
    from decimal import Decimal
    if isinstance(v, Decimal):
        return "decimal"
    if isinstance(v, np.ndarray):
        return "array"
    return "float"


def as_float(v):
    from decimal import Decimal
    if isinstance(v, Decimal):
        return float(v)
    return np.array(v, dtype=float).tolist()


def conv_value(x, u, v):
    """Quantity(x,u).value(v) on a fresh object -> ('val', value, unchanged?, kind of the result) | ('err', text, unchanged?)"""
    from scinumtools.units import Quantity
    try:
        q = Quantity(mag_in(x), u)
    except Exception as e:
        return ("err", "construct: " + type(e).__name__ + ": " + str(e.args[:1])[:100], True)
    before = snapshot(q)
    try:
        r = q.value(v)
        return ("val", as_float(r), snapshot(q) == before, kind_of(r))
    except Exception as e:
        return ("err", type(e).__name__ + ": " + str(e.args[:1])[:100], snapshot(q) == before)


def conv_to(x, u, v):
    """Quantity(x,u).to(v) on a fresh object -> ('val', value, units expression, converted in place?, kind) | ('err', text, unchanged?)"""
    from scinumtools.units import Quantity
    try:
        q = Quantity(mag_in(x), u)
    except Exception as e:
        return ("err", "construct: " + type(e).__name__ + ": " + str(e.args[:1])[:100], True)
    before = snapshot(q)
    try:
        r = q.to(v)
        # in place: the object the caller holds now carries the converted value and units (identity of the
        # returned object is not required, equality with it is)
        return ("val", as_float(r.magnitude.value), r.baseunits.expression, snapshot(r) == snapshot(q), kind_of(r.magnitude.value))
    except Exception as e:
        return ("err", type(e).__name__ + ": " + str(e.args[:1])[:100], snapshot(q) == before)


def conv_to_quantity(x, u, m, v):
    """Quantity(x,u).to(Quantity(m,v)) on fresh objects ->
       ('val', value, units expression, in place?, target unchanged?) | ('err', text, source unchanged?, target unchanged?)"""
    from scinumtools.units import Quantity
    try:
        q = Quantity(mag_in(x), u)
        t = Quantity(m, v)
    except Exception as e:
        return ("err", "construct: " + type(e).__name__ + ": " + str(e.args[:1])[:100], True, True)
    bq, bt = snapshot(q), snapshot(t)
    try:
        r = q.to(t)
        return ("val", as_float(r.magnitude.value), r.baseunits.expression, snapshot(r) == snapshot(q), snapshot(t) == bt)
    except Exception as e:
        return ("err", type(e).__name__ + ": " + str(e.args[:1])[:100], snapshot(q) == bq, snapshot(t) == bt)


def conv_uncertain(x, u, v, kind, amount):
    """value(v) and to(v) of a quantity that carries an uncertainty -> ('val', value via value(), value via to()) | ('err', text)"""
    from scinumtools.units import Quantity
    xv = mag_float(x)
    try:
        if kind == "rele":
            q1 = Quantity(mag_in(x), u, rele=amount); q2 = Quantity(mag_in(x), u, rele=amount)
        else:
            a = float(np.max(np.abs(xv))) * amount or amount
            q1 = Quantity(mag_in(x), u, abse=a); q2 = Quantity(mag_in(x), u, abse=a)
        return ("val", as_float(q1.value(v)), as_float(q2.to(v).magnitude.value))
    except Exception as e:
        return ("err", type(e).__name__ + ": " + str(e.args[:1])[:100])
