"""C17 - references deliver the referenced node's current value and unit.

1. TLC explores spec/DipRefs.tla: every program of the bounded shape
       tree of <= MaxDef nodes, <= MaxMod modifications, [switch: the text so far becomes a base environment /
       the file of a remote source], <= MaxRef reference lines (injection {?p} / {s1?p} with slices and host
       units, as definition or as modification; imports {?p.*} {?p} {?*} under a host, inline or indented,
       selecting none / one / many), <= MaxLate later modifications of source or host
   carrying the IDEAL environment and the MACHINE environment (transcription of request / query / inject_value /
   cast_value / slice_value / modify_value / ImportNode.parse / DIP.parse).  Invariants: Explained (every
   machine-vs-ideal disagreement is a named deviation), BaseUnchanged; the variant without copy.deepcopy must
   give a counterexample (sensitivity).  One JSON record per program.
2. Every record is rendered to DIP text(s) (verif/c17_adapter.py), parsed by the real DIP, and
   env.data(Format.TUPLE) - plus the base environment's / remote source's data before and after - is
   compared with the ideal (verdict) and with the machine prediction (drift / known findings).
"""
import json, os, sys, zlib
from . import common as C
from . import c17_adapter as A
from . import c17_query as Q

PID = "C17"


# ----------------------------------------------------------------------------- menus (inputs; TLC decides what must hold)

def num(n, e=0):
    return {"n": n, "e": e}


def tpl(path, dtype, val, unit="", shape=(), const=False, has=True):
    return {"path": path.split("."), "dtype": dtype, "shape": list(shape), "has": has,
            "val": val if has else 0, "unit": unit, "const": const}


def lit(dtype, val, unit="", shape=()):
    return {"dtype": dtype, "shape": list(shape), "val": val, "unit": unit}


def chars(s):
    return list(s)


def configs(tier, seed):
    """The TLC configurations of one run: menus of node templates / modification literals / slices / host units
    (inputs chosen here, rotated by the seed) and the bounds of the program shape."""
    u1, u2 = [("cm", "m"), ("m", "km"), ("km", "cm")][seed % 3]
    k = [3, 7, 9, 34, 12][seed % 5]
    f = [num(25, -1), num(34), num(125, -2), num(7, 1)][seed % 4]
    A1, A1b = [1, 2, 3], [4, 5, 6]
    A2, A2b = [[1, 2], [3, 4]], [[5, 6], [7, 8]]
    if seed % 2:
        A1, A1b = [7, 8, 9], [2, 4, 6]
        A2, A2b = [[9, 8], [7, 6]], [[1, 3], [5, 7]]
    S1, S2 = [("abcd", "wxyz"), ("hello", "world"), ("Smith", "Jones")][seed % 3]
    slices = [
        {"key": "num", "shape": [3], "sl": [[1, 1]]}, {"key": "num", "shape": [3], "sl": [[-1, 2]]},
        {"key": "num", "shape": [3], "sl": [[1, -1]]},
        {"key": "num", "shape": [2, 2], "sl": [[-1, -1], [1, 1]]}, {"key": "num", "shape": [2, 2], "sl": [[0, 0]]},
        {"key": "num", "shape": [2, 2], "sl": [[1, 1], [0, 0]]}, {"key": "num", "shape": [2, 2], "sl": [[1, -1]]},
        {"key": "num", "shape": [2, 2], "sl": [[1, 1], [-1, -1]]},
        {"key": "str", "shape": [], "sl": [[1, -1]]}, {"key": "str", "shape": [], "sl": [[2, 2]]},
        {"key": "str", "shape": [], "sl": [[-1, 3]]},
    ]
    th = tier != "quick"
    a_f, a_i, a_d = tpl("a", "float", f, u1), tpl("a", "int", num(k), u2), tpl("a", "float", 0, u1, has=False)
    gx_c, gx_i = tpl("g.x", "float", num(k), u1, const=True), tpl("g.x", "int", num(k + 1))
    gkz, gy = tpl("g.k.z", "bool", True), tpl("g.y", "str", chars(S1))
    gqx, p_, px = tpl("gq.x", "float", f, "s"), tpl("p", "int", num(5)), tpl("p.x", "float", f, u2)
    m_f2, m_f, m_i, m_i0 = lit("float", num(2), u2), lit("float", num(4)), lit("int", num(6), u1), lit("int", num(8))
    m_s, m_b, m_t = lit("float", num(3), "s"), lit("bool", False), lit("str", chars(S2))
    v1, v1u = tpl("v", "int", A1, "", (3,)), tpl("v", "int", A1, u1, (3,))
    w2, gm = tpl("w", "int", A2, u1, (2, 2)), tpl("g.m", "int", A2, "", (2, 2))
    gs, ge, t2 = tpl("g.s", "str", chars(S1)), tpl("g.e", "int", num(k), u1), tpl("t", "int", A1b[:2], "", (2,))
    ma1, ma2, ma3 = lit("int", A1b, "", (3,)), lit("int", A2b, "", (2, 2)), lit("int", A1[:2], "", (2,))
    B = lambda d, m, r, l, **kw: dict({"def": d, "mod": m, "ref": r, "late": l}, **kw)
    cfgs = [
        dict(name="units", T=[a_f, a_i, a_d, gx_c] + ([px] if th else []), M=[m_f2, m_f, m_i, m_s], SL=[], HU=[u1, u2, "s"],
             bounds=B(3 if th else 2, 2 if th else 1, 1, 1, kinds=["inj"]), modes=[]),
        dict(name="imports", T=[a_i, a_d, gx_c, gx_i, gkz, gy, gqx, p_, px] if th else [a_d, gx_c, gkz, gqx, p_, px],
             M=[m_f2, m_i0, m_b, m_t], SL=[], HU=[],
             bounds=B(4 if th else 3, 1, 1, 1, kinds=["imp"], fewhosts=not th), modes=[]),
        dict(name="modes", T=[a_f, a_d, gx_i, gy] + ([gx_c, gkz] if th else []), M=[m_f2, m_i0, m_t], SL=slices[8:9], HU=[u2],
             bounds=B(3 if th else 2, 1, 1, 1, fewhosts=True), modes=["base", "remote"]),
        dict(name="arrays", T=[v1, v1u, w2, gm, gs, ge, t2] if th else [v1u, w2, gs, t2],
             M=[ma1, ma2, m_t, m_i0, ma3] if th else [ma1, ma2, m_t], SL=slices, HU=[u1],
             bounds=B(3 if th else 2, 1, 1, 1, fewhosts=True), modes=["remote"] if th else []),
        dict(name="chain", T=[a_f, gx_i] + ([a_d] if th else []), M=[m_f2, m_i0], SL=[], HU=[u2] if th else [],
             bounds=B(2, 1 if th else 0, 2, 1, fewhosts=True), modes=["base", "remote"] if th else ["remote"]),
        dict(name="chain-arrays", T=[w2, v1], M=[ma2], SL=slices[1:2] + slices[3:4] + slices[5:6], HU=[],
             bounds=B(1, 1 if th else 0, 2, 1, fewhosts=True, kinds=["inj", "imp"] if th else ["inj"]), modes=["remote"] if th else []),
    ]
    # values 0, 0.0, false and '' (since c241ef6) as definitions and as later modifications; a unit stated for a unit-less node
    zeros = dict(name="zeros",
                 T=[a_f] + ([a_i] if th else []) + [tpl("n", "int", num(k + 1)), tpl("z", "bool", True), tpl("g.x", "float", num(0), u1),
                                                          tpl("e", "str", chars(S1)), tpl("e", "str", [])],
                 M=[lit("float", num(0), u2), lit("float", num(0)), lit("int", num(0)), m_i, m_b, lit("str", [])],
                 SL=[], HU=[u2], bounds=B(2, 1, 1, 1, fewhosts=True), modes=["base", "remote"] if th else [])
    # a custom unit of the file ($unit hm = 100 m): referenced node in [hm] and host in an ordinary unit, and vice versa
    custom = dict(name="custom-unit",
                  T=[tpl("a", "float", f, "[hm]"), tpl("a", "float", f, "m"), tpl("g.x", "int", num(k), "[hm]"),
                     tpl("g.x", "float", num(k), "km")],
                  M=[lit("float", num(2), "[hm]"), lit("float", num(4), "m"), lit("float", num(5))],
                  SL=[], HU=["[hm]", "m"], bounds=B(2, 1, 1, 1 if th else 0, fewhosts=True, custom=True),
                  modes=["base", "remote"] if th else ["remote"])
    # readers change nothing: a logical expression compares two referenced numbers given in different units BEFORE
    # one of them is injected / imported (again)
    compare = dict(name="compare", T=[a_f, tpl("b", "float", num(k), u2), gx_c, tpl("n", "float", num(k + 1), u1)],
                   M=[m_f2], SL=[], HU=[u2], bounds=B(2, 1 if th else 0, 1, 1 if th else 0, fewhosts=True, cmp=1),
                   modes=["base"] if th else [])
    cfgs += [zeros, custom, compare]
    return cfgs


ALL_DEVS = ["inject_raw", "slice_string", "slice_in_mod", "slice_leftover", "import_empty", "import_declared",
            "import_reinject"]


def active_devs():
    """Deviations of the code the MACHINE still has: those named by an OPEN finding.  A finding marked fixed
    switches its deviation off (the machine then follows the repaired algorithm) and suppresses nothing."""
    fs = [f for f in C.load_findings() if f["property"] == PID]
    open_ = {f.get("deviation") for f in fs if f["status"] == "open"}
    named = {f.get("deviation") for f in fs}
    off = set(filter(None, os.environ.get("VERIF_C17_DEVS_OFF", "").split(",")))   # trial of a proposed fix on a scratch copy
    return [d for d in ALL_DEVS if (d in open_ or d not in named) and d not in off]


def mc_module(T, M, SL, HU, bounds, modes, copy_on_parse, emit, devs=None):
    devs = active_devs() if devs is None else devs
    imphosts = [{"host": [], "form": "block"}, {"host": ["h"], "form": "inline"}, {"host": ["h"], "form": "block"},
                {"host": ["h", "q"], "form": "block"}]
    if bounds.get("fewhosts"):
        imphosts = imphosts[1:3]
    seq = lambda xs: "<<" + ",\n   ".join(C.tla_str(x) for x in xs) + ">>"
    return f"""---- MODULE DipRefsMC ----
EXTENDS DipRefs
MCTemplates == {seq(T)}
MCModMenu == {seq(M)}
MCSliceMenu == {seq(SL)}
MCHostUnits == {C.tla_str(set(HU))}
MCModes == {C.tla_str(set(modes))}
MCInjHosts == <<<<"b">>, <<"c">>, <<"d">>>>
MCImpHosts == {seq(imphosts)}
MCDevs == {C.tla_str(set(devs))}
MCCustomUnit == {C.tla_str(bool(bounds.get('custom')))}
MCRefKinds == {C.tla_str(set(bounds.get('kinds', ['inj', 'imp'])))}
====
""", f"""CONSTANTS
  Templates <- MCTemplates
  ModMenu <- MCModMenu
  SliceMenu <- MCSliceMenu
  HostUnits <- MCHostUnits
  Modes <- MCModes
  InjHosts <- MCInjHosts
  ImpHosts <- MCImpHosts
  Devs <- MCDevs
  CustomUnit <- MCCustomUnit
  RefKinds <- MCRefKinds
  MaxDef = {bounds['def']}
  MaxMod = {bounds['mod']}
  MaxRef = {bounds['ref']}
  MaxLate = {bounds['late']}
  MaxCmp = {bounds.get('cmp', 0)}
  CopyOnParse = {C.tla_str(copy_on_parse)}
  Emit = {C.tla_str(emit)}
SPECIFICATION Spec
INVARIANT Explained
INVARIANT BaseUnchanged
INVARIANT EmitInv
CHECK_DEADLOCK FALSE
"""


def run_tlc(wd, cf, copy_on_parse=True, emit=True, coverage=False, devs=None, workers=None):
    mod, cfg = mc_module(cf["T"], cf["M"], cf["SL"], cf["HU"], cf["bounds"], cf["modes"], copy_on_parse, emit, devs)
    with open(os.path.join(wd, "DipRefsMC.tla"), "w") as f:
        f.write(mod)
    return C.run_tlc(wd, "DipRefsMC", cfg, coverage=coverage, want_records=emit, workers=workers)


# ----------------------------------------------------------------------------- replay of one record

_WD = [None]


def side_expected(rec):
    return A.expected_data(rec["snap"]) if rec["mode"] in ("base", "remote") else None


def matches(obs, spec_side, side_exp, ideal):
    """Does the observation equal what one side of the spec (ideal or machine) says?  Structural only."""
    st = spec_side["st"]
    if ideal and spec_side.get("mayrej") and obs["st"] == "rej":
        return True
    if obs["st"] != st:
        return False
    if st == "ok" and not A.same_data(obs["data"], A.expected_data(spec_side["data"])):
        return False
    return True


def side_unchanged(obs, side_exp):
    """Base environment / remote source: same data before and after, and what the ideal says it holds."""
    s = obs.get("side")
    if s is None or side_exp is None:
        return True, None
    if s["after"] is not None and not A.same_data(s["after"], s["before"]):
        return False, "the base environment / remote source differs after the parse on top of it"
    if not A.same_data(s["before"], side_exp):
        return None, "first text"           # the first text alone disagrees with the ideal: not this clause
    return True, None


def replay_record(rec):
    style = rec["_style"]
    scratch = os.path.join(_WD[0] or "/var/tmp/snt-c17-replay", f"w{os.getpid()}")
    obs = A.run_program(rec, style, scratch)
    sexp = side_expected(rec)
    ok_i = matches(obs, rec["ideal"], sexp, True)
    ok_m = matches(obs, rec["mach"], sexp, False)
    unchanged, why = side_unchanged(obs, sexp)
    out = {"obs_st": obs["st"], "ok_i": ok_i, "ok_m": ok_m, "unchanged": unchanged}
    if not ok_i or unchanged is False or not ok_m:
        out["detail"] = {"texts": obs["texts"], "observed": {"st": obs["st"], "data": obs["data"], "err": obs["err"],
                                                           "side": obs["side"]}}
    return out


def clause_of(rec, res):
    i, o = rec["ideal"]["st"], res["obs_st"]
    if o == "hang":
        return "the parse terminates", f"{i}->hang"
    if res["unchanged"] is False:
        return "parsing on top of an environment / importing from a remote source leaves its nodes unchanged", "side-changed"
    if i == "rej":
        return "a request that selects no node or several (or an inadmissible assignment) is rejected", f"rej->{o}"
    if o == "unreadable":
        return "the returned environment has no unreadable entry (env.data() works)", "ok->unreadable"
    if o == "rej":
        return "a valid reference is accepted", "ok->rej"
    return "hosts / imported nodes carry the referenced node's current value, the unit rules and unchanged type", "ok->ok"


# ----------------------------------------------------------------------------- base-environment family (DipBase.tla)

def base_texts(tier, seed):
    """Texts of the ParseOnTop family: base environments of every kind and child texts (inputs; DipBase decides)."""
    k = 1 + seed % 4
    U, S, N, I = (lambda n, v: {"k": "unit", "name": n, "val": v}), (lambda n: {"k": "source", "name": n}), \
                 (lambda n, v, u="": {"k": "node", "name": n, "val": v, "unit": u}), (lambda n: {"k": "inj", "name": n})
    CASE, END = (lambda v: {"k": "case", "val": v}), {"k": "end"}
    base = [[], [U("len", 2)], [S("s1")], [N("a", k)], [U("len", 2), N("a", k, "len")], [U("len", 2), S("s1")],
            [CASE(True), N("a", k), END, N("b", k + 1)]]
    # (a name carries a unit in one text only: re-stating a different unit is C14's business, not modelled here)
    child = [[U("wid", 3), N("w", 4, "wid"), I("y")], [N("z", 5, "len")], [S("s2"), N("x", 6)], [N("a", 7)], [I("y")],
             [N("x", k), CASE(False), N("v", 3)], [CASE(True), N("v", 2)], [CASE(True), N("t", 2), END, N("m", 3, "m")],
             [U("len", 9)], []]
    return base, child


def base_mc(base, child, maxops, mode, emit):
    seq = lambda xs: "<<" + ",\n   ".join(C.tla_str(x) for x in xs) + ">>"
    mod = f"""---- MODULE DipBaseMC ----
EXTENDS DipBase
MCBase == {seq(base)}
MCChild == {seq(child)}
====
"""
    cfg = f"""CONSTANTS
  BaseTexts <- MCBase
  ChildTexts <- MCChild
  MaxOps = {maxops}
  CopyMode = "{mode}"
  Emit = {C.tla_str(emit)}
SPECIFICATION Spec
INVARIANT Isolated
INVARIANT EmitInv
CHECK_DEADLOCK FALSE
"""
    return mod, cfg


def run_base_tlc(wd, base, child, maxops, mode="deep", emit=True, workers=None):
    mod, cfg = base_mc(base, child, maxops, mode, emit)
    with open(os.path.join(wd, "DipBaseMC.tla"), "w") as f:
        f.write(mod)
    return C.run_tlc(wd, "DipBaseMC", cfg, want_records=emit, workers=workers)


def replay_hist(hist):
    """Execute one history of parses on real Environment objects; after every call compare EVERY live environment
    (nodes, custom units, declared sources) with the ideal value.  -> None | detail of the first contradiction"""
    scratch = os.path.join(_WD[0] or "/var/tmp/snt-c17-replay", f"w{os.getpid()}")
    envs, keep, texts = [], [], []
    for n, op in enumerate(hist):
        text = A.render_base_text(op["text"], scratch)
        texts.append({"op": op["op"], "base": op["base"], "text": text})
        res, env = A.parse_on(envs[op["base"] - 1] if op["op"] == "on" else None, text, f"c17h{n}", keep)
        envs.append(env)
        if res != op["res"]:
            return {"step": n + 1, "texts": texts, "clause": "the parse is accepted / rejected as the ideal says "
                    "(a function of the base environment's value and the text alone)", "expected": op["res"], "observed": res}
        for j, exp in enumerate(op["expect"]):
            if not exp["live"]:
                continue
            obs = A.observe_env(envs[j])
            want = A.expected_env(exp)
            if not A.same_env(obs, want):
                which = "the result of this parse" if j == n else f"environment #{j + 1} (created {n - j} call(s) earlier)"
                return {"step": n + 1, "texts": texts, "env": j + 1, "expected": want, "observed": obs,
                        "clause": f"after call {n + 1}: {which} holds exactly the nodes, units and sources the ideal says"
                                  + ("" if j == n else " - parsing on top of an environment leaves it unchanged")}
    return None


# ----------------------------------------------------------------------------- remote files across parses (DipRemote.tla)

REMOTE_VALS = {"inner": [1, 2], "A": 3, "B": 4}


def remote_cfg(maxops, cache, emit):
    return f"""CONSTANTS
  InnerVals = {C.tla_str(set(REMOTE_VALS['inner']))}
  CfgA = {REMOTE_VALS['A']}
  CfgB = {REMOTE_VALS['B']}
  MaxOps = {maxops}
  Cache = "{cache}"
  Emit = {C.tla_str(emit)}
SPECIFICATION Spec
INVARIANT FreshResult
INVARIANT EmitInv
CHECK_DEADLOCK FALSE
"""


def replay_remote(hist):
    """One history of file edits and parses inside this process.  -> None | detail"""
    d = os.path.join(_WD[0] or "/var/tmp/snt-c17-replay", f"w{os.getpid()}", "remote")
    os.makedirs(d, exist_ok=True)
    W = lambda n, t: open(os.path.join(d, n), "w").write(t)
    W("inner.dip", f"v float = {min(REMOTE_VALS['inner'])} m\n")
    W("cfgA.dip", f"v float = {REMOTE_VALS['A']} m\n")
    W("cfgB.dip", f"v float = {REMOTE_VALS['B']} m\n")
    W("outerN.dip", "$source inner = inner.dip\ng float = {inner?v}\n")
    W("outerI.dip", "g float = {cfg?v}\n")
    texts = []
    for n, op in enumerate(hist):
        if op["op"] == "set":
            W("inner.dip", f"v float = {op['v']} m\n")
            texts.append(f"inner.dip: v float = {op['v']} m")
            continue
        if op["kind"] == "N":
            text = f"$source model = {d}/outerN.dip\n"
        else:
            text = f"$source cfg = {d}/cfg{op['kind'][1]}.dip\n$source model = {d}/outerI.dip\n"
        text += "x float = {model?g}\nh {model?*}\n"
        texts.append(text)
        keep = []
        res, env = A.parse_on(None, text, f"c17r{n}", keep)
        want = {"x": [op["expect"], "m"], "h.g": [op["expect"], "m"]}
        obs = A.env_data(env) if res == "ok" else res
        if res != "ok" or not A.same_data(obs, want):
            return {"step": n + 1, "texts": texts, "expected": want, "observed": obs}
    return None


# ----------------------------------------------------------------------------- the check

class C17Jobs:
    """TLC jobs by name: all started at once on a small thread pool (quick), or run when first asked for."""

    def __init__(self, jobs, wd, parallel):
        self.jobs, self.wd, self.done = jobs, wd, {}
        self.futures = None
        if parallel:
            from concurrent.futures import ThreadPoolExecutor
            n = max(1, min(4, C.NCPU))
            self.pool = ThreadPoolExecutor(n)
            w = max(1, C.NCPU // n)
            self.futures = {k: self.pool.submit(self._run, k, w) for k in jobs}

    def _run(self, name, workers):
        sub = os.path.join(self.wd, "tlc-" + "".join(ch if ch.isalnum() else "_" for ch in name))
        os.makedirs(sub, exist_ok=True)
        return self.jobs[name](sub, workers)

    def get(self, name):
        if self.futures is not None:
            return self.futures.pop(name).result()
        return self._run(name, None)


def replay_any(item):
    kind, x = item
    return replay_record(x) if kind == "rec" else replay_hist(x) if kind == "hist" else Q.replay_list(x)


def slim(rec):
    return {k: rec[k] for k in ("mode", "prog", "ideal", "mach", "tags", "snap", "_style", "_cfg") if k in rec}


def judge(V, rec, res, stats):
    tags = sorted(rec["tags"])
    if rec["ideal"]["unspec"]:
        V.unspecified()
        if not res["ok_m"]:
            stats[("unspecified-not-machine", res["obs_st"], ())] += 1
        return
    failed = (not res["ok_i"]) or res["unchanged"] is False
    if not failed:
        V.ok()
        if not res["ok_m"]:
            V.drift(json.dumps({"texts": res["detail"]["texts"], "machine": rec["mach"]["st"],
                                "observed": res["detail"]["observed"]["st"]})[:300])
        return
    clause, failure = clause_of(rec, res)
    predicted = res["ok_m"] and res["unchanged"] is not False
    # a known finding explains a failure only if the machine transcription predicted exactly this observation
    how = V.fail(slim(rec), rec["ideal"], res["detail"]["observed"], clause,
                 tags=tags if predicted else ["unpredicted"], failure=failure)
    stats[(how, failure, tuple(t for t in tags if "." in t))] += 1


def run(replay=None):
    import collections
    V = C.Verdicts(PID, "model_checking")
    if replay:
        body = json.load(open(replay))
        rec = body["scenario"]
        _WD[0] = C.workdir(PID + "-replay")
        res = replay_record(rec)
        failed = (not res["ok_i"]) or res["unchanged"] is False
        print(f"replay {replay}: ideal={'ok' if not failed else 'CONTRADICTED'} machine={'ok' if res['ok_m'] else 'differs'}")
        if failed:
            print(json.dumps(res.get("detail"), default=str)[:1500])
            print(f"VIOLATION property={PID} replay={replay}")
        C.cleanup(PID + "-replay")
        return 1 if failed else 0
    wd = C.workdir(PID)
    _WD[0] = os.path.join(wd, "cases")
    tier, seed = C.tier(), C.seed()
    cfgs = configs(tier, seed)
    states, trans, per_cfg, nrec = 0, 0, {}, 0
    # ---- all TLC jobs of the run.  quick: started together (JVM start-up dominates small configurations), each in its
    # own directory; thorough: one after the other, results dropped after replay (bounded memory)
    bt, ct = base_texts(tier, seed)
    maxops = 3 if tier == "quick" else 4
    cf0 = dict(cfgs[2], bounds=dict(cfgs[2]["bounds"], **{"def": 2, "ref": 1, "late": 0}))
    jobs = {"cfg:" + cf["name"]: (lambda sub, w, cf=cf: run_tlc(sub, cf, workers=w)) for cf in cfgs}
    jobs["base"] = lambda sub, w: run_base_tlc(sub, bt, ct, maxops, workers=w)
    for mode in ("alias_if_no_nodes", "share_branching", "alias"):
        jobs["base-sens:" + mode] = lambda sub, w, mode=mode: run_base_tlc(sub, bt, ct, 3, mode=mode, emit=False, workers=w)
    rops = 3 if tier == "quick" else 5
    jobs["remote"] = lambda sub, w: C.run_tlc(sub, "DipRemote", remote_cfg(rops, "off", True), workers=w)
    jobs["remote-sens"] = lambda sub, w: C.run_tlc(sub, "DipRemote", remote_cfg(3, "memo", False), want_records=False, workers=w)
    jobs["nocopy"] = lambda sub, w: run_tlc(sub, cf0, copy_on_parse=False, emit=False, workers=w)
    jobs.update(Q.tlc_jobs(tier, seed))
    get = C17Jobs(jobs, wd, parallel=(tier == "quick")).get
    pre = {}
    if tier == "quick":            # one worker pool for everything that is replayed (pool start-up is not free)
        res_all = {k: get(k) for k in list(jobs)}
        get = res_all.__getitem__
        items = []
        for cf in cfgs:
            for x in res_all["cfg:" + cf["name"]].records or []:
                x["_cfg"] = cf["name"]
                x["_style"] = (zlib.crc32(json.dumps(x["prog"], sort_keys=True).encode()) + 7 * seed) % 12
                items.append(("rec", x))
        items += [("hist", h) for h in res_all["base"].records or []]
        items += [("qlist", r) for r in res_all["query"].records or []]
        out = C.pmap(replay_any, items, chunk=16)
        for (kind, x), o in zip(items, out):
            pre.setdefault(kind, []).append(o)
    def pm(kind, fn, xs, pos=[0, 0, 0]):
        """results of fn over xs: taken from the single quick-tier pool run, else computed now"""
        if kind in pre:
            i = {"rec": 0, "hist": 1, "qlist": 2}[kind]
            part = pre[kind][pos[i]:pos[i] + len(xs)]
            pos[i] += len(xs)
            return part
        return C.pmap(fn, xs)
    stats, devs, samples = collections.Counter(), collections.Counter(), []
    nontrivial = 0
    for cf in cfgs:                                   # one configuration at a time (bounded memory)
        r = get("cfg:" + cf["name"])
        if r.violated:
            raise C.MachineryError(f"DipRefs ({cf['name']}): invariant {r.violated} violated - the machine transcription "
                                   f"disagrees with the ideal outside the named deviations:\n{r.cex[:1500]}")
        recs = r.records
        r.records, r.stdout = None, ""
        states += r.distinct
        trans += r.generated
        per_cfg[cf["name"]] = len(recs)
        for x in recs:
            x["_cfg"] = cf["name"]             # layout / number format: a function of the program and the seed
            x["_style"] = (zlib.crc32(json.dumps(x["prog"], sort_keys=True).encode()) + 7 * seed) % 12
        results = pm("rec", replay_record, recs)
        sampled = False
        for rec, res in zip(recs, results):
            judge(V, rec, res, stats)
            if not rec["agree"] and not rec["ideal"]["unspec"]:
                devs[" ".join(sorted(t for t in rec["tags"] if "." in t))] += 1
            if rec["ideal"]["st"] == "ok" and len(rec["ideal"]["data"]) > sum(1 for ln in rec["prog"] if ln["k"] == "def"):
                nontrivial += 1
                if not sampled and rec["agree"] and len(rec["prog"]) >= 4:
                    sampled = True
                    first, second = A.split_program(rec)
                    samples.append({"cfg": cf["name"], "mode": rec["mode"],
                                    "texts": [A.render_lines(x, rec["_style"]) for x in (first, second) if x],
                                    "expected": A.expected_data(rec["ideal"]["data"])})
        nrec += len(recs)
        del recs, results
    # ---- the ParseOnTop family: histories of parses over environment objects (DipBase.tla)
    rb = get("base")
    if rb.violated:
        raise C.MachineryError(f"DipBase: {rb.violated} violated with CopyMode deep:\n{rb.cex[:1200]}")
    hists = rb.records
    hres = pm("hist", replay_hist, hists)
    nh_bad = 0
    for h, det in zip(hists, hres):
        if det is None:
            V.ok()
        else:
            nh_bad += 1
            V.fail({"hist": [{k: op[k] for k in ("op", "base", "text", "res")} for op in h], "texts": det["texts"]},
                   det.get("expected"), det.get("observed"), det["clause"], tags=["base-history"], failure="base-history")
    sens = {}
    for mode in ("alias_if_no_nodes", "share_branching", "alias"):     # each aliasing variant must break Isolated
        rs = get("base-sens:" + mode)
        sens[mode] = rs.violated or "none"
        if rs.violated != "Isolated":
            V.notes.append(f"DipBase sensitivity: CopyMode {mode} did not violate Isolated ({rs.violated})")
    states += rb.distinct
    trans += rb.generated
    nrec += len(hists)
    per_cfg["base-histories"] = len(hists)
    nontrivial += sum(1 for h in hists if len(h) >= 3 and len({op["base"] for op in h[1:]}) < len(h) - 1)
    samples.append({"cfg": "base-histories", "calls": [{"op": op["op"], "base": op["base"],
                    "text": A.render_base_text(op["text"], "<workdir>"), "res": op["res"]} for op in hists[len(hists) // 2]]})
    # ---- remote files across the parses of one process (DipRemote.tla)
    rr = get("remote")
    if rr.violated:
        raise C.MachineryError(f"DipRemote: {rr.violated} violated with Cache off")
    rhists = rr.records
    for h, det in zip(rhists, [replay_remote(h) for h in rhists]):
        if det is None:
            V.ok()
        else:
            V.fail({"hist": h, "texts": det["texts"]}, det["expected"], det["observed"],
                   f"call {det['step']}: {{model?g}} and {{model?*}} deliver what the remote file, its nested file and the "
                   "parent's sources hold when this parse runs", tags=["remote-history"], failure="remote-history")
    rsens = get("remote-sens").violated or "none"
    if rsens != "FreshResult":
        V.notes.append("DipRemote sensitivity: Cache memo did not violate FreshResult")
    states += rr.distinct; trans += rr.generated; nrec += len(rhists)
    per_cfg["remote-histories"] = len(rhists)
    # sensitivity of BaseUnchanged: the parse that does not copy the base environment must be caught by TLC
    r0 = get("nocopy")
    # ---- growth beyond the property (DESIGN 6): node selection and user functions
    qcov = Q.run_stage(V, get, tier, seed, pm)
    states += qcov.pop("_states"); trans += qcov.pop("_transitions"); nrec += qcov.pop("_n")
    samples.append(qcov.pop("_sample"))
    V.cov.update(qcov)
    V.cov.update({
        "states": states + r0.distinct, "transitions": trans + r0.generated,
        "traces_validated_against_impl": nrec, "evaluations": nrec,
        "distinct_nontrivial": nontrivial,
        "rule": "every program TLC reaches within the bounds of the configurations " + json.dumps(per_cfg) +
                " (tree <= 4 nodes of a template menu, <= 2 modifications, optional switch to base environment / remote "
                "source, <= 2 reference lines: injections with slices and host units as definition or modification, "
                "imports {?p.*} {?p} {?*} inline or indented, <= 1 later modification of source or host), each rendered "
                "to DIP text(s), parsed by the real DIP and compared with the ideal's env.data(TUPLE) at rel 1e-9; "
                "non-trivial = accepted programs whose references created at least one node",
        "samples": samples[:3] + samples[-2:],
        "exhaustive": True,
        "machine_vs_ideal_deviations": dict(devs),
        "failures_by_kind": {f"{h}|{f}|{' '.join(t)}": n for (h, f, t), n in sorted(stats.items(), key=lambda kv: -kv[1])[:40]},
        "spec_sensitivity_without_copy": r0.violated or "none",
        "base_history_sensitivity": sens,
        "remote_history_sensitivity": rsens,
    })
    if r0.violated != "BaseUnchanged":
        V.notes.append("sensitivity run without copy.deepcopy did not violate BaseUnchanged: " + str(r0.violated))
    V.assumptions += [
        "hierarchy, literal casting and plain modification are taken as in C13/C14; empty-string literals are not generated (0, 0.0 and false are)",
        "not decided (replayed, counted unspecified): conversion of whole arrays, "
        "non-integral values in int nodes, an import onto an already existing name, a reference to a declared node without value",
        "unit table restricted to none, m, cm, km, s and the custom unit [hm] = 100 m ($unit line of the program); values are decimal (n * 10^e), so all conversions are exact in the spec",
    ]
    C.cleanup(PID)
    return V.finish()
