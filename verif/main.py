"""Entry point:  ./check <id> [--tier quick|thorough] [--replay path]"""
import argparse, importlib, os, sys, traceback


def main():
    ap = argparse.ArgumentParser()
    ap.add_argument("pid")
    ap.add_argument("--tier", default=None)
    ap.add_argument("--replay", default=None)
    a = ap.parse_args()
    if a.tier:
        os.environ["VERIF_TIER"] = a.tier
    os.environ.setdefault("PYTHONHASHSEED", "0")
    from . import common as C
    try:
        mod = importlib.import_module("verif." + a.pid.lower())
        rc = mod.run(replay=a.replay)
    except C.MachineryError as e:
        print("MACHINERY-ERROR:", e, file=sys.stderr)
        rc = 2
    except Exception:
        traceback.print_exc()
        rc = 2
    sys.exit(rc)


if __name__ == "__main__":
    main()
