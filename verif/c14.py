"""C14 - the last assignment wins, in the units and type of the definition.

Spec: spec/DipModify.tla - programs (definition or declaration, optional !constant, up to N typed/untyped
modifications with values incl. 0, negative, false, none and units of the same / another dimension), the
IDEAL of the property with exact rationals and the MACHINE transcription of modify_value/convert and the
constant / declared checks.  TLC enumerates all programs, checks machine-vs-ideal modulo the open deviation
classes and emits them; each is rendered (top level and below a group, modifications written nested or with
a dotted path), parsed by the real DIP and judged like in verif/dip_tree.py.
"""
import json, os, random, math
from fractions import Fraction
from . import common as C
from . import dip_adapter as D

PID = "C14"

MC = """---- MODULE DipModifyMC ----
EXTENDS DipModify
MCNumVals == {numvals}
MCKnown == {known}
====
"""
CFG = """CONSTANTS
  Types = {types}
  NumVals <- MCNumVals
  Units = {units}
  MaxMods = {maxmods}
  Emit = TRUE
  KnownDevs <- MCKnown
INIT Init
NEXT Next
INVARIANT Refines
CHECK_DEADLOCK FALSE
"""
STR = {1: "'a'", 2: "bee"}
STRV = {1: "a", 2: "bee"}


def vtext(v, ty):
    if v["t"] == "none":
        return "none"
    if v["t"] == "b":
        return "true" if v["n"] else "false"
    if v["t"] == "s":
        return STR[v["n"]]
    q = Fraction(v["n"], v["d"])
    if q.denominator == 1:
        return str(q.numerator)
    return repr(float(q))


def utext(u):
    return "[len]" if u in ("[len2]", "[len5]") else u


WIDTHS = {"int16": (16, False), "int64": (64, False), "uint16": (16, True), "uint64": (64, True), "float32": (32, None), "float128": (128, None)}


def width_map(prog):
    """The abstract types int / float written with a width and sign ("the type of the definition" includes them): chosen per program."""
    vals = [prog["first"]["v"]] + [m["v"] for m in prog["mods"]]
    neg = any(v["t"] == "q" and v["n"] < 0 for v in vals)
    h = sum(ord(c) for c in json.dumps(prog, sort_keys=True))
    ints = ["int16", "int64"] if neg else ["uint16", "int64", "uint64", "int16"]
    return {"int": ints[h % len(ints)], "float": ["float32", "float128"][h % 2]}


def render(prog, nested, dotted_mods, width, incase=False, wmap=None, asexpr=False):
    if asexpr:
        # every number written as a numerical expression of one atom:  x = 3 cm  ->  x = ("3 cm") cm
        def vx(v, ty, u):
            s = vtext(v, ty)
            if v["t"] != "q":
                return s
            if u:
                return f'("{s} {utext(u)}")'
            du = prog["first"]["u"]        # units omitted = the units of the definition; a bare number in an expression has none
            return f'("{s} {utext(du)}")' if du else f'("{s}")'
        prog = json.loads(json.dumps(prog))
        prog["first"]["_x"] = vx(prog["first"]["v"], prog["first"]["ty"], prog["first"]["u"])
        for m in prog["mods"]:
            m["_x"] = vx(m["v"], m["ty"] if m["typed"] else prog["first"]["ty"], m["u"])
    if wmap:
        prog = json.loads(json.dumps(prog))
        for d in [prog["first"]] + prog["mods"]:
            d["ty"] = wmap.get(d["ty"], d["ty"])
    f = prog["first"]
    units = {f["u"]} | {m["u"] for m in prog["mods"]}
    pre = []
    # spec/DipModify.tla CustomDefs: equivalent definitions of the custom symbol; the nested rendering uses the scaled ones
    if "[len2]" in units:
        pre.append("$unit len = 200 cm" if nested else "$unit len = 2 m")
    if "[len5]" in units:
        pre.append("$unit len = 5000 mm" if nested else "$unit len = 5 m")
    if incase:
        # the whole program inside a selected clause of a case block
        body = render(prog, nested, dotted_mods, width).split("\n")
        body = [l for l in body if l and not l.startswith("$unit")]
        return "\n".join(pre + ["@case true"] + ["   " + l for l in body] + ["@end"]) + "\n"
    ind = " " * width if nested else ""
    lines = pre + (["g"] if nested else [])
    s = f"{ind}x {f['ty']}"
    if not f["dec"]:
        s += f" = {f.get('_x') or vtext(f['v'], f['ty'])}"
    if f["u"]:
        s += f" {utext(f['u'])}"
    lines.append(s)
    if f["const"]:
        lines.append(f"{ind}  !constant")
    for m in prog["mods"]:
        name = "x"
        i2 = ind
        if nested and dotted_mods:
            name, i2 = "g.x", ""
        elif nested:
            lines.append("g")
        s = f"{i2}{name}" + (f" {m['ty']}" if m["typed"] else "") + f" = {m.get('_x') or vtext(m['v'], m['ty'] if m['typed'] else f['ty'])}"
        if m["u"]:
            s += f" {utext(m['u'])}"
        lines.append(s)
    return "\n".join(lines) + "\n"


CLS = {"BooleanType": "bool", "IntegerType": "int", "FloatType": "float", "StringType": "str"}


def parse_chained(text):
    """The first logical part (up to and including the definition and its !constant) is parsed by one DIP object,
    the modifications by a second one built on the returned environment."""
    lines = text.rstrip("\n").split("\n")
    # split after the definition line (first line that declares a type) and an optional !constant
    idx = next(i for i, l in enumerate(lines) if l.lstrip().startswith(("x int", "x uint", "x float", "x bool", "x str")))
    if idx + 1 < len(lines) and lines[idx + 1].lstrip().startswith("!constant"):
        idx += 1
    first, rest = "\n".join(lines[:idx + 1]) + "\n", "\n".join(lines[idx + 1:]) + "\n"
    r = D.parse_dip(first)
    if r[0] != "ok" or not rest.strip():
        return r
    return D.parse_dip(rest, base_env=r[1])


def observe(text, nested, chained=False):
    from scinumtools.dip.settings import Format
    r = parse_chained(text) if chained else D.parse_dip(text)
    if r[0] != "ok":
        return {"ok": False, "err": r[1]}
    try:
        data = r[1].data(Format.TYPE)
    except Exception as e:
        return {"ok": False, "err": "data(): " + type(e).__name__}
    key = "g.x" if nested else "x"
    if list(data.keys()) != [key]:
        return {"ok": True, "keys": list(data.keys()), "bad": "not exactly one parameter"}
    tv = data[key]
    if tv is None or not hasattr(tv, "value"):
        return {"ok": True, "keys": [key], "bad": "the returned environment holds a parameter without a value object"}
    val = tv.value
    return {"ok": True, "ty": CLS.get(type(tv).__name__), "unit": tv.unit or "", "val": val,
            "prec": getattr(tv, "precision", None), "uns": getattr(tv, "unsigned", None)}


def val_matches(obs, v):
    if v["t"] == "none":
        return obs is None
    if obs is None:
        return False
    if v["t"] == "b":
        return type(obs).__name__ in ("bool", "bool_") and bool(obs) == bool(v["n"])
    if v["t"] == "s":
        return obs == STRV[v["n"]]
    if isinstance(obs, (str, bool)):
        return False
    q = Fraction(v["n"], v["d"])
    return math.isclose(float(obs), float(q), rel_tol=1e-9, abs_tol=1e-300)


def agrees(obs, exp, full):
    if obs["ok"] != exp["ok"]:
        return False
    if not exp["ok"]:
        return True
    if obs.get("bad"):
        return False
    if full and (obs["ty"] != exp["ty"] or obs["unit"] != utext(exp["unit"])):
        return False
    return val_matches(obs["val"], exp["v"])


OTHER_UNIT = {"m": "cm", "cm": "m", "km": "m", "mm": "cm", "s": "ms", "ms": "s"}


def observe_function(prog, rec):
    """The program on x, then a second node y (defined in x's unit) is re-defined with the value a user function supplies:
    the function hands back x's current value object, written in another unit of the same dimension.  y must equal x's final
    value in its own definition unit, and x must be what the program alone makes it (a pure function changes nothing)."""
    from scinumtools.dip import DIP
    from scinumtools.dip.settings import Format
    D.speedup()
    u0 = prog["first"]["u"]
    s = render(prog, False, False, 2) + f"y float = 1 {u0}\ny float = (same_as_x) {OTHER_UNIT[u0]}\nz float = {{?x}}\n"
    D._COUNT[0] += 1
    try:
        with DIP(name=f"verif{os.getpid()}f{D._COUNT[0]}") as p:
            p.add_function("same_as_x", lambda data: data["x"])
            p.add_string(s)
            data = p.parse().data(Format.TYPE)
    except Exception as e:
        return s, {"ok": False, "err": type(e).__name__ + ": " + str(e)[:120]}
    out = {"ok": True}
    for k in ("x", "y", "z"):
        tv = data.get(k)
        out[k] = None if tv is None or not hasattr(tv, "value") else {"ok": True, "ty": CLS.get(type(tv).__name__), "unit": tv.unit or "", "val": tv.value}
    return s, out


def replay_record(rec):
    prog = rec["prog"]
    variants = [(False, False, 2, False, False, False), (True, True, 2, False, False, False), (True, False, 3, False, False, False),
                (False, False, 2, True, False, False), (False, False, 2, False, True, False), (False, False, 2, False, False, True),
                (False, False, 2, False, False, "expr")]
    first = None
    for nested, dotted, width, incase, chained, widths in variants:
        if widths == "expr":
            if prog["first"]["ty"] not in ("int", "float") or rec["u"] or not rec["ideal"]["ok"]:
                continue
            if prog["first"]["u"] and any(m["typed"] and not m["u"] and m["v"]["t"] == "q" for m in prog["mods"]):
                continue      # a typed line without units that holds an expression: which unit the result is asked in is not documented
            s = render(prog, False, False, 2, asexpr=True)
            obs = observe(s, False, False)
            if not agrees(obs, rec["ideal"], True):
                return ("violation", {"text": s, "observed": {k: (str(v) if k == "val" else v) for k, v in obs.items()}, "expected": rec["ideal"], "known": False})
            continue
        if chained and (not prog["mods"] or prog["first"]["dec"]):
            continue      # a declaration alone is no complete text; nothing to chain without modifications
        wmap = None
        if widths:
            if prog["first"]["ty"] not in ("int", "float"):
                continue
            wmap = width_map(prog)
        s = render(prog, nested, dotted, width, incase, wmap)
        obs = observe(s, nested, chained)
        if wmap and rec["ideal"]["ok"] and obs.get("ok") and not obs.get("bad"):
            want = WIDTHS[wmap[prog["first"]["ty"]]]
            if obs.get("prec") != want[0] or (want[1] is not None and obs.get("uns") != want[1]):
                if rec["u"]:
                    return ("unspecified", None)
                return ("violation", {"text": s, "observed": {"precision": obs.get("prec"), "unsigned": obs.get("uns")},
                                      "expected": {"precision": want[0], "unsigned": want[1]}, "known": False})
        if agrees(obs, rec["ideal"], True):
            if not agrees(obs, rec["mach"], False):
                return ("drift", {"text": s, "machine": rec["mach"], "observed": str(obs)})
            continue
        if rec["u"]:
            return ("unspecified", None)
        return ("violation", {"text": s, "observed": {k: (str(v) if k == "val" else v) for k, v in obs.items()}, "expected": rec["ideal"],
                              "known": agrees(obs, rec["mach"], False) and rec["dev"] != "none"})
    f, idl = prog["first"], rec["ideal"]
    if (not rec["u"] and idl["ok"] and f["ty"] == "float" and f["u"] in OTHER_UNIT and idl["v"]["t"] == "q" and not f["const"]
            and all(m["u"] in ("", f["u"]) or m["u"] in OTHER_UNIT for m in prog["mods"])):
        s, obs = observe_function(prog, rec)
        bad = None
        if not obs["ok"]:
            bad = "the text is rejected"
        else:
            for k in ("x", "y", "z"):
                if obs[k] is None or not agrees(obs[k], idl, True):
                    bad = f"{k} differs from x's last assignment in the unit of the definition"
                    break
        if bad:
            return ("violation", {"text": s, "observed": {k: (str(v)) for k, v in obs.items()}, "expected": {"x = y = z": idl},
                                  "known": False, "clause2": "a value supplied by a pure user function: " + bad})
    return ("unspecified" if rec["u"] else "ok", None)


def run(replay=None):
    V = C.Verdicts(PID, "model_checking")
    if replay:
        body = json.load(open(replay))
        st, det = replay_record(body["scenario"])
        print(f"replay {replay}: {st} {det}")
        if st == "violation" and not det.get("known"):
            print(f"VIOLATION property={PID} replay={replay}")
            return 1
        return 0
    wd = C.workdir(PID)
    t = C.tier()
    known = {tg[4:] for f in V.findings.open for tg in f.get("tags", []) if tg.startswith("dev:")}
    runs = []

    def tlc(types, numvals, units, maxmods):
        open(os.path.join(wd, "DipModifyMC.tla"), "w").write(MC.format(numvals="{" + ", ".join(f"<<{a},{b}>>" for a, b in numvals) + "}", known=C.tla_str(known)))
        return C.run_tlc(wd, "DipModifyMC", CFG.format(types=C.tla_str(set(types)), units=C.tla_str(set(units)), maxmods=maxmods), extra=["-continue"])
    if t == "quick":
        runs.append(tlc(["int", "float", "bool", "str"], [(0, 1), (1, 1), (-2, 1), (5, 2)], ["", "m", "cm", "s"], 1))
        runs.append(tlc(["float"], [(0, 1), (-2, 1), (5, 2)], ["", "m", "cm"], 2))
        runs.append(tlc(["int", "bool"], [(0, 1), (300, 1)], ["", "m", "km"], 2))
        runs.append(tlc(["int"], [(1190, 1), (-290, 1), (7, 1)], ["cm", "mm", "m"], 1))
        runs.append(tlc(["float"], [(0, 1), (20, 1), (5463, 20)], ["K", "Cel", "[len2]", "[len5]", "m"], 2))
    else:
        runs.append(tlc(["int", "float", "bool", "str"], [(0, 1), (1, 1), (-2, 1), (5, 2), (300, 1)], ["", "m", "cm", "km", "s", "ms"], 1))
        runs.append(tlc(["float", "int"], [(0, 1), (-2, 1), (5, 2)], ["", "m", "cm", "s"], 2))
        runs.append(tlc(["float"], [(0, 1), (5, 2)], ["", "m", "cm"], 3))
        runs.append(tlc(["bool", "str"], [(0, 1)], [""], 3))
        runs.append(tlc(["int"], [(1190, 1), (-290, 1), (7, 1), (928, 1)], ["cm", "mm", "m", "km"], 2))
        runs.append(tlc(["float"], [(0, 1), (20, 1), (5463, 20)], ["", "K", "Cel", "[len2]", "[len5]", "m"], 2))
    recs, seen = [], set()
    for r in runs:
        if r.violated:
            V.notes.append("TLC: Refines counterexample (machine vs ideal outside the open deviation classes): " + r.cex[:400])
        for x in r.records:
            k = json.dumps(x["prog"], sort_keys=True)
            if k not in seen:
                seen.add(k); recs.append(x)
    res = C.pmap(replay_record, recs)
    nontrivial = 0
    devs = {}
    for rec, (st, det) in zip(recs, res):
        devs[rec["dev"]] = devs.get(rec["dev"], 0) + 1
        if len(rec["prog"]["mods"]) >= 1:
            nontrivial += 1
        if st == "violation":
            tags = ["dev:" + rec["dev"]] if det["known"] else ["not-the-machine-deviation"]
            V.fail({"prog": rec["prog"], "ideal": rec["ideal"], "mach": rec["mach"], "dev": rec["dev"], "u": rec["u"]}, det["expected"], det["observed"],
                   "result differs from 'last assignment wins in the type and unit of the definition' :: " + det["text"].replace("\n", " | "),
                   tags=tags, failure=rec["dev"] if det["known"] else "other")
        elif st == "drift":
            V.drift(json.dumps(det)[:300])
        elif st == "unspecified":
            V.unspecified()
        else:
            V.ok()
    V.cov.update({
        "states": sum(r.distinct for r in runs), "transitions": sum(r.generated for r in runs),
        "traces_validated_against_impl": len(recs), "evaluations": 3 * len(recs), "distinct_nontrivial": nontrivial,
        "rule": "every program of a definition/declaration (4 types, values incl. 0, negative, false, none, with/without unit, optional !constant) "
                "followed by up to 1/2/3 typed or untyped modifications over the same value and unit sets (TLC, exhaustive); each rendered at top level "
                "and below a group (modifications nested or with dotted path) and parsed by the real DIP; non-trivial = programs with >= 1 modification",
        "samples": [{"prog": r["prog"], "ideal": r["ideal"]} for r in recs[1000:1003]],
        "exhaustive": True, "deviation_classes_seen": devs,
    })
    V.assumptions += ["`none` written with a unit, a declared node whose last assignment is none, and an integer node whose converted value is not an integer are undocumented and excluded",
                      "units restricted to exact-ratio units m/cm/km, s/ms so that expectations are exact rationals"]
    C.cleanup(PID)
    return V.finish()
