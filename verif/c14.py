"""C14 - the last assignment wins, in the units and type of the definition.

Spec: spec/DipModify.tla - programs (definition or declaration, optional !constant, up to N typed/untyped
modifications with values incl. 0, negative, false, none and units of the same / another dimension), the
IDEAL of the property with exact rationals and the MACHINE transcription of modify_value/convert and the
constant / declared checks.  TLC enumerates all programs, checks machine-vs-ideal modulo the open deviation
classes and emits them; each is rendered (top level and below a group, modifications written nested or with
a dotted path), parsed by the real DIP and judged like in verif/dip_tree.py.
"""
import json, os, random, math
from fractions import Fraction
from . import common as C
from . import dip_adapter as D

PID = "C14"

MC = """---- MODULE DipModifyMC ----
EXTENDS DipModify
MCNumVals == {numvals}
MCKnown == {known}
====
"""
CFG = """CONSTANTS
  Types = {types}
  NumVals <- MCNumVals
  Units = {units}
  MaxMods = {maxmods}
  Emit = TRUE
  KnownDevs <- MCKnown
INIT Init
NEXT Next
INVARIANT Refines
CHECK_DEADLOCK FALSE
"""
STR = {1: "'a'", 2: "bee"}
STRV = {1: "a", 2: "bee"}


def vtext(v, ty):
    if v["t"] == "none":
        return "none"
    if v["t"] == "b":
        return "true" if v["n"] else "false"
    if v["t"] == "s":
        return STR[v["n"]]
    q = Fraction(v["n"], v["d"])
    if q.denominator == 1:
        return str(q.numerator)
    return repr(float(q))


def utext(u):
    return "[len]" if u in ("[len2]", "[len5]") else u


def render(prog, nested, dotted_mods, width, incase=False):
    f = prog["first"]
    units = {f["u"]} | {m["u"] for m in prog["mods"]}
    pre = []
    if "[len2]" in units:
        pre.append("$unit len = 2 m")
    if "[len5]" in units:
        pre.append("$unit len = 5 m")
    if incase:
        # the whole program inside a selected clause of a case block
        body = render(prog, nested, dotted_mods, width).split("\n")
        body = [l for l in body if l and not l.startswith("$unit")]
        return "\n".join(pre + ["@case true"] + ["   " + l for l in body] + ["@end"]) + "\n"
    ind = " " * width if nested else ""
    lines = pre + (["g"] if nested else [])
    s = f"{ind}x {f['ty']}"
    if not f["dec"]:
        s += f" = {vtext(f['v'], f['ty'])}"
    if f["u"]:
        s += f" {utext(f['u'])}"
    lines.append(s)
    if f["const"]:
        lines.append(f"{ind}  !constant")
    for m in prog["mods"]:
        name = "x"
        i2 = ind
        if nested and dotted_mods:
            name, i2 = "g.x", ""
        elif nested:
            lines.append("g")
        s = f"{i2}{name}" + (f" {m['ty']}" if m["typed"] else "") + f" = {vtext(m['v'], m['ty'] if m['typed'] else f['ty'])}"
        if m["u"]:
            s += f" {utext(m['u'])}"
        lines.append(s)
    return "\n".join(lines) + "\n"


CLS = {"BooleanType": "bool", "IntegerType": "int", "FloatType": "float", "StringType": "str"}


def parse_chained(text):
    """The first logical part (up to and including the definition and its !constant) is parsed by one DIP object,
    the modifications by a second one built on the returned environment."""
    lines = text.rstrip("\n").split("\n")
    # split after the definition line (first line that declares a type) and an optional !constant
    idx = next(i for i, l in enumerate(lines) if l.lstrip().startswith(("x int", "x float", "x bool", "x str")))
    if idx + 1 < len(lines) and lines[idx + 1].lstrip().startswith("!constant"):
        idx += 1
    first, rest = "\n".join(lines[:idx + 1]) + "\n", "\n".join(lines[idx + 1:]) + "\n"
    r = D.parse_dip(first)
    if r[0] != "ok" or not rest.strip():
        return r
    return D.parse_dip(rest, base_env=r[1])


def observe(text, nested, chained=False):
    from scinumtools.dip.settings import Format
    r = parse_chained(text) if chained else D.parse_dip(text)
    if r[0] != "ok":
        return {"ok": False, "err": r[1]}
    try:
        data = r[1].data(Format.TYPE)
    except Exception as e:
        return {"ok": False, "err": "data(): " + type(e).__name__}
    key = "g.x" if nested else "x"
    if list(data.keys()) != [key]:
        return {"ok": True, "keys": list(data.keys()), "bad": "not exactly one parameter"}
    tv = data[key]
    if tv is None or not hasattr(tv, "value"):
        return {"ok": True, "keys": [key], "bad": "the returned environment holds a parameter without a value object"}
    val = tv.value
    return {"ok": True, "ty": CLS.get(type(tv).__name__), "unit": tv.unit or "", "val": val}


def val_matches(obs, v):
    if v["t"] == "none":
        return obs is None
    if obs is None:
        return False
    if v["t"] == "b":
        return type(obs).__name__ in ("bool", "bool_") and bool(obs) == bool(v["n"])
    if v["t"] == "s":
        return obs == STRV[v["n"]]
    if isinstance(obs, (str, bool)):
        return False
    q = Fraction(v["n"], v["d"])
    return math.isclose(float(obs), float(q), rel_tol=1e-9, abs_tol=1e-300)


def agrees(obs, exp, full):
    if obs["ok"] != exp["ok"]:
        return False
    if not exp["ok"]:
        return True
    if obs.get("bad"):
        return False
    if full and (obs["ty"] != exp["ty"] or obs["unit"] != utext(exp["unit"])):
        return False
    return val_matches(obs["val"], exp["v"])


def replay_record(rec):
    prog = rec["prog"]
    variants = [(False, False, 2, False, False), (True, True, 2, False, False), (True, False, 3, False, False), (False, False, 2, True, False),
                (False, False, 2, False, True)]
    first = None
    for nested, dotted, width, incase, chained in variants:
        if chained and (not prog["mods"] or prog["first"]["dec"]):
            continue      # a declaration alone is no complete text; nothing to chain without modifications
        s = render(prog, nested, dotted, width, incase)
        obs = observe(s, nested, chained)
        if agrees(obs, rec["ideal"], True):
            if not agrees(obs, rec["mach"], False):
                return ("drift", {"text": s, "machine": rec["mach"], "observed": str(obs)})
            continue
        if rec["u"]:
            return ("unspecified", None)
        return ("violation", {"text": s, "observed": {k: (str(v) if k == "val" else v) for k, v in obs.items()}, "expected": rec["ideal"],
                              "known": agrees(obs, rec["mach"], False) and rec["dev"] != "none"})
    return ("unspecified" if rec["u"] else "ok", None)


def run(replay=None):
    V = C.Verdicts(PID, "model_checking")
    if replay:
        body = json.load(open(replay))
        st, det = replay_record(body["scenario"])
        print(f"replay {replay}: {st} {det}")
        if st == "violation" and not det.get("known"):
            print(f"VIOLATION property={PID} replay={replay}")
            return 1
        return 0
    wd = C.workdir(PID)
    t = C.tier()
    known = {tg[4:] for f in V.findings.open for tg in f.get("tags", []) if tg.startswith("dev:")}
    runs = []

    def tlc(types, numvals, units, maxmods):
        open(os.path.join(wd, "DipModifyMC.tla"), "w").write(MC.format(numvals="{" + ", ".join(f"<<{a},{b}>>" for a, b in numvals) + "}", known=C.tla_str(known)))
        return C.run_tlc(wd, "DipModifyMC", CFG.format(types=C.tla_str(set(types)), units=C.tla_str(set(units)), maxmods=maxmods), extra=["-continue"])
    if t == "quick":
        runs.append(tlc(["int", "float", "bool", "str"], [(0, 1), (1, 1), (-2, 1), (5, 2)], ["", "m", "cm", "s"], 1))
        runs.append(tlc(["float"], [(0, 1), (-2, 1), (5, 2)], ["", "m", "cm"], 2))
        runs.append(tlc(["int", "bool"], [(0, 1), (300, 1)], ["", "m", "km"], 2))
        runs.append(tlc(["int"], [(1190, 1), (-290, 1), (7, 1)], ["cm", "mm", "m"], 1))
        runs.append(tlc(["float"], [(0, 1), (20, 1), (5463, 20)], ["K", "Cel", "[len2]", "[len5]", "m"], 2))
    else:
        runs.append(tlc(["int", "float", "bool", "str"], [(0, 1), (1, 1), (-2, 1), (5, 2), (300, 1)], ["", "m", "cm", "km", "s", "ms"], 1))
        runs.append(tlc(["float", "int"], [(0, 1), (-2, 1), (5, 2)], ["", "m", "cm", "s"], 2))
        runs.append(tlc(["float"], [(0, 1), (5, 2)], ["", "m", "cm"], 3))
        runs.append(tlc(["bool", "str"], [(0, 1)], [""], 3))
        runs.append(tlc(["int"], [(1190, 1), (-290, 1), (7, 1), (928, 1)], ["cm", "mm", "m", "km"], 2))
        runs.append(tlc(["float"], [(0, 1), (20, 1), (5463, 20)], ["", "K", "Cel", "[len2]", "[len5]", "m"], 2))
    recs, seen = [], set()
    for r in runs:
        if r.violated:
            V.notes.append("TLC: Refines counterexample (machine vs ideal outside the open deviation classes): " + r.cex[:400])
        for x in r.records:
            k = json.dumps(x["prog"], sort_keys=True)
            if k not in seen:
                seen.add(k); recs.append(x)
    res = C.pmap(replay_record, recs)
    nontrivial = 0
    devs = {}
    for rec, (st, det) in zip(recs, res):
        devs[rec["dev"]] = devs.get(rec["dev"], 0) + 1
        if len(rec["prog"]["mods"]) >= 1:
            nontrivial += 1
        if st == "violation":
            tags = ["dev:" + rec["dev"]] if det["known"] else ["not-the-machine-deviation"]
            V.fail({"prog": rec["prog"], "ideal": rec["ideal"], "mach": rec["mach"], "dev": rec["dev"], "u": rec["u"]}, det["expected"], det["observed"],
                   "result differs from 'last assignment wins in the type and unit of the definition' :: " + det["text"].replace("\n", " | "),
                   tags=tags, failure=rec["dev"] if det["known"] else "other")
        elif st == "drift":
            V.drift(json.dumps(det)[:300])
        elif st == "unspecified":
            V.unspecified()
        else:
            V.ok()
    V.cov.update({
        "states": sum(r.distinct for r in runs), "transitions": sum(r.generated for r in runs),
        "traces_validated_against_impl": len(recs), "evaluations": 3 * len(recs), "distinct_nontrivial": nontrivial,
        "rule": "every program of a definition/declaration (4 types, values incl. 0, negative, false, none, with/without unit, optional !constant) "
                "followed by up to 1/2/3 typed or untyped modifications over the same value and unit sets (TLC, exhaustive); each rendered at top level "
                "and below a group (modifications nested or with dotted path) and parsed by the real DIP; non-trivial = programs with >= 1 modification",
        "samples": [{"prog": r["prog"], "ideal": r["ideal"]} for r in recs[1000:1003]],
        "exhaustive": True, "deviation_classes_seen": devs,
    })
    V.assumptions += ["`none` written with a unit, a declared node whose last assignment is none, and an integer node whose converted value is not an integer are undocumented and excluded",
                      "units restricted to exact-ratio units m/cm/km, s/ms so that expectations are exact rationals"]
    C.cleanup(PID)
    return V.finish()
