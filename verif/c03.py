"""C03 - a unit expression means the product of its table entries.

1. TLC (UnitAtomGen) walks the WHOLE live table: every unit x every prefix (admissible or not), with foreign
   and extra characters in front, exponent suffixes, system units, number literals; it checks unique
   decodability of the notation (Readings has <= 1 element, the longest-suffix algorithm computes it), compares
   the transcription of AtomParser (machine) with the declarative reading (ideal) and emits one record per case.
2. TLC (UnitExprGen) checks at expression level that the solver machine with {par, mul, truediv} builds the
   ideal tree / raises on ill-formed strings (all token strings up to a length), and - over every grammar shape
   with <= N atoms x every assignment from a pool of atoms - that the machine's insertion-ordered exponent
   dictionaries equal the ideal exponent sums, numeric factors agree, and Reparse(Render(x)) = x.
3. The harness concretises the shapes with live table symbols (every unit and every (unit, prefix) pair; the
   definition string of every table row); TLC computes for each case the text, class, expected units, exact
   dimension vector and the conversion-factor TERM; every record is replayed against BaseUnits(text) /
   Quantity(1, text) and the round trip through .expression.
"""
import json, os, random
from . import common as C
from . import units_a_tables as T
from . import units_a_adapter as A
from . import c03_fraction as FD

PID = "C03"
LEAD_TAGS = {"prefix_two_letter", "foreign_lead_char", "extra_lead_char"}
EXPS = [(1, 1), (2, 1), (-1, 1), (-2, 1), (3, 1), (1, 2), (-1, 2), (-3, 2), (2, 3)]
NUMS = [(2, 0), (25, -1), (60, 0), (1, 3), (-3, 0), (25, -8), (167, -26)]
SHAPES6 = [["a1"], ["a1", "*", "a2"], ["a1", "/", "a2"], ["a1", "*", "a2", "/", "a3"],
           ["a1", "/", "(", "a2", "*", "a3", ")"], ["(", "a1", "*", "a2", ")", "/", "(", "a3", "/", "a4", ")"]]


def known_devs():
    devs = set()
    for f in C.Findings(PID).open:
        devs |= set(f.get("tags", [])) & LEAD_TAGS
    return devs


def strip_lemmas(cfg_text):
    return "\n".join(l for l in cfg_text.splitlines() if not (l.startswith("INVARIANT") and "Emit" not in l)) + "\n"


def atom_cfg(foreign, devs):
    return f"""CONSTANTS
  OneChar = {C.tla_str(bool(devs))}
  Foreign = {C.tla_str(set(foreign))}
  KnownDevs = {C.tla_str(devs)}
  Emit = TRUE
INIT Init
NEXT Next
INVARIANT Decodable
INVARIANT SelfResolving
INVARIANT TablesClean
INVARIANT EmitInv
CHECK_DEADLOCK FALSE
"""


def expr_cfg(source, maxlen, maxatoms, devs, emit=True):
    return f"""CONSTANTS
  OneChar = {C.tla_str(bool(devs))}
  Source = "{source}"
  MaxLen = {maxlen}
  MaxAtoms = {maxatoms}
  Pool <- MCPool
  KnownDevs = {C.tla_str(devs)}
  Emit = {C.tla_str(emit)}
INIT Init
NEXT Next
INVARIANT ShapeRefines
INVARIANT Algebra
INVARIANT EmitInv
CHECK_DEADLOCK FALSE
"""


def write_mc(wd, data, npool):
    U = {u["name"]: i + 1 for i, u in enumerate(data["units"])}
    P = {p["name"]: i + 1 for i, p in enumerate(data["prefixes"])}

    def uv(p, u, n, d):
        return f'UnitVal(<<"u", {P.get(p, 0)}, {U[u]}>>, <<{n}, {d}>>)'
    pool = [uv("", "m", 1, 1), uv("k", "m", 2, 1), uv("", "s", -1, 1), uv("", "m", -1, 2), "NumVal(25, -1)",
            uv("", "s", 1, 2), uv("k", "m", -2, 1), uv("", "g", 3, 1), uv("k", "m", 1, 1), uv("", "s", -3, 2)]
    with open(os.path.join(wd, "UnitExprMC.tla"), "w") as f:
        f.write("---- MODULE UnitExprMC ----\nEXTENDS UnitExprGen\nMCPool == <<" + ", ".join(pool[:npool]) + ">>\n====\n")


# ------------------------------------------------------------------ replay: atoms

def units_key(units):
    return sorted((p, u, tuple(e)) for p, u, e in units)


def replay_atom(rec):
    """-> (status, failure, detail).  status: ok | violation | unspecified | drift"""
    tabs = replay_atom.tabs
    text, ideal, mach = rec["text"], rec["ideal"], rec["mach"]
    cls = ideal["cls"]
    if cls in ("unspecified", "ambiguous"):
        return ("unspecified", None, None)
    o = A.observe_baseunits(text)
    nobs = 1
    st, failure, det = "ok", None, None
    if cls == "reject":
        if o["ok"]:
            st, failure, det = "violation", "accepted_invalid", {"expected": "an exception", "observed": o, "clause": "no reading in the tables => rejected with an error"}
    elif cls == "number":
        q = A.observe_quantity(text); nobs += 1
        exp = A.ev(rec["term"], tabs)
        if not q["ok"] or not o["ok"]:
            st, failure, det = "violation", "rejected_valid", {"expected": exp, "observed": q, "clause": "a number literal is a numeric factor"}
        elif o["units"] or not A.close(q["total"], exp, 1e-12):
            st, failure, det = "violation", "wrong_factor", {"expected": exp, "observed": q, "clause": "numeric factor = value of the literal"}
    else:
        e = ideal["e"]
        exp_units = [] if e[0] == 0 else [[ideal["p"], ideal["u"], e]]
        exp_mag = A.ev(rec["term"], tabs)
        if not A.in_range(exp_mag):
            return ("unspecified", None, None, nobs)          # factor outside the range of a double
        if not o["ok"]:
            st, failure, det = "violation", "rejected_valid", {"expected": exp_units, "observed": o, "clause": "[prefix]symbol[exponent] from the tables is accepted"}
        elif units_key(o["units"]) != units_key(exp_units):
            st, failure, det = "violation", "accepted_wrong", {"expected": exp_units, "observed": o, "clause": "the text denotes exactly this prefix, unit and exponent"}
        elif not A.close(o["magnitude"], exp_mag, 1e-12):
            st, failure, det = "violation", "wrong_factor", {"expected": exp_mag, "observed": o, "clause": "factor = (prefix factor * unit factor)^exponent"}
        elif o["dims"] != rec["dims"]:
            st, failure, det = "violation", "wrong_dimension", {"expected": rec["dims"], "observed": o, "clause": "dimension vector = exponent * table row, exactly"}
        else:
            q = A.observe_quantity(text); nobs += 1
            if not q["ok"] or not A.close(q["total"], exp_mag, 1e-12) or q["dims"] != rec["dims"]:
                st, failure, det = "violation", "wrong_factor", {"expected": exp_mag, "observed": q, "clause": "Quantity(1,text) carries the same factor and dimensions"}
    if st == "ok":
        # conformance of the machine transcription (no verdict)
        if (mach["cls"] == "reject") != (not o["ok"]):
            st, det = "drift", {"text": text, "machine": mach, "observed": o}
        elif o["ok"] and mach["cls"] in ("unit", "sys"):
            mu = [] if mach["e"][0] == 0 else [[mach["p"], mach["u"], mach["e"]]]
            if units_key(o["units"]) != units_key(mu):
                st, det = "drift", {"text": text, "machine": mach, "observed": o}
    return (st, failure, det, nobs)


# ------------------------------------------------------------------ concretisation of expression shapes

def exp_text(n, d):
    return "" if (n, d) == (1, 1) else (str(n) if d == 1 else f"{n}:{d}")


class Conc:
    def __init__(self, data, rnd):
        self.data, self.rnd = data, rnd
        self.P = {p["name"]: i + 1 for i, p in enumerate(data["prefixes"])}
        self.pairs = []
        for ui, u in enumerate(data["units"]):
            self.pairs.append((0, ui + 1))
            for a in u["adm"]:
                if a in self.P:
                    self.pairs.append((self.P[a], ui + 1))

    def unit_atom(self, pair=None, exp=None):
        p, u = pair or self.rnd.choice(self.pairs)
        n, d = exp or self.rnd.choice(EXPS)
        return {"k": "u", "p": p, "u": u, "en": n, "ed": d, "mant": 0, "e10": 0, "c": []}

    def num_atom(self):
        m, e = self.rnd.choice(NUMS)
        return {"k": "n", "p": 0, "u": 0, "en": 0, "ed": 1, "mant": m, "e10": e, "c": []}

    def sys_atom(self, s):
        n, d = self.rnd.choice(EXPS)
        return {"k": "s", "p": 0, "u": s, "en": n, "ed": d, "mant": 0, "e10": 0, "c": []}

    def text_atom(self, text):
        return {"k": "t", "p": 0, "u": 0, "en": 0, "ed": 1, "mant": 0, "e10": 0, "c": list(text)}

    def atom_text(self, a):
        """input generation only: the text of an atom (used to build corrupted variants)"""
        if a["k"] == "t":
            return "".join(a["c"])
        if a["k"] == "n":
            return str(a["mant"]) + (f"e{a['e10']}" if a["e10"] else "")
        if a["k"] == "s":
            return self.data["sys"][a["u"] - 1]["name"] + exp_text(a["en"], a["ed"])
        return (self.data["prefixes"][a["p"] - 1]["name"] if a["p"] else "") + self.data["units"][a["u"] - 1]["name"] + exp_text(a["en"], a["ed"])

    def cases(self, tier):
        rnd = self.rnd
        out = []
        # every pair in every atom position of the six shapes
        full = []
        for pair in self.pairs:
            for sh in SHAPES6:
                n = sum(1 for t in sh if t.startswith("a"))
                for pos in range(n):
                    full.append((pair, sh, pos))
        if tier == "quick":
            # every pair at least once (bare shape), plus a seeded sample of the rest
            keep = [(pair, SHAPES6[rnd.randrange(1, 6)], None) for pair in self.pairs]
            keep = [(pair, sh, rnd.randrange(sum(1 for t in sh if t.startswith("a")))) for pair, sh, _ in keep]
            full = keep + rnd.sample(full, 1300)
        for pair, sh, pos in full:
            n = sum(1 for t in sh if t.startswith("a"))
            atoms = []
            for i in range(n):
                if i == pos:
                    atoms.append(self.unit_atom(pair))
                elif rnd.random() < 0.12:
                    atoms.append(self.num_atom())
                elif rnd.random() < 0.15 and atoms and atoms[0]["k"] == "u":
                    a = dict(atoms[0]); a["en"], a["ed"] = rnd.choice(EXPS); atoms.append(a)      # same unit again: exponents merge
                else:
                    atoms.append(self.unit_atom())
            out.append({"kind": "pair", "shape": sh, "atoms": atoms})
        # exact cancellation and merging
        for _ in range(150 if tier == "quick" else 1500):
            a = self.unit_atom(); b = dict(a)
            c = self.unit_atom()
            sh = rnd.choice([["a1", "/", "a2"], ["a1", "*", "a2", "/", "a3"], ["a1", "/", "(", "a2", "*", "a3", ")"], ["a1", "*", "a2"]])
            atoms = [a, b, c][:sum(1 for t in sh if t.startswith("a"))]
            rnd.shuffle(atoms)
            out.append({"kind": "merge", "shape": sh, "atoms": atoms})
        # total dimension zero with a dimensionless unit or constant KEPT and dimensional units CANCELLING:
        # the same unit with two prefixes (or twice), and a unit against one of reciprocal dimension; every
        # dimensionless table row, and every admissible (prefix, unit) pair as the cancelling partner
        def isdimless(u):
            return all((x[0] if isinstance(x, tuple) else x) == 0 for x in u["dim"])
        dimless = [ui + 1 for ui, u in enumerate(self.data["units"]) if isdimless(u)]
        dimful = [pr for pr in self.pairs if pr[1] not in dimless]
        by_unit = {}
        for pr in dimful:
            by_unit.setdefault(pr[1], []).append(pr)
        zshapes = [["a1", "*", "a2", "/", "a3"], ["a1", "/", "a2", "*", "a3"], ["a1", "*", "a2", "/", "(", "a3", "*", "a4", ")"],
                   ["(", "a1", "/", "a2", ")", "*", "a3"], ["a1", "/", "(", "a2", "/", "a3", ")"]]
        zjobs = [(d, rnd.choice(dimful)) for d in dimless for _ in range(3)]
        zjobs += [(rnd.choice(dimless), pr) for pr in (dimful if tier != "quick" else rnd.sample(dimful, 250))]
        for d, pr in zjobs:
            e = rnd.choice(EXPS)
            other = rnd.choice(by_unit[pr[1]])
            da = self.unit_atom((0, d), rnd.choice([(1, 1), (1, 1), (2, 1), (-1, 1), (1, 2)]))
            x, y = self.unit_atom(pr, e), self.unit_atom(other, e)
            sh = rnd.choice(zshapes)
            n = sum(1 for t in sh if t.startswith("a"))
            if sh == zshapes[0]:
                atoms = [da, x, y]                       # d * X / X'
            elif sh == zshapes[1]:
                atoms = [x, y, da]                       # X / X' * d
            elif sh == zshapes[2]:
                atoms = [da, x, y, self.unit_atom((0, rnd.choice(dimless)))]     # d * X / (X' * d')
            elif sh == zshapes[3]:
                atoms = [x, y, da]                       # (X / X') * d
            else:
                atoms = [da, y, x]                       # d / (X' / X)
            out.append({"kind": "zerodim", "shape": sh, "atoms": atoms})
        # the definition string of every table row and of every prefix
        for ui, u in enumerate(self.data["units"]):
            if u["hasdef"]:
                out.append({"kind": "def", "row": u["name"], "shape": u["deftoks"], "atoms": [self.text_atom(a) for a in u["defatoms"]]})
        # system units
        for si in range(len(self.data["sys"])):
            sh = rnd.choice(SHAPES6[:3])
            n = sum(1 for t in sh if t.startswith("a"))
            atoms = [self.sys_atom(si + 1)] + [self.unit_atom() for _ in range(n - 1)]
            rnd.shuffle(atoms)
            out.append({"kind": "sys", "shape": sh, "atoms": atoms})
        # one corrupted atom inside an otherwise valid expression: foreign / extra characters in front
        base = [c for c in out if c["kind"] == "pair"]
        for c in rnd.sample(base, 300 if tier == "quick" else 2000):
            atoms = [dict(a) for a in c["atoms"]]
            k = rnd.randrange(len(atoms))
            if atoms[k]["k"] != "u":
                continue
            junk = rnd.choice(["x", "Q", "2", ".", "_", "k", "m", "da", "xx", "kk", "kx"])
            atoms[k] = self.text_atom(junk + self.atom_text(atoms[k]))
            out.append({"kind": "corrupt", "shape": c["shape"], "atoms": atoms})
        return out


# ------------------------------------------------------------------ replay: expressions

def units_map(units):
    return {(p, u): tuple(e) for p, u, e in units}


def replay_case(rec):
    tabs = replay_atom.tabs
    cls, text = rec["cls"], rec["text"]
    nobs = 1
    if cls in ("unspecified", "ill:other"):
        return ("unspecified", None, None, 0)
    o = A.observe_baseunits(text)
    st, failure, det = "ok", None, None
    if cls in ("ill:unbalanced", "ill:missing_operand", "ill:atom", "ill:arity"):
        if o["ok"]:
            st, failure, det = "violation", "accepted_invalid", \
                {"expected": "an exception", "observed": o, "clause": cls + " => rejected with an error"}
    elif cls == "wellformed":
        exp_units = {(x["p"], x["u"]): tuple(x["e"]) for x in rec["units"]}
        fac = A.ev(rec["factor"], tabs)
        num = A.ev(rec["num"], tabs)
        if not A.in_range(fac) or not A.in_range(fac * num):
            return ("unspecified", None, None, nobs)         # factor outside the range of a double
        if not o["ok"]:
            st, failure, det = "violation", "rejected_valid", {"expected": rec["units"], "observed": o, "clause": "a well-formed expression over table symbols is accepted"}
        elif units_map(o["units"]) != exp_units:
            st, failure, det = "violation", "accepted_wrong", {"expected": rec["units"], "observed": o, "clause": "exponent of every unit = signed sum over its occurrences"}
        elif o["dims"] != rec["dims"]:
            st, failure, det = "violation", "wrong_dimension", {"expected": rec["dims"], "observed": o, "clause": "dimension vector = exact sum of exponent * table row"}
        elif not A.close(o["magnitude"], fac, 1e-12):
            st, failure, det = "violation", "wrong_factor", {"expected": fac, "observed": o, "clause": "factor = product of (prefix*unit)^exponent"}
        else:
            q = A.observe_quantity(text); nobs += 1
            tot = fac * num
            if not q["ok"]:
                st, failure, det = "violation", "rejected_valid", {"expected": tot, "observed": q, "clause": "Quantity(1,text) accepts what BaseUnits accepts"}
            elif not A.close(q["total"], tot, 1e-12) or q["dims"] != rec["dims"]:
                st, failure, det = "violation", "wrong_factor", {"expected": tot, "observed": q, "clause": "Quantity(1,text): numeric part * unit factor and dimensions"}
            elif o["expression"] is not None:
                o2 = A.observe_baseunits(o["expression"]); nobs += 1
                if not o2["ok"] or units_map(o2["units"]) != units_map(o["units"]):
                    st, failure, det = "violation", "round_trip", {"expected": o["units"], "observed": o2, "clause": "BaseUnits(BaseUnits(t).expression) has the same units: " + str(o["expression"])}
        if st == "ok" and rec.get("_row") is not None:
            row = tabs["unit"][rec["_row"]]
            rd = [list(map(int, _q(x))) for x in row["dim"]]
            if rd != rec["dims"]:
                st, failure, det = "violation", "table_row_dimension", {"expected": rec["dims"], "observed": rd, "clause": f"dimension of table row {rec['_row']} = dimension of its definition {text}"}
            elif not A.close(row["magnitude"], fac * num, 1e-7):
                st, failure, det = "violation", "table_row_factor", {"expected": fac * num, "observed": row["magnitude"], "clause": f"factor of table row {rec['_row']} = factor of its definition {text} (rel 1e-7)"}
    if st == "ok":
        if bool(rec["mach_err"]) != (not o["ok"]):
            st, det = "drift", {"text": text, "machine_err": rec["mach_err"], "observed": o}
        elif o["ok"] and [(p, u) for p, u, e in o["units"]] != [(x["p"], x["u"]) for x in rec["mach_units"]]:
            st, det = "drift", {"text": text, "machine_order": rec["mach_units"], "observed": o["units"]}
        elif o["ok"] and (o["expression"] or "") != rec["mach_render"]:
            st, det = "drift", {"text": text, "machine_render": rec["mach_render"], "observed": o["expression"]}
    return (st, failure, det, nobs)


def _q(x):
    from fractions import Fraction as PF
    f = PF(x[0], x[1]) if isinstance(x, tuple) else PF(x)
    return (f.numerator, f.denominator)


def render_shape(shape, rnd, conc):
    """shape-level record -> text with random valid atoms (ill-formed classes only need accept/reject)"""
    out = []
    for t in shape:
        out.append(conc.atom_text(conc.unit_atom()) if t.startswith("a") else t)
    return "".join(out)


def replay_shape(job):
    cls, text = job[0], job[1]
    o = A.observe_baseunits(text)
    if cls in ("ill:unbalanced", "ill:missing_operand") and o["ok"]:
        return ("violation", "accepted_invalid", {"expected": "an exception", "observed": o, "clause": cls + " => rejected with an error"}, 1)
    if cls == "wellformed" and not o["ok"]:
        return ("violation", "rejected_valid", {"expected": "accepted", "observed": o, "clause": "a well-formed expression over table symbols is accepted"}, 1)
    return ("ok", None, None, 1)


# ------------------------------------------------------------------ main

def run(replay=None):
    V = C.Verdicts(PID, "model_checking")
    data = T.live()
    replay_atom.tabs = A.tabs_of(data)
    if replay:
        body = json.load(open(replay))
        s = body["scenario"]
        fn = {"atom": replay_atom, "case": replay_case, "shape": lambda r: replay_shape((r["cls"], r["text"]))}[s.get("_kind", "atom")]
        res = fn(s)
        print(f"replay {replay}: {res[:3]}")
        if res[0] == "violation" and C.Findings(PID).match(s.get("tags", []), res[1]) is None:
            print(f"VIOLATION property={PID} replay={replay}")
            return 1
        return 0
    wd = C.workdir(PID)
    T.write(wd, data)
    tier = C.tier()
    rnd = C.rng(3)
    devs = known_devs()
    states = trans = 0
    nobs = 0
    samples = []
    nontrivial = set()
    classes = {}

    def account(kind, recs, results, textkey="text"):
        nonlocal nobs
        for rec, res in zip(recs, results):
            st, failure, det = res[0], res[1], res[2]
            nobs += res[3] if len(res) > 3 else 1
            if st == "violation":
                scen = dict(rec, _kind=kind)
                V.fail(scen, det.get("expected"), det.get("observed"), det["clause"] + " :: " + repr(rec[textkey]),
                       tags=list(rec.get("tags", [])), failure=failure)
            elif st == "drift":
                V.drift(json.dumps(det, default=str)[:300])
            elif st == "unspecified":
                V.unspecified()
            else:
                V.ok()

    # 1. atoms over the whole live table
    foreign = ["x", "2"] if tier == "quick" else ["x", "2", "Q", ".", "_"]
    r1 = C.run_tlc(wd, "UnitAtomGen", atom_cfg(foreign, devs))
    states += r1.distinct; trans += r1.generated
    if r1.violated:
        # a design-level fact about the published tables fails (ambiguous notation / symbol ending in an exponent character)
        V.fail({"_kind": "tables", "tlc": r1.cex[:1500]}, "unique decodability of prefix o symbol over the live tables",
               r1.violated, "TLC invariant " + r1.violated + " of UnitAtomGen violated", tags=["tables"], failure="notation")
        r1.records = C.run_tlc(wd, "UnitAtomGen", strip_lemmas(atom_cfg(foreign, devs))).records
    unref = [x for x in r1.records if not x["refines"] and not x["known"]]
    if unref:
        V.notes.append(f"TLC: machine transcription differs from the ideal on {len(unref)} atom case(s) outside the known deviations, e.g. {unref[0]['text']!r}")
    res = C.pmap(replay_atom, r1.records)
    account("atom", r1.records, res)
    for x in r1.records:
        classes["atom:" + x["ideal"]["cls"]] = classes.get("atom:" + x["ideal"]["cls"], 0) + 1
        if x["kind"] != "plain" or x["ideal"]["p"]:
            nontrivial.add(x["text"])
    samples += [{k: x[k] for k in ("text", "ideal", "mach", "tags")} for x in (r1.records[100:102] + [y for y in r1.records if y["known"] and not y["refines"]][:2])]
    natom = len(r1.records)

    # 2. expression level: shapes (enum) and algebra (grammar)
    write_mc(wd, data, 8 if tier == "quick" else 8)
    r2 = C.run_tlc(wd, "UnitExprMC", expr_cfg("enum", 5 if tier == "quick" else 7, 0, devs))
    states += r2.distinct; trans += r2.generated
    if r2.violated:
        V.notes.append("TLC: solver machine with {par,mul,truediv} differs from the ideal grammar: " + r2.cex[:400])
    conc = Conc(data, rnd)
    shape_jobs = []
    for x in r2.records:
        if x["cls"] in ("ill:unbalanced", "ill:missing_operand", "wellformed") and x["shape"]:
            shape_jobs.append((x["cls"], render_shape(x["shape"], rnd, conc), x["tags"]))
    if tier == "quick" and len(shape_jobs) > 4000:
        shape_jobs = rnd.sample(shape_jobs, 4000)
    res = C.pmap(replay_shape, shape_jobs)
    account("shape", [{"cls": c, "text": t, "tags": [c] + list(tg)} for c, t, tg in shape_jobs], res)
    for c, t, tg in shape_jobs:
        classes["shape:" + c] = classes.get("shape:" + c, 0) + 1
    r3 = C.run_tlc(wd, "UnitExprMC", expr_cfg("grammar", 0, 3 if tier == "quick" else 4, devs))
    states += r3.distinct; trans += r3.generated
    if r3.violated:
        V.notes.append("TLC: exponent-map algebra / Render-Reparse lemma fails on the model: " + r3.cex[:600])
    gshapes = [x["shape"] for x in r3.records]
    missing = [s for s in SHAPES6 if s not in gshapes and sum(1 for t in s if t.startswith("a")) <= (3 if tier == "quick" else 4)]
    if missing:
        raise C.MachineryError(f"concretisation shapes not among the TLC grammar shapes: {missing}")

    # 3. concretised cases: TLC computes the expectation of every case
    cases = conc.cases(tier)
    fin = os.path.join(wd, "cases.json")
    json.dump([{"shape": c["shape"], "atoms": c["atoms"]} for c in cases], open(fin, "w"))
    r4 = C.run_tlc(wd, "UnitExprMC", expr_cfg("file", 0, 0, devs), env={"UEXPR_IN": fin})
    states += r4.distinct; trans += r4.generated
    if r4.violated:
        V.notes.append("TLC (concretised cases): machine differs from ideal outside the known deviations: " + r4.cex[:600])
        r4.records = C.run_tlc(wd, "UnitExprMC", strip_lemmas(expr_cfg("file", 0, 0, devs)), env={"UEXPR_IN": fin}).records
    recs = r4.records
    for rec in recs:
        c = cases[rec["id"] - 1]
        rec["_ckind"] = c["kind"]
        rec["_row"] = c.get("row")
    if len(recs) != len(cases):
        raise C.MachineryError(f"TLC annotated {len(recs)} of {len(cases)} concretised cases")
    res = C.pmap(replay_case, recs)
    account("case", recs, res)
    used_pairs = set()
    for rec in recs:
        classes["expr:" + rec["cls"]] = classes.get("expr:" + rec["cls"], 0) + 1
        if rec["cls"] == "wellformed":
            for x in rec["units"]:
                used_pairs.add((x["p"], x["u"]))
            if len(rec["units"]) >= 2 or rec["_ckind"] in ("def", "merge", "zerodim"):
                nontrivial.add(rec["text"])
    samples += [{k: x[k] for k in ("text", "cls", "units", "dims", "factor", "num", "render", "tags")} for x in recs[5:7] + [y for y in recs if y["_ckind"] == "def"][:1]]

    # 4. the tables are the CURRENT ones: the same custom symbol registered with different rows in consecutive
    #    unit environments (left through `with` and through close()); for each environment the tables are read
    #    again, TLC computes the expectation of the same texts, and they are replayed inside it
    nenv = 0
    try:
        from scinumtools.units import UnitEnvironment
        sym = "vfq"
        rows = [{"magnitude": 3.0, "dimensions": [1, 0, -2, 0, 0, 0, 0, 0], "prefixes": ["k", "m"]},
                {"magnitude": 0.25, "dimensions": [0, 1, 0, 0, -1, 0, 0, 0], "prefixes": ["k", "m"]},
                {"magnitude": 7.0, "dimensions": [2, 0, 0, -1, 0, 0, 0, 0], "prefixes": ["k", "m"]}]
        saved_tabs = replay_atom.tabs
        for k, row in enumerate(rows):
            env = UnitEnvironment({sym: dict(row, dimensions=list(row["dimensions"]), prefixes=list(row["prefixes"]))})
            try:
                data2 = T.live()
                wd2 = os.path.join(wd, f"env{k}"); os.makedirs(wd2, exist_ok=True)
                T.write(wd2, data2)
                write_mc(wd2, data2, 4)
                c2 = Conc(data2, rnd)
                ui = [i + 1 for i, u in enumerate(data2["units"]) if u["name"] == sym][0]
                mi = [i + 1 for i, u in enumerate(data2["units"]) if u["name"] == "m"][0]
                ecases = []
                for p in (0, c2.P["k"], c2.P["m"]):
                    for e in ((1, 1), (2, 1), (1, 2), (-1, 1), (-3, 2)):
                        ecases.append({"shape": ["a1"], "atoms": [c2.unit_atom((p, ui), e)]})
                        ecases.append({"shape": ["a1", "/", "a2"], "atoms": [c2.unit_atom((0, mi), (1, 1)), c2.unit_atom((p, ui), e)]})
                fin2 = os.path.join(wd2, "cases.json")
                json.dump(ecases, open(fin2, "w"))
                r5 = C.run_tlc(wd2, "UnitExprMC", strip_lemmas(expr_cfg("file", 0, 0, devs)), env={"UEXPR_IN": fin2})
                states += r5.distinct; trans += r5.generated
                replay_atom.tabs = A.tabs_of(data2)
                erecs = r5.records
                for rec in erecs:
                    rec["_ckind"], rec["_row"] = "env", None
                    rec["tags"] = list(rec.get("tags", [])) + ["custom_unit_environment"]
                account("case", erecs, [replay_case(rec) for rec in erecs])
                classes["expr:custom_env"] = classes.get("expr:custom_env", 0) + len(erecs)
                nenv += 1
            finally:
                replay_atom.tabs = saved_tabs
                if k % 2 == 0:
                    env.close()
                else:
                    env.__exit__(None, None, None)       # what leaving a `with` block does
    except C.MachineryError:
        raise
    except Exception as e:
        V.notes.append("custom unit environments could not be exercised: " + repr(e)[:160])
    if (r1.violated or unref or r2.violated or r3.violated or r4.violated) and V.counts["violation"] == 0:
        V.drift("a TLC machine-vs-ideal counterexample was not reproduced by the code")
    npairs = len(conc.pairs)
    V.cov.update({
        "states": states, "transitions": trans,
        "traces_validated_against_impl": natom + len(shape_jobs) + len(recs),
        "evaluations": nobs,
        "distinct_nontrivial": len(nontrivial),
        "rule": f"atoms: every unit ({len(data['units'])}) x every prefix ({len(data['prefixes'])}+none) of the live tables, plain and with "
                f"{len(foreign)} foreign characters / every extra prefix in front, 14 exponent suffixes, {len(data['sys'])} system units, 14 number "
                "literals (TLC, exhaustive); expressions: every token string of bounded length (shape classes), every grammar shape x "
                "pool assignment (algebra lemmas), and shapes concretised with table symbols so that every admissible (prefix, unit) "
                "pair occurs; non-trivial = distinct texts that carry a prefix / insertion / exponent, or expressions with >= 2 distinct units, "
                "definitions and merging cases; finally the same custom symbol registered with three different rows in consecutive unit "
                "environments, the same texts judged against the tables read inside each",
        "samples": samples, "exhaustive": True, "classes": classes,
        "pairs_used": len(used_pairs & {(data['prefixes'][p - 1]['name'] if p else '', data['units'][u - 1]['name']) for p, u in conc.pairs}),
        "pairs_total": npairs,
        "tlc": {"atoms": [r1.distinct, r1.violated or "ok"], "enum": [r2.distinct, r2.violated or "ok"],
                "grammar": [r3.distinct, r3.violated or "ok"], "file": [r4.distinct, r4.violated or "ok"],
                "machine_variant": "one-character look-behind (pinned)" if devs else "whole remainder (repaired)"},
    })
    V.assumptions += ["the tables are given: a row's factor is compared only with its own definition string (rel 1e-7, the library's MAGNITUDE_PRECISION)",
                      "prefix factors are the powers of ten of the published prefix table (docs/_static/tables/prefixes.csv)",
                      "`m+2`, `5.`, `.5` and division by a literal zero are unspecified; factors outside 1e-300..1e300 are not compared",
                      "float pow/multiplication of NumPy/Python is the ground truth for evaluating a factor term (rel 1e-12)"]
    # growth beyond the property: Fraction / Dimensions (spec/FractionDim*.tla); notes only
    V.cov["fraction_dimensions"] = FD.run(V, wd)
    V.assumptions.append("coverage.fraction_dimensions (classes Fraction and Dimensions; spec/FractionDim.tla, FractionDimMC.tla) is growth of the "
                         "specification beyond the property: its disagreements are notes, its counts are not included in states/transitions/evaluations")
    C.cleanup(PID)
    return V.finish()
