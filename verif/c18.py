"""C18 - DIP expressions compute unit-aware results under the documented priorities.

1. TLC (spec/DipExprGen.tla over spec/DipExpr.tla) enumerates token strings of the three expression
   families - numerical, logical, template - over several atom sets, checks `Refines` (the generic-solver
   machine instances build the ideal's tree; every value-level difference between the transcription of
   the comparison / template code and the ideal carries a named deviation) and prints one record per
   string: class, the ideal's expected observation (exact rational n/d*10^e in each requested unit, or a
   term over rationals and the documented functions; expected raise; truth value; segmentation), the
   machine's prediction and feature tags.
2. The harness draws deeper expressions from the grammars; TLC classifies and evaluates them too.
3. Every record is rendered to text (atoms, units and the environment come from the spec's tables) and
   given to the real NumericalSolver / LogicalSolver / TemplateSolver on an environment obtained by
   really parsing a DIP text, and - embedded in `x float = ("..") unit`, `x bool = ("..")`,
   `@case ("..")`, `x str = ("..")` - to DIP.parse().  Observation vs IDEAL = verdict, vs MACHINE = drift.

The harness holds no expectation of its own: numbers are evaluated from TLC's terms, format() output is
Python's format() as the property says.
"""
import copy, json, math, os, random, sys, warnings
from fractions import Fraction
import numpy as np
from . import common as C

warnings.filterwarnings("ignore")
PID = "C18"
META = None           # the spec's tables (atoms, nodes, units, functions), set before the pool forks
OPTS = {"open_tags": []}     # tags of the findings that are still open: they switch the machine's deviations on

NUM_CFGS = [1, 2, 3, 4, 5, 6]
LOG_CFGS = [1, 2, 3, 4, 5, 6, 7, 8, 9, 10]
TMPL_CFGS = [1, 2]
TMPL_DEEP_CFGS = [3, 4]      # whole-segment templates: several references to one node


def cfg_text(mode, maxlen, prune, source, cfgs, emit=True, emitmax=99):
    return f"""CONSTANTS
  Mode = "{mode}"
  MaxLen = {maxlen}
  Prune = {C.tla_str(bool(prune))}
  Source = "{source}"
  Emit = {C.tla_str(bool(emit))}
  Cfgs = {C.tla_str(set(cfgs))}
  EmitMax = {emitmax}
  OpenDevs = {C.tla_str(set(OPTS["open_tags"]))}
INIT Init
NEXT Next
INVARIANT Refines
CHECK_DEADLOCK FALSE
"""


# ------------------------------------------------------------------ numbers and terms

def frac(q):
    return Fraction(q["n"], q["d"]) * Fraction(10) ** q["e"]


def dec_text(fr, ft=False):
    """Exact decimal text of a fraction whose denominator is 2^a*5^b."""
    sign = "-" if fr < 0 else ""
    fr = abs(fr)
    k = 0
    while fr.denominator != 1:
        fr *= 10
        k += 1
        if k > 40:
            raise ValueError("not a finite decimal")
    digits = str(fr.numerator)
    if k:
        digits = digits.rjust(k + 1, "0")
        txt = digits[:-k] + "." + digits[-k:]
    else:
        txt = digits + (".0" if ft else "")
    return sign + txt


def atom_value(a):
    """value of a numeric atom in its own unit: n/d*10^e*(1 + k*1e-7)"""
    return Fraction(a["n"], a["d"]) * Fraction(10) ** a["e"] * (1 + Fraction(a["k"], 10 ** 7))


class Arith(Exception):
    pass


_FN = {"exp": math.exp, "ln": math.log, "log10": math.log10, "sin": math.sin, "cos": math.cos, "tan": math.tan}


U = 4.5e-16          # a few units in the last place per rounded operation


def ev_term2(t, fns):
    """Evaluate a term of the obligation language emitted by TLC (DESIGN 4.2) -> (value, absolute error bound).
    The bound is a first-order forward error analysis (every leaf and operation rounded once, the code under
    test may associate differently): it tells a well-conditioned expectation from one that floating point
    cannot deliver (tan next to a pole, ln next to 1, a cancellation feeding a non-linear function ...)."""
    op = t["op"]
    try:
        if op == "q":
            v = float(Fraction(t["n"], t["d"]) * Fraction(10) ** t["e"])
            return v, U * abs(v)
        if op.startswith("tab:"):
            v = table_unit(op[4:])
            return v, U * abs(v)
        ar = [ev_term2(x, fns) for x in t["a"]]
        a, ea = ar[0]
        b, eb = ar[1] if len(ar) > 1 else (0.0, 0.0)
        if op in ("add", "sub"):
            z = a + b if op == "add" else a - b
            # a difference at rounding level is a cancellation: exactly zero in the spec's arithmetic
            if abs(z) <= 1e-13 * max(abs(a), abs(b)):
                return 0.0, ea + eb
            return z, ea + eb + U * abs(z)
        if op == "mul":
            z = a * b
            return z, abs(a) * eb + abs(b) * ea + U * abs(z)
        if op == "div":
            if abs(b) <= 16 * eb:
                raise Arith("division by a subterm that is zero within rounding")
            z = a / b
            return z, ea / abs(b) + abs(z) * eb / abs(b) + U * abs(z)
        if op == "neg":
            return -a, ea
        if op == "pow":
            z = a ** b
            if isinstance(z, complex):
                raise Arith("complex")
            d = abs(b * a ** (b - 1)) * ea if a != 0 else ea
            if eb and a > 0:
                d += abs(z * math.log(a)) * eb
            return z, d + U * abs(z)
        if op == "f1":
            fn = fns[t["n"] - 1]["fn"]
            z = _FN[fn](a)
            d = {"exp": abs(z), "ln": 1 / abs(a) if a else float("inf"), "log10": 1 / (abs(a) * math.log(10)) if a else float("inf"),
                 "sin": abs(math.cos(a)), "cos": abs(math.sin(a)), "tan": 1 + z * z}[fn]
            return z, d * ea + U * max(abs(z), ea)
    except (ZeroDivisionError, OverflowError, ValueError) as e:
        raise Arith(str(e))
    raise ValueError("unknown term " + op)


def ev_term(t, fns):
    """value of a term; Arith when it is not well conditioned (no verdict can be based on it)"""
    v, err = ev_term2(t, fns)
    if math.isnan(v) or math.isinf(v) or math.isnan(err):
        raise Arith("not finite")
    if v != 0 and err > 1e-11 * abs(v):
        raise Arith("ill-conditioned: error bound %.1e on %.3e" % (err, v))
    return v


_TAB = {}


def table_unit(u):
    """magnitude of a unit in the library's own unit table (given, DESIGN 4.1), in the coherent unit of its dimension"""
    if u not in _TAB:
        from scinumtools.units import settings as S
        _TAB[u] = float(S.UNIT_STANDARD[u].magnitude)
    return _TAB[u]


def term_has_fn(t):
    return t["op"] == "f1" or any(term_has_fn(x) for x in t["a"])


def out_value(out, fns):
    """expected number of an `out` record: ('val', x) | ('raise',) | ('skip',) | ('arith',)"""
    if out["k"] == "q":
        return ("val", float(frac(out["q"])))
    if out["k"] == "t":
        try:
            x = ev_term(out["t"], fns)
        except Arith:
            return ("arith",)
        if math.isnan(x) or math.isinf(x) or abs(x) > 1e250:
            return ("arith",)
        return ("val", x)
    return (out["k"],)


def close(obs, exp, scale):
    try:
        obs = float(obs)
    except Exception:
        return False
    if math.isnan(obs):
        return False
    # relative 1e-9; an exactly-zero expectation (cancellation) is judged on the scale of one base unit
    return abs(obs - exp) <= 1e-9 * max(abs(exp), abs(obs)) + (1e-9 if exp == 0 else 1e-13) * scale


# ------------------------------------------------------------------ rendering (atoms, units, environment)

def unit_text(us, dim):
    parts = []
    for u, p in zip(us, dim):
        if p == 0 or u == "":
            continue
        parts.append(META["units"][u] + ("" if p == 1 else str(p)))
    return "*".join(parts) if parts else None


def atom_text(tok):
    a = META["atoms"][tok]
    k = a["kind"]
    if k in ("fnode", "inode", "bnode"):
        return "{?" + a["name"] + "}"
    if k == "def":
        return "!{?" + a["name"] + "}"
    if k == "blit":
        return "true" if a["bv"] else "false"
    txt = dec_text(atom_value(a), a["ft"])
    return txt + (" " + META["units"][a["u"]] if a["u"] else "")


def node_line(tok, decoy=False, assign=False):
    """definition of a node; decoy: with the spec's decoy value; assign: the later re-assignment `name = value`"""
    a = META["atoms"][tok]
    head = a["name"] if assign else None
    if a["kind"] == "bnode":
        val = a["bv"] != decoy
        return f"{head or a['name'] + ' bool'} = {'true' if val else 'false'}"
    ty = "float" if a["kind"] == "fnode" else "int"
    v = atom_value(dict(a, n=META["decoy"][tok])) if decoy else atom_value(a)
    return f"{head or a['name'] + ' ' + ty} = {dec_text(v, False)}" + (" " + META["units"][a["u"]] if a["u"] else "")


def extra_line(x, decoy=False, assign=False):
    add = x["dadd"] if decoy else 0
    unit = " " + x["u"] if x["u"] else ""
    if x["ty"] == "str":
        return f"{x['name']}{'' if assign else ' str'} = '{x['dstr'] if decoy else x['str']}'"
    if x["ty"] == "float2":
        vals = ",".join("[" + ",".join(dec_text(frac(q) + add) for q in row) + "]" for row in x["arr"])
        return f"{x['name']}{'' if assign else ' float[%d,%d]' % (len(x['arr']), len(x['arr'][0]))} = [{vals}]" + unit
    vals = ",".join(dec_text(frac(q) + add) for q in x["arr"])
    return f"{x['name']}{'' if assign else ' float[%d]' % len(x['arr'])} = [{vals}]" + unit


def env_text(kind, only=None, extras=True, modified=False):
    """DIP text defining the nodes (and, for kind 'custom', the custom unit) the spec's atoms refer to.
    modified: every node is first defined with the spec's decoy value and re-assigned afterwards."""
    lines, later = [], []
    if only is not None:
        lines.append("zfill int = 1")      # a reference into a text without any node is C17's subject
    if kind == "custom":
        # the modified environment writes the custom unit with its alternative, equivalent definition (200 cm for 2 m)
        for cu in (META["customalt"] if modified else META["custom"]):
            lines.append(f"$unit {cu['name']} = {cu['n']} {cu['unit']}")
    toks = sorted(META["nodes"]) + (sorted(META["cnodes"]) if kind == "custom" else [])
    for t in toks:
        if only is None or META["atoms"][t]["name"] in only:
            lines.append(node_line(t, decoy=modified))
            if modified:
                later.append(node_line(t, assign=True))
    if extras:
        for x in META["extra"]:
            if only is None or x["name"] in only:
                lines.append(extra_line(x, decoy=modified))
                if modified:
                    later.append(extra_line(x, assign=True))
    return "\n".join(lines + later) + "\n"


def refs_of(tokens):
    out = set()
    for t in tokens:
        a = META["atoms"].get(t)
        if a and a["name"]:
            out.add(a["name"])
    return out


_ENVS = {}


def parse_text(text):
    from scinumtools.dip import DIP
    from . import dip_adapter
    dip_adapter.speedup()        # DIP() looks up its caller with inspect.stack(): 90 % of a small parse
    with DIP() as dip:
        dip.add_string(text)
        return dip.parse()


def get_env(kind, private=False, modified=False):
    """the environment parsed from the spec's node list; a private copy where the solver mutates nodes
    (comparisons convert their left operand in place)"""
    key = (os.getpid(), kind, modified)
    if key not in _ENVS:
        _ENVS[key] = parse_text(env_text(kind, modified=modified))
    return copy.deepcopy(_ENVS[key]) if private else _ENVS[key]


def clean_units():
    """Custom units must not survive a case (C09's property; here only to keep cases independent)."""
    from scinumtools.units import settings as S
    left = [k for k in list(S.UNIT_STANDARD.keys()) if any(k == "[" + cu["name"] + "]" for cu in META["custom"])]
    for k in left:
        del S.UNIT_STANDARD[k]
    return len(left)


NUM_OP = {"+": " + ", "-": " - ", "*": " * ", "/": " / "}


def render_num(tokens, fns, layout):
    out = []
    i1 = 0
    pad = "" if layout == "single" else " "
    for j, t in enumerate(tokens):
        if j and t in META["atoms"] and tokens[j - 1] in META["atoms"]:
            out.append(" ")
        if t in NUM_OP:
            out.append(pad + NUM_OP[t] + pad)
        elif t == "(":
            out.append("(" + pad)
        elif t == "f1(":
            out.append(fns[i1]["text"] + pad); i1 += 1
        elif t == "pow(":
            out.append("pow(" + pad)
        elif t == ")":
            out.append(pad + ")")
        elif t == ",":
            out.append(pad + "," + pad if layout != "single" else ", ")
        elif t == "**":
            out.append(" ** ")
        else:
            out.append(atom_text(t))
    return "".join(out)


def render_log(tokens, layout):
    pad = " " if layout == "single" else "  "
    s = ""
    prev = None
    for t in tokens:
        w = atom_text(t) if t in META["atoms"] else t
        if prev is None or prev == "~" or prev == "(" or t == ")":
            s += w
        else:
            s += pad + w
        prev = t
    return s


def render_tmpl(tokens):
    return "".join(META["tplain"][t] for t in tokens)


# ------------------------------------------------------------------ observation of the real code

MOD = [False]        # the record being replayed uses the environment with re-assigned nodes


def obs_num(kind, text, unit):
    """NumericalSolver(env).solve(text, unit) -> ('val', float) | ('err', name)"""
    from scinumtools.dip.solvers import NumericalSolver
    env = get_env(kind, modified=MOD[0])
    try:
        with NumericalSolver(env) as p:
            r = p.solve(text, unit)
        if unit is None:
            if r is None:
                return ("none", None)
            if not r.baseunits.nodim:
                return ("val", float("nan"))
            return ("val", float(r.value()))
        return ("val", float(r))
    except Exception as e:
        return ("err", type(e).__name__ + ":" + str(e.args[0] if e.args else "")[:60])
    finally:
        clean_units()


def obs_num_base(kind, text, mdim):
    """value of the expression in the coherent base units m, s, g (for the drift comparison)"""
    unit = unit_text(["m", "s", "g", "rad"], mdim)
    return obs_num(kind, text, unit)


def obs_log(kind, text):
    from scinumtools.dip.solvers import LogicalSolver
    env = get_env(kind, private=True, modified=MOD[0])
    try:
        with LogicalSolver(env) as p:
            r = p.solve(text)
        v = r.value if hasattr(r, "value") else r       # numpy.bool_ / bool / BooleanType: the truth value
        if not isinstance(v, (bool, np.bool_)):
            return ("odd", repr(v))
        return ("val", bool(v))
    except Exception as e:
        return ("err", type(e).__name__ + ":" + str(e.args[0] if e.args else "")[:60])
    finally:
        clean_units()


def obs_tmpl(text):
    from scinumtools.dip.solvers import TemplateSolver
    key = (os.getpid(), "tmpl", MOD[0])
    if key not in _ENVS:                         # the constructor looks up its caller with inspect.stack()
        _ENVS[key] = TemplateSolver(get_env("plain", modified=MOD[0]))
    try:
        with _ENVS[key] as p:
            return ("val", p.solve(text))
    except Exception as e:
        return ("err", type(e).__name__ + ":" + str(e.args[0] if e.args else "")[:60])


def obs_parse(text, name):
    """DIP.parse() of a whole text; the value of node `name` -> ('val', v) | ('err', ..) | ('missing',)"""
    from scinumtools.dip.settings import Format
    try:
        env = parse_text(text)
        data = env.data(format=Format.TUPLE)
        if name not in data:
            return ("missing", None)
        v = data[name]
        return ("val", v[0] if isinstance(v, tuple) else v)
    except Exception as e:
        return ("err", type(e).__name__ + ":" + str(e.args[0] if e.args else "")[:60])
    finally:
        clean_units()


# ------------------------------------------------------------------ template expectation

def py_value(name):
    """The Python value of a node of the spec's environment (what `format()` is applied to)."""
    for t in META["nodes"]:
        a = META["atoms"][t]
        if a["name"] == name:
            if a["kind"] == "bnode":
                return a["bv"]
            v = atom_value(a)
            return float(v) if a["kind"] == "fnode" else int(v)
    for x in META["extra"]:
        if x["name"] == name:
            if x["ty"] == "str":
                return x["str"]
            if x["ty"] == "float2":
                return [[float(frac(q)) for q in row] for row in x["arr"]]
            return [float(frac(q)) for q in x["arr"]]
    raise KeyError(name)


def seg_string(segs):
    """segments -> ('val', text) | ('raise',) : plain text copied, references formatted by format()"""
    out = ""
    for sg in segs:
        if sg["k"] == "text":
            out += sg["s"]
        elif sg["k"] == "ref":
            try:
                v = py_value(sg["ref"])
                for lo, hi in sg["sl"]:              # one pair per dimension (indices; a range only alone)
                    v = v[lo] if lo == hi else v[lo:hi]
                out += format(v, sg["fmt"])
            except Exception:
                return ("raise",)
        elif sg["k"] == "err":
            return ("raise",)
        else:
            return ("skip",)
    return ("val", out)


# ------------------------------------------------------------------ replay of one record

def F(status, **kw):
    d = {"status": status}
    d.update(kw)
    return d


def replay_num(rec):
    res = []
    rnd = random.Random(rec["_seed"])
    toks = rec["s"]
    nfn = sum(1 for t in toks if t == "f1(")
    fcls = {int(i): c for i, c in rec.get("fcls", [])}
    fns = [rnd.choice([f for f in META["fn1"] if fcls.get(k + 1, "any") == "any" or f["cls"] == "trig"])
           for k in range(nfn)]
    ftags = sorted({t for f in fns for t in f["tags"]})
    base_tags = ["num"] + list(rec["tags"]) + ftags
    cls = rec["cls"]
    kind = rec["env"]
    layouts = ["single", "wide"] if cls in ("value", "raise") else ["single"]
    text = render_num(toks, fns, "single")
    if cls == "value":
        for ri, rq in enumerate(rec["reqs"]):
            unit = unit_text(rq["us"], rq["dim"])
            exp = out_value(rq["out"], fns)
            scale = abs(float(frac(rq["sc"]))) ** -1 if rq["sc"]["d"] else 1.0
            lay = layouts[(ri + rec["_seed"]) % len(layouts)]
            txt = render_num(toks, fns, lay)
            if exp[0] in ("skip", "arith"):
                res.append(F("unspecified")); continue
            o = obs_num(kind, txt, unit)
            scen = {"expr": txt, "unit": unit, "env": kind}
            if exp[0] == "raise":
                if o[0] == "err":
                    res.append(F("ok"))
                else:
                    res.append(F("fail", failure="no_raise", tags=base_tags + ["direct", "wrong_unit_request"], scenario=scen,
                                 expected="an exception (requested unit of another dimension)", observed=list(o),
                                 clause="the result cannot be expressed in a unit of another dimension"))
                continue
            if o[0] == "val" and close(o[1], exp[1], scale):
                res.append(F("ok"))
            else:
                res.append(F("fail", failure="raised" if o[0] == "err" else "wrong_value", tags=base_tags + ["direct"],
                             scenario=scen, expected=exp[1], observed=list(o),
                             clause="numerical expression: result in the requested unit equals the exact result"))
        # embedded in a node definition
        if rec["_embed"] and rec["reqs"]:
            rq = rec["reqs"][rec["_seed"] % (len(rec["reqs"]))]
            unit = unit_text(rq["us"], rq["dim"])
            exp = out_value(rq["out"], fns)
            scale = abs(float(frac(rq["sc"]))) ** -1 if rq["sc"]["d"] else 1.0
            if exp[0] == "val" and exp[1] == 0:
                res.append(F("unspecified"))       # a zero value in a definition is C14's subject (falsy values)
            elif exp[0] in ("val", "raise"):
                envt = env_text(kind, only=refs_of(toks), extras=False, modified=MOD[0])
                isint = exp[0] == "val" and float(exp[1]).is_integer() and rq["out"]["k"] == "q" and abs(exp[1]) < 1e9
                ty = "int" if (isint and rec["_seed"] % 2) else "float"
                q = '"' if rec["_seed"] % 3 else "'"
                line = f"x {ty} = ({q}{text}{q})" + (" " + unit if unit else "")
                o = obs_parse(envt + line + "\n", "x")
                scen = {"text": envt + line, "env": kind}
                etags = base_tags + ["embedded"] + ([] if unit else ["node_without_unit"]) + \
                        (["wrong_unit_request"] if exp[0] == "raise" else [])
                if exp[0] == "raise":
                    res.append(F("ok") if o[0] == "err" else
                               F("fail", failure="no_raise", tags=etags, scenario=scen, expected="an exception",
                                 observed=list(o), clause="node unit of another dimension than the expression result"))
                elif o[0] == "val" and close(o[1], exp[1], scale):
                    res.append(F("ok"))
                else:
                    res.append(F("fail", failure="raised" if o[0] in ("err", "missing") else "wrong_value", tags=etags,
                                 scenario=scen, expected=exp[1], observed=[o[0], repr(o[1])],
                                 clause="numerical expression in a node definition: node value = exact result in the node's unit"))
    elif cls == "raise":
        for lay in layouts:
            txt = render_num(toks, fns, lay)
            unit = None if lay == "single" else "m"
            o = obs_num(kind, txt, unit)
            if o[0] == "err":
                res.append(F("ok"))
            else:
                res.append(F("fail", failure="no_raise", tags=base_tags + ["direct", "dimension_mismatch"],
                             scenario={"expr": txt, "unit": unit, "env": kind}, expected="an exception", observed=list(o),
                             clause="operands of different dimension cannot be added or subtracted"))
    else:
        res.append(F("unspecified"))
    # drift: the machine's prediction (value in base units / raise) against the code
    # (for strings outside the grammar a predicted raise is not compared: the DIP atom parser ignores
    #  trailing text such as a stray parenthesis, which the token-level machine does not model)
    m = rec["mach"]
    # (nor a string with a blank-delimited operator at the edge of an argument: the argument text is stripped,
    #  so ' - ' can only be written as an operator in the middle of a text)
    edge = any((toks[i] in NUM_OP) and (i == 0 or toks[i - 1] in ("(", "f1(", "pow(", ",") or i + 1 == len(toks)
                                        or toks[i + 1] in (")", ",")) for i in range(len(toks)))
    custom_broken = "custom_unit_env" in rec["tags"] and "custom_unit_env" in OPTS["open_tags"]
    if m["k"] != "skip" and not custom_broken and not (cls == "ill" and (m["k"] == "raise" or edge)):
        mexp = out_value(m, fns)
        if mexp[0] in ("val", "raise"):
            o = obs_num_base(kind, text, rec["mdim"]) if mexp[0] == "val" else obs_num(kind, text, None)
            okm = (o[0] == "err") if mexp[0] == "raise" else (o[0] == "val" and close(o[1], mexp[1], 1.0))
            if not okm and not any(r["status"] == "fail" for r in res):
                res.append(F("drift", detail={"expr": text, "machine": mexp, "observed": list(o)}))
    return res


def replay_log(rec):
    res = []
    toks = rec["s"]
    kind = rec["env"]
    cls = rec["cls"]
    base_tags = ["log"] + list(rec["tags"])
    text = render_log(toks, "single")
    first = None
    if cls == "value":
        exp = rec["ideal"] == "T"
        for lay in ("single", "wide"):
            txt = render_log(toks, lay)
            o = obs_log(kind, txt)
            if first is None:
                first = o
            if o[0] == "val" and o[1] == exp:
                res.append(F("ok"))
            else:
                res.append(F("fail", failure="raised" if o[0] == "err" else "wrong_value", tags=base_tags + ["direct"],
                             scenario={"expr": txt, "env": kind}, expected=exp, observed=list(o),
                             clause="logical expression: truth value under the documented priorities, unit-aware comparisons, 1e-6 tolerance"))
        if rec["_embed"]:
            envt = env_text(kind, only=refs_of(toks), extras=False, modified=MOD[0])
            which = rec["_seed"] % 2
            if which == 0:
                body = envt + f'x bool = ("{text}")\n'
                o = obs_parse(body, "x")
                got = o[1] if o[0] == "val" else None
            else:
                body = envt + f'@case ("{text}")\n  y int = 1\n@else\n  y int = 2\n@end\n'
                o = obs_parse(body, "y")
                got = (o[1] == 1) if o[0] == "val" else None
            good = o[0] == "val" and isinstance(got, (bool, np.bool_)) and bool(got) == exp
            if good:
                res.append(F("ok"))
            else:
                res.append(F("fail", failure="raised" if o[0] in ("err", "missing") else "wrong_value",
                             tags=base_tags + ["embedded", "bool_node" if which == 0 else "case"],
                             scenario={"text": body, "env": kind}, expected=exp, observed=[o[0], repr(o[1])],
                             clause="logical expression in a bool node / @case condition"))
    else:
        res.append(F("unspecified"))
    # drift
    # (outside the grammar a predicted raise is not compared: the atom parser is more lenient than the model)
    m = rec["mach"]
    if m != "U" and not (cls == "ill" and m == "E"):
        o = first or obs_log(kind, text)
        okm = (o[0] == "err") if m == "E" else (o[0] == "val" and o[1] == (m == "T"))
        if not okm:
            res.append(F("drift", detail={"expr": text, "machine": m, "observed": list(o)}))
    return res


def replay_tmpl(rec):
    res = []
    toks = rec["s"]
    text = render_tmpl(toks)
    base_tags = ["tmpl"] + list(rec["tags"])
    o = obs_tmpl(text)
    if rec["cls"] == "value":
        exp = seg_string(rec["ideal"])
        checks = [("direct", o, {"template": text})]
        if rec["_embed"] and '"' not in text:
            names = {sg["ref"] for sg in rec["ideal"] + rec["mach"] if sg["k"] == "ref"} | \
                    {n for n in ("a", "b", "s", "v", "mm") if "{?" + n + "}" in text}
            body = env_text("plain", only=names, modified=MOD[0]) + f'x str = ("{text}")\n'
            checks.append(("embedded", obs_parse(body, "x"), {"text": body}))
        for how, ob, scen in checks:
            if exp[0] == "raise":
                good = ob[0] == "err"
            else:
                good = ob[0] == "val" and ob[1] == exp[1]
            if good:
                res.append(F("ok"))
            else:
                res.append(F("fail", failure="raised" if ob[0] in ("err", "missing") else ("no_raise" if exp[0] == "raise" else "wrong_value"),
                             tags=base_tags + [how], scenario=scen, expected=list(exp), observed=[ob[0], repr(ob[1])],
                             clause="template: every {{reference}[slice]:format} replaced by format(value[slice], format), all other text copied"))
    else:
        res.append(F("unspecified"))
    mexp = seg_string(rec["mach"])
    if mexp[0] != "skip":
        okm = (o[0] == "err") if mexp[0] == "raise" else (o[0] == "val" and o[1] == mexp[1])
        if not okm:
            res.append(F("drift", detail={"template": text, "machine": list(mexp), "observed": list(o)}))
    return res


def replay_record(rec):
    MOD[0] = bool(rec.get("_mod"))
    if MOD[0]:
        rec = dict(rec, tags=list(rec["tags"]) + ["modified_nodes"])
    try:
        if rec["mode"] == "num":
            return replay_num(rec)
        if rec["mode"] == "log":
            return replay_log(rec)
        return replay_tmpl(rec)
    finally:
        clean_units()


# ------------------------------------------------------------------ deeper expressions from the grammars

def deep_num(rnd, atoms, budget):
    def expr(b):
        out = term(b)
        while b[0] > 2 and rnd.random() < 0.5:
            b[0] -= 2
            out += [rnd.choice("+-")] + term(b)
        return out

    def term(b):
        out = prim(b)
        while b[0] > 2 and rnd.random() < 0.5:
            b[0] -= 2
            out += [rnd.choice("*/")] + prim(b)
        return out

    def prim(b):
        r = rnd.random()
        if b[0] < 3 or r < 0.6:
            return [rnd.choice(atoms)]
        b[0] -= 2
        if r < 0.8:
            return ["("] + expr(b) + [")"]
        if r < 0.9:
            return ["f1("] + expr(b) + [")"]
        b[0] -= 2
        return ["pow("] + expr(b) + [","] + expr(b) + [")"]
    return expr([budget])


def deep_log(rnd, atoms, budget):
    nums = [t for t in atoms if META["atoms"][t]["kind"] in ("fnode", "inode", "lit")]
    bools = [t for t in atoms if t not in nums]
    cmpops = ["==", "!=", "<=", ">=", "<", ">"]

    def orx(b):
        out = andx(b)
        while b[0] > 3 and rnd.random() < 0.45:
            b[0] -= 2
            out += ["||"] + andx(b)
        return out

    def andx(b):
        out = notx(b)
        while b[0] > 3 and rnd.random() < 0.45:
            b[0] -= 2
            out += ["&&"] + notx(b)
        return out

    def notx(b):
        if rnd.random() < 0.25:
            b[0] -= 1
            return ["~"] + cmpx(b)
        return cmpx(b)

    def cmpx(b):
        r = rnd.random()
        if r < 0.6 and len(nums) >= 1:
            b[0] -= 3
            return [rnd.choice(nums), rnd.choice(cmpops), rnd.choice(nums)]
        if r < 0.75 and bools:
            b[0] -= 3
            return [rnd.choice(bools), rnd.choice(["==", "!="]), rnd.choice(bools)]
        if r < 0.9 and b[0] > 4:
            b[0] -= 2
            return ["("] + orx(b) + [")"]
        b[0] -= 1
        return [rnd.choice(bools)] if bools else [rnd.choice(nums), "==", rnd.choice(nums)]
    return orx([budget])


def deep_items(mode, n, seed, cfg_atoms):
    rnd = random.Random(seed)
    out, seen = [], set()
    tries = 0
    while len(out) < n and tries < 50 * n:
        tries += 1
        ci = rnd.choice(sorted(cfg_atoms))
        atoms = sorted(cfg_atoms[ci])
        s = (deep_num if mode == "num" else deep_log)(rnd, atoms, rnd.choice([8, 10, 12, 14]))
        if not (8 <= len(s) <= 15) or (ci, tuple(s)) in seen:
            continue
        seen.add((ci, tuple(s)))
        out.append({"ci": ci, "s": s})
    return out


# ------------------------------------------------------------------ main

CFG_ATOMS = {
    # used only to draw deeper strings; the sets themselves are checked against the spec's (a token TLC
    # does not know would make it fail, which is a machinery error)
    "num": {1: ["a", "150cm", "2"], 2: ["a", "t", "-5cm"], 3: ["c", ".002km", "k"], 4: ["e", "1.5len", "a"],
            5: ["f", "w", "90deg"], 6: ["w", "500mrad", "45deg"]},
    "log": {1: ["a", "300cm", "3m+5", "d", "!z"], 2: ["a", "3m+12", ".003km-20", "q", "true"],
            3: ["b", "200cm", "250cm", "f", "d"], 4: ["j", "2", "2.0m", "b", "false"], 5: ["f", "g", "h", "!a", "q"],
            6: ["e", "8m", "1.5len", "a", "d"], 7: ["a", "3", "3s", "3m-9", "3m+10"], 8: ["3m", "300cm", "4m", "c", "true"],
            9: ["n", "l", "b", "1.5km", "d"], 10: ["r", "298.15K", "77degF", "300K", "d"]},
}


def plan(t, sd=0):
    """TLC runs of a tier: (mode, maxlen, pruned to the grammar, atom sets, print records up to length).
    Grammatical numerical expressions have odd length (k atoms, k-1 operators or commas, bracket pairs)."""
    if t == "quick":
        deep = 1 + sd % 3                   # one of the plain atom sets goes to 7 tokens, by seed
        return [("num", 4, False, [1, 2, 3, 4], 3), ("num", 5, True, [c for c in NUM_CFGS if c != deep], 99),
                ("num", 7, True, [deep], 99),
                ("log", 3, False, [1, 3], 3), ("log", 5, True, LOG_CFGS, 99),
                ("tmpl", 5, False, TMPL_CFGS, 4), ("tmpl", 9, True, TMPL_DEEP_CFGS, 99)], {"num": 600, "log": 600}
    deep = [1 + sd % 10]                    # one logical atom set goes to 7 tokens, by seed
    return [("num", 5, False, [1, 2, 3, 4], 3), ("num", 7, True, NUM_CFGS, 99),
            ("log", 4, False, LOG_CFGS, 3), ("log", 6, True, [c for c in LOG_CFGS if c not in deep], 99),
            ("log", 7, True, deep, 99),
            ("tmpl", 6, False, TMPL_CFGS, 5), ("tmpl", 11, True, TMPL_DEEP_CFGS, 99)], {"num": 6000, "log": 6000}


def run(replay=None):
    global META
    V = C.Verdicts(PID, "model_checking")
    wd = C.workdir(PID)
    t = C.tier()
    sd = C.seed()
    runs, ndeep = plan(t, sd)
    closed = set(filter(None, os.environ.get("VERIF_C18_CLOSED", "").split(",")))   # trial of a repair: treat as fixed
    if closed:
        V.findings.open = [f for f in V.findings.open if not (set(f.get("tags", [])) & closed)]
    OPTS["open_tags"] = sorted({tg for f in V.findings.open for tg in f.get("tags", [])})
    only = os.environ.get("VERIF_C18_MODES")          # development aid: restrict to some families
    if only:
        runs = [r for r in runs if r[0] in only.split(",")]
        ndeep = {k: (v if k in only.split(",") else 0) for k, v in ndeep.items()}
    if replay:
        body = json.load(open(replay))
        r0 = C.run_tlc(wd, "DipExprGen", cfg_text("tmpl", 0, False, "enum", [1]))
        META = [r for r in r0.records if r.get("mode") == "meta"][0]
        rec = body["scenario"]["record"]
        out = replay_record(rec)
        bad = [r for r in out if r["status"] == "fail" and V.findings.match(r["tags"], r["failure"]) is None]
        print(f"replay {replay}: {[r['status'] for r in out]}")
        C.cleanup(PID)
        if bad:
            print(f"VIOLATION property={PID} replay={replay}")
            return 1
        return 0
    recs = []
    states = trans = 0
    refines_bad = []
    per_run = []
    # the TLC runs are independent: a few at a time, sharing the cores (JVM start-up dominates the small ones)
    from concurrent.futures import ThreadPoolExecutor
    C.run_tlc(wd, "DipExprGen", cfg_text("tmpl", 0, False, "enum", [1], emit=False))      # copies the specs once
    par = max(1, min(4, len(runs)))
    wk = max(1, C.NCPU // par)

    def one(run_):
        mode, maxlen, prune, cfgs, emitmax = run_
        # several JVMs run side by side: a bounded heap each (the largest run has about 1e6 states)
        return C.run_tlc(wd, "DipExprGen", cfg_text(mode, maxlen, prune, "enum", cfgs, emitmax=emitmax),
                         workers=wk, copy_specs=False, env={"JAVA_TOOL_OPTIONS": "-Xmx5g"})
    with ThreadPoolExecutor(par) as ex:
        results = list(ex.map(one, runs))
    for (mode, maxlen, prune, cfgs, emitmax), r in zip(runs, results):
        if r.violated:
            refines_bad.append(f"{mode}/{maxlen}/{prune}: " + r.cex[:400])
        for x in r.records:
            if x.get("mode") == "meta":
                META = x
            else:
                x["_src"] = f"{mode}:{'deep' if prune else 'all'}<={maxlen}"
                recs.append(x)
        states += r.distinct; trans += r.generated
        per_run.append({"mode": mode, "maxlen": maxlen, "pruned_to_grammar": prune, "atom_sets": len(cfgs),
                        "records_up_to": maxlen if prune else emitmax,
                        "states": r.distinct, "wall_s": round(r.wall, 1)})
    if META is None:
        raise C.MachineryError("TLC printed no meta record")
    # the atom sets used for drawing deeper strings must be the spec's
    for mode in ("num", "log"):
        for ci, atoms in CFG_ATOMS[mode].items():
            for a in atoms:
                if a not in META["atoms"]:
                    raise C.MachineryError(f"atom {a} unknown to the spec")
    for mode in ("num", "log"):
        if not ndeep[mode]:
            continue
        items = deep_items(mode, ndeep[mode], sd * 31 + (1 if mode == "num" else 2), CFG_ATOMS[mode])
        fin = os.path.join(wd, f"deep_{mode}.json")
        json.dump(items, open(fin, "w"))
        r = C.run_tlc(wd, "DipExprGen", cfg_text(mode, 0, True, "file", [1]), env={"DIPEXPR_IN": fin}, copy_specs=False)
        if r.violated:
            refines_bad.append(f"{mode}/file: " + r.cex[:400])
        for x in r.records:
            if x.get("mode") != "meta":
                x["_src"] = f"{mode}:drawn 8..15"
                recs.append(x)
        states += r.distinct; trans += r.generated
        per_run.append({"mode": mode, "source": "harness-drawn, TLC-evaluated", "strings": len(items),
                        "states": r.distinct, "wall_s": round(r.wall, 1)})
    # the same string can be reached by two runs (all strings <= L and the pruned enumeration): keep one
    seen = set()
    uniq = []
    for x in recs:
        key = (x["mode"], x["ci"], tuple(x["s"]))
        if key in seen:
            continue
        seen.add(key); uniq.append(x)
    recs = uniq
    every = 4 if t == "quick" else 1
    for i, x in enumerate(recs):
        x["_seed"] = sd * 7919 + i
        x["_embed"] = (i + sd) % every == 0
        x["_mod"] = (i // 2 + sd) % 2 == 1         # every other pair of records: nodes re-assigned after definition
    res = C.pmap(replay_record, recs)
    classes = {}
    features = {}
    nontrivial = set()
    evaluations = 0
    fails_by_tag = {}
    samples = []
    for rec, outs in zip(recs, res):
        key = rec["mode"] + ":" + rec["cls"]
        classes[key] = classes.get(key, 0) + 1
        # which branches of the spec the explored strings took (classes, named deviations, machine outcomes)
        feats = [rec["mode"] + ":tag:" + tg for tg in rec["tags"]]
        if rec["mode"] == "log":
            feats += ["log:ideal:" + (rec["ideal"] or "-"), "log:machine:" + rec["mach"]]
        elif rec["mode"] == "num":
            feats += ["num:machine:" + rec["mach"]["k"]] + ["num:expect:" + rq["out"]["k"] for rq in rec["reqs"]]
        else:
            feats += ["tmpl:machine:" + sg["k"] for sg in rec["mach"]] + ["tmpl:ideal:" + sg["k"] for sg in rec["ideal"]]
        for ft in set(feats):
            features[ft] = features.get(ft, 0) + 1
        if rec["cls"] in ("value", "raise") and len(rec["s"]) >= 3:
            nontrivial.add((rec["mode"], rec["ci"], tuple(rec["s"])))
        for o in outs:
            evaluations += 1
            st = o["status"]
            if st == "ok":
                V.ok()
            elif st == "unspecified":
                V.unspecified()
            elif st == "drift":
                V.drift(json.dumps(o["detail"], default=str)[:300])
            else:
                scen = dict(o["scenario"])
                scen["record"] = {k: rec[k] for k in rec if k != "_src"}
                V.fail(scen, o["expected"], o["observed"], o["clause"], tags=o["tags"], failure=o["failure"])
    if refines_bad:
        for b in refines_bad[:3]:
            V.notes.append("TLC Refines counterexample: " + b)
        if V.counts["violation"] == 0:
            V.drift("TLC Refines counterexample (machine spec vs ideal) not reproduced as a violation by the code")
    for rec in recs[:: max(1, len(recs) // 6)][:6]:
        samples.append({"mode": rec["mode"], "tokens": rec["s"], "class": rec["cls"],
                        "text": (render_num(rec["s"], [META["fn1"][0]] * 9, "single") if rec["mode"] == "num"
                                 else render_log(rec["s"], "single") if rec["mode"] == "log" else render_tmpl(rec["s"])),
                        "expected": rec.get("reqs", rec.get("ideal"))[:1] if isinstance(rec.get("reqs", rec.get("ideal")), list)
                        else rec.get("ideal")})
    V.cov.update({
        "states": states, "transitions": trans,
        "traces_validated_against_impl": len(recs),
        "evaluations": evaluations,
        "distinct_nontrivial": len(nontrivial),
        "rule": "TLC-enumerated token strings of the numerical / logical / template families (all strings up to the short "
                "bound, every grammatical expression up to the deep bound, per atom set) plus harness-drawn expressions of "
                "8..15 tokens evaluated by TLC; each replayed through the solver classes (two blank layouts, every requested "
                "unit) and embedded in node definitions / @case; non-trivial = distinct expressions with a decided expectation "
                "(value or raise) and >= 3 tokens",
        "samples": samples,
        "exhaustive": True,
        "classes": classes,
        "spec_branches_taken": dict(sorted(features.items())),
        "tlc_runs": per_run,
        "tlc_refines": "ok" if not refines_bad else "counterexample",
        "known_finding_cases": dict(V.findings.hits),
    })
    V.assumptions += [
        "Quantity arithmetic and unit conversion themselves are C04/C06's subject; here their composition by the solvers is checked",
        "the exact-ratio units m cm km s ms g kg and the custom unit [len] = 2 m stand for all linear units",
        "functions: only dimensionless arguments (the documentation requires them); pow with a dimensionless exponent",
        "comparison tolerance: equal iff |k1-k2| <= 9 on the 1e-7 scale, different iff >= 12; 10..11, strict comparisons of values "
        "equal within the tolerance, comparisons across dimensions and a unit-less literal against a dimensional value are not decided",
        "a zero result assigned to a node is not judged here (falsy values are C14's subject)",
        "templates: '{' directly followed by '{' that does not open a {{?ref}..} segment is not decided",
    ]
    C.cleanup(PID)
    return V.finish()
