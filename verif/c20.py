"""C20 - table, row and grid helpers behave like their simple models.

Specification: spec/Helpers.tla (ideal + machine of ParameterTable keyed / list, RowCollector in four
configurations, DataPlotGrid, DataCombination), spec/HelpersMC.tla (lock-step state machine, refinement
invariants, scenario emission), spec/HelpersTrace.tla (validation of recorded executions).

1. TLC, complete state graph (MaxDepth = 0): machine refines ideal in every reachable state under every
   operation; emits one record per state = what every public accessor must return there, and one record
   per grid size / list of item lists with the expected layout / product.
2. TLC, all operation sequences of a fixed length (history variable): one record per sequence with the
   ideal's outcome and state after every step.  Every sequence is replayed on a real object and every
   public accessor is compared after every operation (expensive pandas conversions: after the last one).
   sort with ties: the real behaviour must be one of the behaviours TLC explored for that sequence.
3. Seeded random operation sequences of up to 40 operations are executed on real objects, logged
   (arguments, error status, all accessors, private state) and validated by TLC as behaviours of the spec;
   all grid sizes and random item lists likewise.  Deliberately corrupted logs must be rejected.
4. Sensitivity: the "a failed call changes nothing" invariants must be violated (only) by the two named
   partial failures of the machine.

Verdict: VIOLATION iff a public accessor / error status contradicts the IDEAL on a specified operation
sequence; private-state or machine-only disagreement is drift.
"""
import io, json, os, re, sys, threading, zlib
from . import common as C
from . import c20_helpers2 as H2

PID = "C20"
FAILURE_TRUNC = "append-not-preserved"
TAG_TRUNC = "array_str_trunc"

# ----------------------------------------------------------------------------- encodings


def enc(x):
    """real cell value -> spec value: [0, n] for an integer, [1, codes...] for a string (anything else: [9, codes of repr])."""
    import numpy as np
    if isinstance(x, np.generic):
        x = x.item()
    if isinstance(x, str):
        return [1] + [ord(c) for c in x]
    if isinstance(x, bool):
        return [0, int(x)]
    if isinstance(x, float) and x == int(x):
        return [0, int(x)]
    if isinstance(x, int):
        return [0, x]
    return [9] + [ord(c) for c in repr(x)]


def dec(v):
    return v[1] if v[0] == 0 else "".join(chr(c) for c in v[1:])


def plain(x):
    """numbers / containers of the real API -> JSON-comparable python values."""
    import numpy as np
    if isinstance(x, np.generic):
        x = x.item()
    if isinstance(x, float) and x == int(x):
        return int(x)
    if isinstance(x, (list, tuple)):
        return [plain(i) for i in x]
    if isinstance(x, dict):
        return {k: plain(v) for k, v in x.items()}
    return x


def opt(fn):
    """[result] or [] when the real code raised; trouble of the harness itself is never an observation."""
    try:
        return [fn()]
    except C.MachineryError:
        raise
    except Exception:
        return []


def key_of(x):
    return json.dumps(x, sort_keys=True)


def num_or_str(tok):
    try:
        f = float(tok)
        return int(f) if f == int(f) else f
    except (ValueError, OverflowError):
        return tok


def parse_text(text, cell):
    """DataFrame.to_string() -> {cols, rows}; cell(colindex, token) decodes one cell."""
    lines = text.split("\n")
    if lines[0].startswith("Empty DataFrame"):
        m = re.match(r"Columns: \[(.*)\]", lines[1])
        cols = [c.strip() for c in m.group(1).split(",")] if m and m.group(1).strip() else []
        return {"cols": cols, "rows": []}
    cols = lines[0].split()
    rows = []
    for ln in lines[1:]:
        t = ln.split()
        rows.append([cell(n, c) for n, c in enumerate(t[1:])])
    return {"cols": cols, "rows": rows}


# ----------------------------------------------------------------------------- ParameterTable adapters

def rec_data(v):
    return plain(v.data())


def rec_obs(v):
    keys = list(v.keys())
    s = str(v)
    m = re.fullmatch(r"ParameterSettings\((.*)\)", s)
    pairs = [p.split("=", 1) for p in m.group(1).split(" ")] if m and m.group(1) else []
    return {"keys": keys, "items": [[k, plain(x)] for k, x in v.items()], "str": [[k, num_or_str(x)] for k, x in pairs],
            "data": rec_data(v), "attr": {k: plain(getattr(v, k)) for k in keys}, "item": {k: plain(v[k]) for k in keys}}


def frame_of(df, cellenc=plain):
    return {"cols": [str(c) for c in df.columns], "rows": [[cellenc(x) for x in row] for row in df.values.tolist()]}


def pt_new(settings, keyname, init):
    from scinumtools import ParameterTable
    if init:
        return ParameterTable(list(settings), {k: list(v) for k, v in init}, keys=True, keyname=keyname)
    return ParameterTable(list(settings), keys=True, keyname=keyname)


def pt_apply(pt, op):
    """-> True iff the call raised"""
    try:
        o = op["op"]
        if o == "append":
            pt.append(op["k"], list(op["v"]))
        elif o == "setitem":
            pt[op["k"]] = list(op["v"])
        elif o == "delitem":
            del pt[op["k"]]
        elif o == "append_bad":
            pt.append(op["k"], 5)
        else:
            raise C.MachineryError("unknown op " + o)
        return False
    except C.MachineryError:
        raise
    except Exception:
        return True


def parse_keys_str(s):
    m = re.fullmatch(r"ParameterSettings\((.*)\)", s)
    if not m:
        return ["#unparsed", s]
    return m.group(1).split(", ") if m.group(1) else []


def pt_obs(pt, probes, npos, full=True):
    o = {}
    o["len"] = len(pt)
    o["keys"] = opt(lambda: list(pt.keys()))
    o["keys"] = o["keys"][0] if o["keys"] else ["#raised"]
    o["items"] = [[k, rec_data(v)] for k, v in pt.items()]
    o["data"] = opt(lambda: [[k, plain(d)] for k, d in pt.data().items()])
    o["data"] = o["data"][0] if o["data"] else ["#raised"]
    o["iter"] = opt(lambda: [rec_data(v) for v in pt])
    o["has"] = {k: bool(k in pt) for k in probes}
    o["bykey"] = {k: opt(lambda: rec_obs(pt[k])) for k in probes}
    o["byattr"] = {k: opt(lambda: rec_data(getattr(pt, k))) for k in probes}
    o["bypos"] = [opt(lambda: rec_data(pt[j])) for j in range(npos)]
    o["shape"] = list(pt.shape())
    s1, s2 = parse_keys_str(str(pt)), parse_keys_str(repr(pt))
    o["str"] = s1 if s1 == s2 else ["#str/repr differ", s1, s2]
    if full:
        o["frame"] = opt(lambda: frame_of(pt.to_dataframe()))
        o["text"] = opt(lambda: parse_text(pt.to_text(), lambda n, c: c if n == 0 else num_or_str(c)))
    return o


def pt_priv(pt):
    return {"k": list(pt._keys), "d": [[k, rec_data(v)] for k, v in pt._data.items()]}


def pl_new(settings):
    from scinumtools import ParameterTable
    return ParameterTable(list(settings))


def pl_apply(pt, op):
    try:
        if op["op"] == "append":
            pt.append(list(op["v"]))
        elif op["op"] == "delitem":
            del pt[op["p"] - 1]
        else:
            raise C.MachineryError("unknown op " + op["op"])
        return False
    except C.MachineryError:
        raise
    except Exception:
        return True


def pl_obs(pt, npos, full=True):
    o = {"len": len(pt),
         "items": [[k, rec_data(v)] for k, v in pt.items()],
         "data": [plain(d) for d in pt.data()],
         "iter": opt(lambda: [rec_data(v) for v in pt]),
         "bypos": [opt(lambda: rec_obs(pt[j])) for j in range(npos)],
         "shape": list(pt.shape())}
    if full:
        o["frame"] = opt(lambda: frame_of(pt.to_dataframe()))
        o["text"] = opt(lambda: parse_text(pt.to_text(), lambda n, c: num_or_str(c)))
    return o


def pl_priv(pt):
    return {"d": [rec_data(v) for v in pt._data]}


# ----------------------------------------------------------------------------- RowCollector adapters

def rc_new(mode, cols, kindof, rows=None):
    from scinumtools import RowCollector
    rows = [[dec(c) for c in r] for r in rows] if rows else None
    if mode == "list":
        return RowCollector(list(cols), rows) if cols or rows else RowCollector()
    if mode == "arr":
        return RowCollector(list(cols), rows, array=True)
    if mode == "typed":
        import numpy as np
        dt = {"int": int, "str": str, "uint8": np.uint8, "uint64": np.uint64, "float": float}
        return RowCollector({c: dict(dtype=dt[kindof[c]]) for c in cols}, rows, array=True)
    raise C.MachineryError("mode " + mode)


def rc_apply(rc, op):
    try:
        o = op["op"]
        if o == "append_list":                    # the row as a list, a tuple or (all integers) a NumPy array
            vals = [dec(c) for c in op["row"]]
            form = op.get("as", "list")
            if form == "ndarray" and all(isinstance(v, int) for v in vals):
                import numpy as np
                vals = np.array(vals)
            elif form != "list":
                vals = tuple(vals)
            rc.append(vals)
        elif o == "append_dict":
            rc.append({name: dec(v) for name, v in op["row"]})
        elif o == "sort":
            if op["rev"]:
                rc.sort(op["name"], reverse=True)
            else:
                rc.sort(op["name"])
        else:
            raise C.MachineryError("unknown op " + o)
        return False
    except C.MachineryError:
        raise
    except Exception:
        return True


def rc_obs(rc, kindof, full=True, files=False):
    o = {}
    s1, s2 = rc.size(), len(rc)
    o["size"] = s1 if s1 == s2 else -1          # size() and len() differ
    o["shape"] = list(rc.shape())
    d = rc.to_dict()
    names = list(d.keys())
    o["dict"] = [[n, [enc(x) for x in col]] for n, col in d.items()]
    o["attr"] = [[n, [enc(x) for x in getattr(rc, n)]] for n in names]
    o["item"] = [[n, [enc(x) for x in rc[n]]] for n in names]
    if full:
        o["frame"] = opt(lambda: frame_of(rc.to_dataframe(), enc))

        def cell(n, c):
            return enc(c if kindof.get(names[n]) == "str" else num_or_str(c))

        def text():
            t1, t2 = parse_text(rc.to_text(), cell), parse_text(str(rc), cell)
            return t1 if t1 == t2 else {"#to_text/str differ": [t1, t2]}
        o["text"] = opt(text)

        def rframe():
            rn = list(reversed(names))
            f1 = frame_of(rc.to_dataframe(columns=rn), enc)
            f2 = frame_of(rc.to_dataframe(columns={n: n for n in rn}), enc)
            return f1 if f1 == f2 else {"#list/dict selection differ": [f1, f2]}
        o["rframe"] = opt(rframe)
    if files:                         # the two exports, read back from scratch files of this process and this call
        iodir = H2.wd("io")
        base = os.path.join(iodir, H2.unique("rc"))

        def cell(n, c):
            return enc(c if kindof.get(names[n]) == "str" else num_or_str(c))

        def export(fn, path):
            """call the library's export; an exception is an observation only if the scratch directory is intact"""
            try:
                fn(path)
            except Exception:
                if not os.path.isdir(iodir):
                    raise C.MachineryError(f"scratch directory {iodir} disappeared while exporting")
                raise
            if not os.path.isdir(iodir):
                raise C.MachineryError(f"scratch directory {iodir} disappeared while exporting")

        def readback(path, mode_kw):
            try:
                with open(path, **mode_kw) as f:
                    return f.read()
            except FileNotFoundError:
                if os.path.isdir(iodir):
                    raise              # the export returned without writing the file: an observation
                raise C.MachineryError(f"scratch directory {iodir} disappeared before reading {path}")
            except OSError as e:
                raise C.MachineryError(f"cannot read back {path}: {e}")

        def csvback():
            import csv
            export(rc.to_csv, base + ".csv")
            rows = list(csv.reader(io.StringIO(readback(base + ".csv", dict(newline="")))))
            return {"cols": rows[0][1:] if rows else [], "rows": [[cell(n, c) for n, c in enumerate(r[1:])] for r in rows[1:]]}

        def fileback():
            export(rc.to_file, base + ".txt")
            return parse_text(readback(base + ".txt", {}), cell)
        o["csv"] = opt(csvback)
        o["file"] = opt(fileback)
        for ext in (".csv", ".txt"):            # only this call's own files
            try:
                os.remove(base + ext)
            except OSError:
                pass
    return o


def rc_priv(rc):
    return {"c": list(rc._columns), "d": [[enc(x) for x in getattr(rc, n)] for n in rc._columns]}


# ----------------------------------------------------------------------------- DataCombination whose lists change in place

class RealComb:
    """The caller's list of lists and the DataCombination constructed from it."""

    def __init__(self, init):
        from scinumtools import DataCombination
        self.lists = [list(l) for l in init]
        self.snap = [list(l) for l in init]
        self.dc = DataCombination(self.lists)

    def apply(self, op):
        o = op["op"]
        if o == "append":
            self.lists[op["l"] - 1].append(op["v"])
        elif o == "pop":
            self.lists[op["l"] - 1].pop()
        elif o == "extend":
            self.lists[op["l"] - 1].extend(op["vs"])
        elif o == "addlist":
            self.lists.append(list(op["vs"]))
        else:
            raise C.MachineryError("unknown op " + o)
        return False

    def read(self):
        try:
            return {"keys": [list(k) for k in self.dc.keys()], "values": [list(v) for v in self.dc.values()],
                    "items": [[list(k), list(v)] for k, v in self.dc.items()]}
        except Exception as e:
            return {"raised": repr(e)[:200]}

    def event(self):
        r = self.read()
        ev = {"ev": "comb", "lists": [list(l) for l in self.lists], "snap": self.snap, "raised": "raised" in r,
              "keys": r.get("keys", []), "values": r.get("values", []), "items": r.get("items", [])}
        return ev


# ----------------------------------------------------------------------------- model configuration

def known_open():
    return {f["key"] for f in C.load_findings() if f["property"] == PID and f["status"] == "open"}


def dev_on():
    return "array-str-trunc" in known_open()


PT_SETTINGS = ["a", "b"]
PT_KEYNAME = "#"
PT_PROBES = ["k1", "k2", "k3", "zz"]
PT_NPOS = 4
RC_KIND = {"rcl": ("list", ["a", "b", "c"], {"a": "int", "b": "str", "c": "int"}),
           "rca": ("arr", ["a", "b", "c"], {"a": "int", "b": "int", "c": "int"}),
           "rct": ("typed", ["a", "b", "c"], {"a": "int", "b": "str", "c": "int"}),
           "rcu": ("typed", ["a", "b", "c"], {"a": "uint8", "b": "uint64", "c": "float"}),
           "rcn": ("list", [], {"a": "int", "b": "str", "c": "int"})}


ALL_STATEFUL = ["pt", "pl", "rcl", "rca", "rct", "rcu", "rcn", "cmb"]


def cfg_module(table, machines, init="{<<>>}", slim_sort=False, thorough=False):
    """The generated model module: universes of keys, values, rows for this run."""
    t = table
    sort3 = '{"a", "b"}' if slim_sort else '{"a", "b", "c"}'
    return f"""---- MODULE HelpersCfg ----
EXTENDS HelpersMC
I(n) == <<0, n>>
X == <<1, 120>>
YY == <<1, 121, 121>>
KO == [a |-> "int", b |-> "str", c |-> "int"]
KA == [a |-> "int", b |-> "int", c |-> "int"]
KU == [a |-> "uint8", b |-> "uint64", c |-> "float"]
ABC == <<"a", "b", "c">>
D1(r) == << <<"a", r[1]>>, <<"b", r[2]>>, <<"c", r[3]>> >>
D2(r) == << <<"c", r[3]>>, <<"a", r[1]>>, <<"b", r[2]>> >>
R1 == <<I(1), X, I(10)>>
R2 == <<I(1), YY, I(20)>>
R3 == <<I(2), X, I(30)>>
A1 == <<I(1), I(5), I(10)>>
A2 == <<I(1), I(7), I(20)>>
A3 == <<I(2), I(5), I(30)>>
MCMachines == {C.tla_str(set(machines))}
MCRCConfs == [
  rcl |-> [mode |-> "list", cols |-> ABC, kindof |-> KO, rows |-> {{R1, R2, R3}}, dicts |-> {'{D2(R3)}' if slim_sort else '{D1(R1), D2(R3)}'},
           short |-> {'{<<I(1)>>, <<I(1), X, I(10), I(4)>>}' if t else '{}'},
           baddicts |-> {'{<< <<"a", I(1)>> >>, D1(R1) \\o << <<"zz", I(5)>> >>}' if t else '{}'},
           sortnames |-> {'{"a", "b"}' if slim_sort else '{"a", "b", "c", "nocol"}' if t or thorough else '{"a", "b", "c"}'}],
  rca |-> [mode |-> "arr", cols |-> ABC, kindof |-> KA, rows |-> {{A1, A2, A3}}, dicts |-> {{D2(A3)}},
           short |-> {'{<<I(1)>>}' if t else '{}'}, baddicts |-> {{}}, sortnames |-> {sort3}],
  rct |-> [mode |-> "typed", cols |-> ABC, kindof |-> KO, rows |-> {{R1, R2, R3}}, dicts |-> {{D2(R2)}},
           short |-> {{}}, baddicts |-> {{}}, sortnames |-> {sort3}],
  rcu |-> [mode |-> "typed", cols |-> ABC, kindof |-> KU, rows |-> {{A1, A2, A3}}, dicts |-> {{D2(A2)}},
           short |-> {{}}, baddicts |-> {{}}, sortnames |-> {sort3}],
  rcn |-> [mode |-> "list", cols |-> <<>>, kindof |-> KO, rows |-> {{}}, dicts |-> {{D1(R1), D2(R2), D1(R3)}},
           short |-> {'{<<I(1), I(2)>>}' if t else '{}'}, baddicts |-> {{}}, sortnames |-> {{"a", "b", "nocol"}}] ]
MCSettings == {C.tla_str(PT_SETTINGS)}
MCKeys == {{"k1", "k2", "k3"}}
MCValLists == {{<<1, 2>>, <<3, 4>>}}
\\* every state of the keyed table over these keys and values, as a constructor argument
OrdSubs == {{s \\in UNION {{[1..n -> MCKeys] : n \\in 0..3}} : \\A a, b \\in DOMAIN s : s[a] = s[b] => a = b}}
AllInit == UNION {{ {{[n \\in DOMAIN s |-> <<s[n], v[n]>>] : v \\in [DOMAIN s -> MCValLists]}} : s \\in OrdSubs}}
MCInitDicts == {init}
MCShortVals == {'{<<7>>, <<7, 8, 9>>}' if t else '{}'}
MCProbeKeys == {C.tla_str(set(PT_PROBES))}
MCAxSize == <<4, 2>>
MCCombVals == {{1, 2}}
MCCombInits == {{<< <<1, 2>>, <<1>> >>, << <<1>> >>}}
MCKnownDevs == {'{"' + TAG_TRUNC + '"}' if dev_on() else '{}'}
MCFirstKeys == {{FIRSTKEYS}}
MCFirstFlavs == {{FIRSTFLAVS}}
====
"""


def cfg_text(table, depth, rows, thorough, invariants):
    inv = "\n".join("INVARIANT " + i for i in invariants)
    return f"""CONSTANTS
  DevStrTrunc = {C.tla_str(dev_on())}
  Machines <- MCMachines
  MaxDepth = {depth}
  KnownDevs <- MCKnownDevs
  Settings <- MCSettings
  KeyName = "{PT_KEYNAME}"
  Keys <- MCKeys
  ValLists <- MCValLists
  ShortVals <- MCShortVals
  InitDicts <- MCInitDicts
  AllowBad = {C.tla_str(bool(table))}
  ProbeKeys <- MCProbeKeys
  NProbe = {PT_NPOS}
  MaxRecs = {rows}
  FirstKeys <- MCFirstKeys
  FirstFlavs <- MCFirstFlavs
  RCConfs <- MCRCConfs
  MaxRows = {rows}
  SortMaxRows = 4
  GridMaxN = {40 if thorough else 30}
  GridMaxCols = {10 if thorough else 8}
  AxSize <- MCAxSize
  CombVals <- MCCombVals
  CombMaxLists = 3
  CombMaxLen = 3
  CombInits <- MCCombInits
SPECIFICATION Spec
{inv}
CHECK_DEADLOCK FALSE
"""


TABLE_INV = ["Refines", "PTSync", "SortRefines", "SortForms", "GridRefines", "CombRefines", "CombLiveRefines", "Emit"]
HIST_INV = ["Refines", "PTSync", "CombLiveRefines", "AtomicPT", "AtomicRC", "Emit"]     # no ill-formed operations here: calls are atomic


ALLK = ["k1", "k2", "k3"]
ALLF = ["append", "setitem", "delitem"]


def run_mc(sub, table, depth, rows, thorough, invariants, machines=None, init="{<<>>}", firstkeys=ALLK, firstflavs=ALLF,
           slim_sort=False, workers=None, coverage=False):
    """One TLC run of HelpersMC.  table: complete state graph with the ill-formed operations; else histories of `depth`."""
    wd = H2.wd(sub)
    machines = machines or (ALL_STATEFUL + ["grid", "comb"] if table else ALL_STATEFUL)
    mod = cfg_module(table, machines, init, slim_sort, thorough).replace("{FIRSTKEYS}", C.tla_str(set(firstkeys))).replace("{FIRSTFLAVS}", C.tla_str(set(firstflavs)))
    with open(os.path.join(wd, "HelpersCfg.tla"), "w") as f:
        f.write(mod)
    return C.run_tlc(wd, "HelpersCfg", cfg_text(table, depth, rows, thorough, invariants), workers=workers, coverage=coverage)


# ----------------------------------------------------------------------------- replay of TLC histories

FULL_EVERY = 1       # the pandas conversions are observed after the last step of one sequence in FULL_EVERY
SEED = 0
TABLES = {}          # filled before forking: {"i": {(w, key): obs}, "m": {(w, key): obs}}


def new_real(w, first):
    if w == "pt":
        return pt_new(PT_SETTINGS, PT_KEYNAME, first.get("init") or [])
    if w == "pl":
        return pl_new(PT_SETTINGS)
    if w == "cmb":
        return RealComb(first["init"])
    mode, cols, kindof = RC_KIND[w]
    return rc_new(mode, cols, kindof)


def apply_real(w, obj, op):
    if w == "cmb":
        return obj.apply(op)
    return pt_apply(obj, op) if w == "pt" else pl_apply(obj, op) if w == "pl" else rc_apply(obj, op)


def observe_real(w, obj, full):
    try:
        return _observe_real(w, obj, full)
    except C.MachineryError:
        raise
    except Exception as e:            # an accessor that never raises in the model raised
        return {("size" if w.startswith("rc") else "len"): -1, "exception": repr(e)[:200]}


def _observe_real(w, obj, full):
    if w == "cmb":
        return obj.read()
    if w == "pt":
        return pt_obs(obj, PT_PROBES, PT_NPOS, full)
    if w == "pl":
        return pl_obs(obj, PT_NPOS, full)
    return rc_obs(obj, RC_KIND[w][2], full)


def diff_fields(exp, got):
    if "alt" in exp:                  # the observation as a whole must be one of the admissible ones
        return [] if any(a == got for a in exp["alt"]) else ["keys/values/items"]
    return sorted(f for f in got if f not in exp or exp[f] != got[f])


def replay_group(job):
    """job = (w, ops, branches) where ops = [first, op1, ...] (without states) and branches = list of
    (ist keys per step, mst keys per step, errs per step, tags).  The real behaviour must follow one branch
    of the ideal.  -> (status, detail)"""
    w, ops, branches = job
    obj = new_real(w, ops[0])
    heavy = FULL_EVERY <= 1 or zlib.crc32(key_of(ops).encode()) % FULL_EVERY == SEED % FULL_EVERY
    alive = list(range(len(branches)))          # branches of the ideal still compatible
    malive = list(range(len(branches)))         # branches of the machine still compatible
    n = len(ops)
    for step in range(n):
        raised = False
        if step > 0:
            op = ops[step]
            if op["op"] == "append_list":       # rendering only: the specification does not distinguish the sequence types
                op = dict(op, **{"as": ("list", "tuple", "ndarray")[(zlib.crc32(key_of(ops).encode()) + step) % 3]})
            raised = apply_real(w, obj, op)
        got = observe_real(w, obj, full=(heavy and step == n - 1))
        nxt = []
        why = None
        for b in alive:
            ist, mst, errs, tags = branches[b]
            exp = TABLES["i"][(w, ist[step])]
            if errs[step] != raised:
                why = why or ("error status", errs[step], raised, [])
                continue
            bad = diff_fields(exp, got)
            if bad:
                why = why or (("accessors", {"one of": exp["alt"]}, got, bad) if "alt" in exp else
                              ("accessors", {f: exp.get(f) for f in bad}, {f: got[f] for f in bad}, bad))
                continue
            nxt.append(b)
        mnxt = [b for b in malive if (branches[b][1][step] == "[]" and b in nxt) or
                ((w, branches[b][1][step]) in TABLES["m"] and not diff_fields(TABLES["m"][(w, branches[b][1][step])], got))]
        if not nxt:
            tags = sorted(set(t for b in alive for t in branches[b][3]))
            explained = bool(tags) and bool(mnxt)       # the machine with its named deviation predicts exactly this
            return ("fail", {"w": w, "ops": ops, "step": step, "clause": why[0], "expected": why[1], "observed": why[2],
                             "fields": why[3], "tags": tags if explained else [], "explained": explained})
        alive, malive = nxt, mnxt
    if not malive:
        return ("drift", {"w": w, "ops": ops})
    return ("ok", None)


def group_histories(records):
    """TLC history records -> replay jobs grouped by operation sequence."""
    groups = {}
    for r in records:
        h = r["hist"]
        ops = [{"op": "new", **({"init": h[0]["init"]} if "init" in h[0] else {})}] + [e["op"] for e in h[1:]]
        k = (r["w"], key_of(ops))
        br = ([key_of(e["ist"]) for e in h], [key_of(e["mst"]) for e in h], [False] + [e["err"] for e in h[1:]], r["tags"])
        groups.setdefault(k, (r["w"], ops, []))[2].append(br)
    return list(groups.values())


# ----------------------------------------------------------------------------- grid / combination

def grid_observe(n, nc, tr, kind):
    data = list(range(100, 100 + n)) if kind == "list" else {f"k{j}": 100 + j for j in range(n)}
    try:
        return _grid_observe(data, n, nc, tr, kind)
    except Exception as e:            # the real class raised: an observation, judged by the specification
        return {"ev": "grid", "n": n, "nc": nc, "tr": tr, "kind": kind, "nrows": -1, "items": [], "missing": [], "figsize": [0, 0],
                "axsize": [4, 2], "payload": [], "data": [], "raised": True, "exception": repr(e)[:200]}


def _grid_observe(data, n, nc, tr, kind):
    from scinumtools import DataPlotGrid
    g = DataPlotGrid(data, nc) if nc != 2 or kind == "dict" else DataPlotGrid(data)
    its = [plain(list(t)) for t in (g.items(transpose=True) if tr else g.items())]
    mis = [plain(list(t)) for t in g.items(missing=True, transpose=tr)]
    if kind == "list":
        payload = [t[3] for t in its]
        dat = list(data)
    else:
        payload = [[t[3], t[4]] for t in its]
        dat = [[k, v] for k, v in data.items()]
    return {"ev": "grid", "n": n, "nc": nc, "tr": tr, "kind": kind, "nrows": plain(g.nrows), "items": [t[:3] for t in its],
            "missing": mis, "figsize": plain(list(g.figsize)), "axsize": [4, 2], "payload": payload, "data": dat, "raised": False}


def comb_observe(lists):
    from scinumtools import DataCombination
    try:
        dc = DataCombination([list(l) for l in lists])
        return {"ev": "comb", "lists": lists, "snap": lists, "keys": [list(k) for k in dc.keys()], "values": [list(v) for v in dc.values()],
                "items": [[list(k), list(v)] for k, v in dc.items()], "raised": False}
    except Exception as e:
        return {"ev": "comb", "lists": lists, "snap": lists, "keys": [], "values": [], "items": [], "raised": True, "exception": repr(e)[:200]}


def replay_static(rec):
    """spec -> code for the stateless helpers: the machine's (ideal-checked) output against the real class"""
    if rec["kind"] == "grid":
        out = []
        for kind in ("list", "dict"):
            g = grid_observe(rec["n"], rec["nc"], rec["tr"], kind)
            bad = [f for f in ("nrows", "items", "missing", "figsize") if g[f] != rec[f]]
            if g["payload"] != g["data"]:
                bad.append("payload")
            if bad:
                out.append((kind, bad))
        return out
    g = comb_observe(rec["lists"])
    return [f for f in ("keys", "values", "items") if g[f] != rec[f]]


# ----------------------------------------------------------------------------- recording traces on the real objects

def safe_obs(field, fn, *a):
    try:
        return fn(*a)
    except C.MachineryError:
        raise
    except Exception as e:
        return {field: -1, "exception": repr(e)[:200]}


def record(plan):
    """plan = {"obj":..., constructor args, "ops": [...]} -> list of events (a trace)"""
    o = plan["obj"]
    if o == "pt":
        obj = pt_new(plan["settings"], plan["keyname"], plan["init"])
        obs = lambda full=True: safe_obs("len", pt_obs, obj, plan["probes"], plan["npos"], full)
        priv, app = (lambda: pt_priv(obj)), (lambda op: pt_apply(obj, op))
    elif o == "pl":
        obj = pl_new(plan["settings"])
        obs = lambda full=True: safe_obs("len", pl_obs, obj, plan["npos"], full)
        priv, app = (lambda: pl_priv(obj)), (lambda op: pl_apply(obj, op))
    elif o == "rc":
        obj = rc_new(plan["mode"], plan["cols"], plan["kindof"], plan["rows"])
        obs = lambda full=True, files=False: safe_obs("size", rc_obs, obj, plan["kindof"], full, files)
        priv, app = (lambda: rc_priv(obj)), (lambda op: rc_apply(obj, op))
    elif o == "grid":
        return [grid_observe(plan["n"], plan["nc"], plan["tr"], plan["kind"])]
    elif o == "comb":
        return [comb_observe(plan["lists"])]
    elif o == "combm":                # construct, read, change the caller's lists in place, read again
        rcb = RealComb(plan["init"])
        evs = [dict(rcb.event(), init=plan["init"], mut=plan["ops"])]
        for op in plan["ops"]:
            rcb.apply(op)
            evs.append(rcb.event())
        return evs
    first = {k: v for k, v in plan.items() if k != "ops"}
    priv0 = priv

    def priv():                       # the private attributes may be renamed by a refactoring: then the machine level is not checked (drift)
        try:
            return priv0()
        except Exception as e:
            return {"unavailable": repr(e)[:200]}
    first.update(ev="new", err=False, obs=obs(), priv=priv())
    evs = [first]
    n = len(plan["ops"])
    for k, op in enumerate(plan["ops"]):
        err = app(op)
        last = k == n - 1
        evs.append({"ev": "op", "op": op, "err": err, "obs": obs(k % 4 == 3 or last, True) if last and o == "rc" else obs(k % 4 == 3 or last),
                    "priv": priv()})
    return evs


def rand_plan_pt(rnd, maxops):
    keys = [f"k{j}" for j in range(1, rnd.randint(2, 7))]
    settings = ["a", "b", "c"][:rnd.randint(1, 3)]
    ns = len(settings)
    val = lambda: [rnd.randint(0, 999) for _ in range(ns)]
    init = [[k, val()] for k in rnd.sample(keys, rnd.randint(0, min(3, len(keys))))] if rnd.random() < 0.5 else []
    ill = rnd.random() < 0.15
    ops = []
    for _ in range(rnd.randint(1, maxops)):
        x = rnd.random()
        if ill and x < 0.04:
            ops.append(rnd.choice([{"op": "append_bad", "k": rnd.choice(keys)},
                                   {"op": "append", "k": rnd.choice(keys), "v": val()[:-1] if ns > 1 else val() + [1]},
                                   {"op": "setitem", "k": rnd.choice(keys), "v": val() + [5]}]))
        elif x < 0.33:
            ops.append({"op": "append", "k": rnd.choice(keys), "v": val()})
        elif x < 0.66:
            ops.append({"op": "setitem", "k": rnd.choice(keys), "v": val()})
        else:
            ops.append({"op": "delitem", "k": rnd.choice(keys + ["zz"])})
    return {"obj": "pt", "settings": settings, "keyname": rnd.choice(["#", "key"]), "init": init,
            "probes": keys + ["zz"], "npos": len(keys) + 1, "ops": ops}


def rand_plan_pl(rnd, maxops):
    settings = ["a", "b", "c"][:rnd.randint(1, 3)]
    ns = len(settings)
    ops = []
    n = 0
    ill = rnd.random() < 0.15
    for _ in range(rnd.randint(1, maxops)):
        x = rnd.random()
        if ill and x < 0.04:
            ops.append({"op": "append", "v": [1] * (ns + (rnd.choice([-1, 1]) if ns > 1 else 1))})
        elif x < 0.6 and n < 8:
            ops.append({"op": "append", "v": [rnd.randint(0, 999) for _ in range(ns)]})
            n += 1
        else:
            p = rnd.randint(1, max(1, n + 1))
            ops.append({"op": "delitem", "p": p})
            n -= 1 if p <= n else 0
    return {"obj": "pl", "settings": settings, "npos": 9, "ops": ops}


STRS = ["a", "b", "ab", "ba", "abc", "b", "c", "B", "a0"]


def rand_plan_rc(rnd, maxops):
    mode = rnd.choice(["list", "list", "arr", "typed", "nocols"])
    names = ["p", "q", "r", "s"][:rnd.randint(1, 4)]
    kindof = {n: ("int" if mode == "arr" else rnd.choice(["int", "uint8", "uint64", "float", "str", "str"]) if mode == "typed"
                  else rnd.choice(["int", "str"])) for n in names}
    multi = mode != "typed" or rnd.random() < 0.3
    strs = STRS if multi else ["a", "b", "c", "B"]

    def cell(n):
        return enc(rnd.randint(0, 4) if kindof[n] != "str" else rnd.choice(strs))
    cols = [] if mode == "nocols" else names
    row = lambda: [cell(n) for n in (cols or names)]        # in the order of the existing columns
    rows = [row() for _ in range(rnd.randint(0, 3))] if cols and rnd.random() < 0.4 else []
    ill = rnd.random() < 0.15
    ops = []
    for k in range(rnd.randint(1, maxops)):
        x = rnd.random()
        if ill and x < 0.04 and k > 0:
            bad = rnd.choice(["short", "long", "dictmiss", "dictextra"])
            if bad == "short" and len(names) > 1:
                ops.append({"op": "append_list", "row": row()[:-1]})
                break                                   # ragged columns: the model stops here
            elif bad == "long":
                ops.append({"op": "append_list", "row": row() + [enc(1)]})
            elif bad == "dictmiss" and len(names) > 1:
                ops.append({"op": "append_dict", "row": [[n, cell(n)] for n in names[1:]]})
            else:
                ops.append({"op": "append_dict", "row": [[n, cell(n)] for n in names] + [["zz", enc(1)]]})
        elif x < 0.35 and cols:
            ops.append({"op": "append_list", "row": row(), "as": rnd.choice(["list", "list", "tuple", "ndarray"])})
        elif x < 0.7 or k == 0:
            order = names[:]
            rnd.shuffle(order)
            ops.append({"op": "append_dict", "row": [[n, cell(n)] for n in order]})
            cols = cols or order
        else:
            ops.append({"op": "sort", "name": rnd.choice(names + ["nocol"]) if rnd.random() < 0.9 else "nocol",
                        "rev": rnd.random() < 0.5})
    return {"obj": "rc", "mode": "list" if mode == "nocols" else mode, "cols": [] if mode == "nocols" else names,
            "kindof": kindof, "rows": rows, "ops": ops}


def rand_plan_combm(rnd):
    init = [[rnd.randint(0, 3) for _ in range(rnd.randint(0, 3))] for _ in range(rnd.randint(0, 3))]
    lens = [len(l) for l in init]
    ops = []
    for _ in range(rnd.randint(1, 12)):
        x = rnd.random()
        cand = [k for k, n in enumerate(lens)]
        if x < 0.3 and [k for k in cand if lens[k] < 4]:
            k = rnd.choice([k for k in cand if lens[k] < 4])
            ops.append({"op": "append", "l": k + 1, "v": rnd.randint(0, 3)})
            lens[k] += 1
        elif x < 0.6 and [k for k in cand if lens[k] > 0]:
            k = rnd.choice([k for k in cand if lens[k] > 0])
            ops.append({"op": "pop", "l": k + 1})
            lens[k] -= 1
        elif x < 0.8 and [k for k in cand if lens[k] <= 2]:
            k = rnd.choice([k for k in cand if lens[k] <= 2])
            ops.append({"op": "extend", "l": k + 1, "vs": [rnd.randint(0, 3), rnd.randint(0, 3)]})
            lens[k] += 2
        elif len(lens) < 4:
            ops.append({"op": "addlist", "vs": [rnd.randint(0, 3) for _ in range(rnd.randint(0, 2))]})
            lens.append(len(ops[-1]["vs"]))
    return {"obj": "combm", "init": init, "ops": ops}


def rand_plan_comb(rnd):
    return {"obj": "comb", "lists": [[rnd.randint(0, 3) for _ in range(rnd.randint(0, 4))] for _ in range(rnd.randint(0, 4))]}


def corrupt(trace, rnd):
    """self-test of the trace spec: flip one observed value -> the ideal must reject the log"""
    t = json.loads(json.dumps(trace))
    ev = t[0]                       # the creation event is always judged by the ideal
    if ev["ev"] == "grid":
        if ev["items"]:
            ev["items"][-1][1] += 1
        else:
            ev["nrows"] += 1
    elif ev["ev"] == "comb":
        if ev["items"]:
            ev["items"] = ev["items"][:-1]
        else:
            ev["items"] = [[[0] * len(ev["lists"]), [0] * len(ev["lists"])]]
    elif "len" in ev["obs"]:
        ev["obs"]["len"] += 1
    else:
        ev["obs"]["size"] += 1
    return t


TRACE_CFG = """CONSTANTS
  DevStrTrunc = {dev}
SPECIFICATION TSpec
INVARIANT Accept
CHECK_DEADLOCK FALSE
"""


def validate(sub, traces, workers=None):
    """-> ({tid: (mok, via, judged)}, {tid: reject text}, TLCResult)"""
    wd = H2.wd(sub)
    f = os.path.join(wd, "traces.json")
    with open(f, "w") as fh:
        json.dump(traces, fh)
    r = C.run_tlc(wd, "HelpersTrace", TRACE_CFG.format(dev=C.tla_str(dev_on())), env={"TRACE_FILE": f},
                  want_records=False, workers=workers)
    acc, rej = {}, {}
    r.drift = {}
    for m in re.finditer(r'<<\s*"DRIFT",\s*(\d+),\s*(\d+),\s*(.*?)\s*>>', r.stdout.replace("\n", " ")):
        r.drift.setdefault(int(m.group(1)), f"event {m.group(2)}: {m.group(3)[:200]}")
    for m in re.finditer(r'<<\s*"ACCEPT",\s*(\d+),\s*(TRUE|FALSE),\s*(TRUE|FALSE),\s*(TRUE|FALSE)\s*>>', r.stdout):
        acc[int(m.group(1))] = tuple(x == "TRUE" for x in m.group(2, 3, 4))
    for m in re.finditer(r'<<\s*"REJECT",\s*(\d+),\s*(\d+),\s*"([^"]*)",\s*"((?:[^"\\]|\\.)*)"\s*>>', r.stdout.replace("\n", " ")):
        t = int(m.group(1))
        if t not in rej:
            try:
                det = json.loads(json.loads('"' + re.sub(r"\s+", " ", m.group(4)) + '"'))
            except Exception:
                det = m.group(4)[:400]
            rej[t] = {"line": int(m.group(2)), "what": m.group(3), "detail": det}
    r.acc = acc
    return acc, rej, r


def plan_of(trace):
    ev = trace[0]
    if ev["ev"] == "comb" and "mut" in ev:
        return {"obj": "combm", "init": ev["init"], "ops": ev["mut"]}
    if ev["ev"] in ("grid", "comb"):
        return {"obj": ev["ev"], **{k: ev[k] for k in ("n", "nc", "tr", "kind", "lists") if k in ev}}
    p = {k: v for k, v in ev.items() if k not in ("ev", "err", "obs", "priv")}
    p["ops"] = [e["op"] for e in trace[1:]]
    return p


# ----------------------------------------------------------------------------- the check

def witness_known(V):
    """The open finding's witness, executed first."""
    import numpy  # noqa
    from scinumtools import RowCollector
    rc = RowCollector({"name": dict(dtype=str)}, array=True)
    rc.append(["hello"])
    got = [str(x) for x in rc.name]
    if "array-str-trunc" in known_open():
        if got == ["hello"]:
            V.notes.append("STALE finding array-str-trunc: the witness no longer fails (mark it fixed)")
    elif got != ["hello"]:            # fixed entry: its witness is an ordinary regression case and suppresses nothing
        V.fail({"kind": "witness", "call": "RowCollector({'name': dict(dtype=str)}, array=True).append(['hello'])"}, ["hello"], got,
               "rc: a string appended to a dtype=str array column is not preserved (regression of the fixed finding array-str-trunc)",
               tags=["unexplained"], failure=FAILURE_TRUNC)
    return got


def dbg(*a):
    if os.environ.get("VERIF_DEBUG"):
        print("[dbg]", *a, file=sys.stderr, flush=True)


def hist_plan(thorough):
    """The history runs: (name, kwargs of run_mc).  Thorough runs are partitioned so that no run prints more than ~10^5 records."""
    if not thorough:
        return [("h-all", dict(depth=4, rows=4)),
                ("h-init", dict(depth=1, rows=4, machines=["pt"], init="AllInit"))]
    runs = [("h-init", dict(depth=2, rows=5, machines=["pt"], init="AllInit"))]
    for k in ALLK:
        for f in ALLF:
            runs.append((f"h-pt-{k}-{f}", dict(depth=5, rows=5, machines=["pt"], firstkeys=[k], firstflavs=[f])))
    runs.append(("h-pl", dict(depth=5, rows=5, machines=["pl"])))
    runs += [("h-" + c, dict(depth=5, rows=5, machines=[c], slim_sort=True)) for c in ("rcl", "rca", "rct", "rcu", "rcn")]
    runs += [("h4-rc", dict(depth=4, rows=5, machines=["rcl", "rca", "rct", "rcu", "rcn"]))]
    return runs


def judge_histories(V, records, stats):
    """Replay the histories of one TLC run and turn the outcomes into verdicts."""
    jobs = group_histories(records)
    missing = [j for j in jobs for b in j[2] for k in b[0] if (j[0], k) not in TABLES["i"]]
    if missing:
        raise C.MachineryError(f"{len(missing)} history states have no accessor table entry (bounds of the TLC runs differ)")
    out = C.pmap(replay_group, jobs)
    for (w, ops, branches), (st, det) in zip(jobs, out):
        tagged = any(b[3] for b in branches)
        if st == "fail":
            V.fail({"kind": "hist", **{k: det[k] for k in ("w", "ops", "step")}}, det["expected"], det["observed"],
                   f"{w}: {det['clause']} after operation {det['step']} of the sequence differ from the ideal ({', '.join(det['fields'])})",
                   tags=det["tags"] or ["unexplained"], failure=FAILURE_TRUNC if det["explained"] else det["clause"])
        elif st == "drift":
            V.drift(f"machine spec of {w} disagrees with the code while the ideal agrees: {json.dumps(ops)[:200]}")
        else:
            V.ok()
            stats["stale"] += tagged
        names = [o["op"] for o in ops[1:]]
        if any(n in ("delitem", "sort") for n in names) and len(set(names)) >= 2:
            stats["nontrivial"] += 1
    stats["sequences"] += len(jobs)
    stats["behaviours"] += len(records)
    if len(stats["samples"]) < 3 and jobs:
        j = jobs[len(jobs) // 3]
        stats["samples"].append({"w": j[0], "ops": j[1], "ideal_state_after_each_step": [json.loads(k) for k in j[2][0][0]]})


def run(replay=None):
    import time
    global FULL_EVERY, SEED
    t0 = time.time()
    V = C.Verdicts(PID, "model_checking")
    thorough = C.tier() == "thorough"
    if replay:
        return run_replay(V, replay)
    H2.set_wd(C.workdir(PID))
    rnd = C.rng(20)
    SEED = C.seed()
    FULL_EVERY = 8 if thorough else 24
    got = witness_known(V)
    # ---- 3a: record seeded random executions of the real classes (before any thread exists: pmap forks)
    ntr = (1500, 500, 1500, 500) if thorough else (250, 80, 300, 100)
    plans = [rand_plan_pt(rnd, 40) for _ in range(ntr[0])] + [rand_plan_pl(rnd, 30) for _ in range(ntr[1])] \
        + [rand_plan_rc(rnd, 40) for _ in range(ntr[2])] + [rand_plan_comb(rnd) for _ in range(ntr[3])] \
        + [rand_plan_combm(rnd) for _ in range(ntr[3])]
    gmax, cmax = (60, 12) if thorough else (30, 8)
    plans += [{"obj": "grid", "n": n, "nc": nc, "tr": tr, "kind": kind} for n in range(gmax + 1) for nc in range(1, cmax + 1)
              for tr in (False, True) for kind in (("list", "dict") if n <= 12 else ("list",))]
    # every list of <= 3 lists of <= 3 items over {1, 2} (the universe TLC enumerates), judged by the ideal as well
    import itertools
    small = [list(t) for n in range(4) for t in itertools.product([1, 2], repeat=n)]
    plans += [{"obj": "comb", "lists": [list(x) for x in ls]} for k in range(4) for ls in itertools.product(small, repeat=k)]
    traces = C.pmap(record, plans)
    nreal = len(traces)
    dbg("recorded", nreal, "traces", sum(len(x) for x in traces), "events", round(time.time() - t0, 1))
    bad_ids = rnd.sample(range(nreal), 40)
    traces += [corrupt(traces[j], rnd) for j in bad_ids]
    # additional family (not part of the property): CachedFunction, Stopwatch, ProgressBar, NormalizeData
    traces2 = C.pmap(H2.record2, H2.rand_plans(C.rng(22), 3000 if thorough else 400))
    dbg("recorded family 2", len(traces2), round(time.time() - t0, 1))
    # ---- 1, 2, 3b, 4: the TLC runs; quick: all in parallel, thorough: the history partitions one after the other
    res = {}

    def job(name, fn, *a, **k):
        try:
            res[name] = fn(*a, **k)
        except BaseException as e:            # re-raised in the main thread
            res[name] = e
    q = max(1, C.NCPU // 4)
    rows = 5 if thorough else 4           # thorough: 5-row tables exist only after 5 appends, they are never sorted
    hp = hist_plan(thorough)
    th = [threading.Thread(target=job, args=("table", run_mc, "table", True, 0, rows, thorough, TABLE_INV), kwargs=dict(workers=q, coverage=thorough)),
          threading.Thread(target=job, args=("atomicpt", run_mc, "atomicpt", True, 0, 3, False, ["AtomicPT"]), kwargs=dict(workers=1, machines=["pt"])),
          threading.Thread(target=job, args=("atomicrc", run_mc, "atomicrc", True, 0, 3, False, ["AtomicRC"]), kwargs=dict(workers=1, machines=["rcl"])),
          threading.Thread(target=job, args=("trace", validate, "trace", traces), kwargs=dict(workers=q)),
          threading.Thread(target=job, args=("h2mc", H2.run_mc2, thorough), kwargs=dict(workers=max(1, q // 2))),
          threading.Thread(target=job, args=("h2trace", H2.validate2, traces2), kwargs=dict(workers=max(1, q // 2)))]
    if not thorough:
        for name, kw in hp:
            kw = dict(kw)
            th.append(threading.Thread(target=job, args=(name, run_mc, name, False, kw.pop("depth"), kw.pop("rows"), False, HIST_INV),
                                       kwargs=dict(kw, workers=max(2, C.NCPU // 2) if name == "h-all" else 1)))
    for t_ in th:
        t_.start()
    for t_ in th:
        t_.join()
    for k, v in res.items():
        if isinstance(v, BaseException):
            raise v
    rt = res["table"]
    dbg("tlc done", {k: (round(v.wall, 1), v.distinct) for k, v in res.items() if hasattr(v, "wall")},
        "trace", round(res["trace"][2].wall, 1), round(time.time() - t0, 1))
    # ---- tables
    ti, tm = {}, {}
    static = []
    for rec in rt.records:
        if rec["kind"] == "state":
            ti[(rec["w"], key_of(rec["ist"]))] = rec["iobs"]
            tm[(rec["w"], key_of(rec["mst"]))] = rec["mobs"]
        else:
            static.append(rec)
    rt.records = []
    TABLES["i"], TABLES["m"] = ti, tm
    # ---- 2: replay of the histories
    stats = {"stale": 0, "nontrivial": 0, "sequences": 0, "behaviours": 0, "samples": []}
    hstates = htrans = 0
    runs = {}
    for name, kw in hp:
        if thorough:
            kw = dict(kw)
            r = run_mc(name, False, kw.pop("depth"), kw.pop("rows"), True, HIST_INV, **kw)
        else:
            r = res[name]
        if r.violated:
            V.fail({"kind": "tlc", "run": name}, "machine refines ideal", r.cex[:3000],
                   f"TLC: invariant {r.violated} violated by the specification of the code", tags=["design"], failure="design")
        hstates += r.distinct
        htrans += r.generated
        runs[name] = {"states": r.distinct, "behaviours": len(r.records)}
        judge_histories(V, r.records, stats)
        r.records = []
        dbg("replayed", name, runs[name], round(time.time() - t0, 1))
    if rt.violated:
        V.fail({"kind": "tlc", "run": "table"}, "machine refines ideal", rt.cex[:3000],
               f"TLC: invariant {rt.violated} violated by the specification of the code", tags=["design"], failure="design")
    if stats["stale"] and dev_on():
        V.notes.append(f"{stats['stale']} sequences that exercise the open finding {TAG_TRUNC} now agree with the ideal (stale finding?)")
    # ---- static helpers, spec -> code
    sres = C.pmap(replay_static, static)
    for rec, bad in zip(static, sres):
        if bad:
            V.drift(f"{rec['kind']} output differs from the machine spec (judged by the ideal in trace validation): "
                    f"{json.dumps({k: rec[k] for k in ('n', 'nc', 'tr', 'lists') if k in rec})} {bad}")
        else:
            V.ok()
    # ---- additional family: replay of its histories, notes only
    out2 = C.pmap(H2.replay2, res["h2mc"].records)
    V.cov["helpers2"] = H2.judge(V, res["h2mc"], res["h2trace"], traces2, out2)
    res["h2mc"].records = []
    dbg("family 2 done", round(time.time() - t0, 1))
    # ---- 3b: trace validation
    acc, rej, rv = res["trace"]
    nacc = 0
    ntrace_nontrivial = 0
    kinds = {}
    for tid in range(1, nreal + 1):
        tr = traces[tid - 1]
        o = tr[0].get("obj", tr[0]["ev"])
        kinds[o] = kinds.get(o, 0) + 1
        if tid in acc:
            mok, via, judged = acc[tid]
            nacc += 1
            if via:
                V.fail({"kind": "trace", "plan": plan_of(tr)}, "rows preserved", "machine deviation explains the log",
                       "recorded execution follows the machine's named deviation, not the ideal", tags=[TAG_TRUNC], failure=FAILURE_TRUNC)
            elif not mok:
                V.drift(f"recorded {o} trace is not a behaviour of the machine spec (public observations agree with the ideal), "
                        f"{rv.drift.get(tid)}: {json.dumps(plan_of(tr))[:300]}")
            elif not judged:
                V.unspecified()
            else:
                V.ok()
            ntrace_nontrivial += len(tr) > 8
        else:
            info = rej.get(tid, {"what": "no successor in the specification"})
            V.fail({"kind": "trace", "plan": plan_of(tr)}, info.get("detail"), tr[min(info.get("line", 1), len(tr)) - 1] if "line" in info else None,
                   f"recorded {o} execution is not a behaviour of the ideal: {info['what']} at event {info.get('line')}",
                   tags=["unexplained"], failure=info["what"])
    selftest_rejected = sum(1 for j in range(nreal + 1, len(traces) + 1) if j not in acc)
    if selftest_rejected != len(bad_ids):
        raise C.MachineryError(f"trace spec accepted {len(bad_ids) - selftest_rejected} deliberately corrupted logs")
    # ---- 4: sensitivity of the spec, vacuity
    sens = {"AtomicPT (must be violated through PTM_AppendBad)": res["atomicpt"].violated or "none",
            "AtomicRC (must be violated through a short row)": res["atomicrc"].violated or "none"}
    if "none" in sens.values():
        raise C.MachineryError(f"the named partial failures of the machine spec are not reachable: {sens}")
    if thorough:
        unused = sorted(a for a, (d, n) in rt.coverage.items()
                        if n == 0 and a in ("Choose", "PTNext", "PLNext", "RCNext", "GridNext", "CombNext", "PTDo", "PLDo", "RCDo", "RCSort"))
        if unused:
            raise C.MachineryError(f"actions never taken in the exhaustive run: {unused}")
    depth = max(kw["depth"] for _, kw in hp)
    V.cov.update({
        "states": rt.distinct + hstates + rv.distinct, "transitions": rt.generated + htrans + rv.generated,
        "per_run": {"complete_state_graph": {"states": rt.distinct, "transitions": rt.generated, "accessor_tables": len(ti),
                                             "grid_cases": sum(1 for s_ in static if s_["kind"] == "grid"),
                                             "combination_cases": sum(1 for s_ in static if s_["kind"] == "comb")},
                    "histories": dict(runs, total_states=hstates, behaviours=stats["behaviours"], operation_sequences=stats["sequences"],
                                      pandas_conversions_observed_on="1 sequence in %d (after the last step)" % FULL_EVERY),
                    "trace_validation": {"states": rv.distinct, "traces": nreal, "accepted": nacc, "by_object": kinds,
                                         "events": sum(len(x) for x in traces[:nreal]), "corrupted_logs_rejected": selftest_rejected}},
        "traces_validated_against_impl": stats["sequences"] + nacc,
        "evaluations": stats["sequences"] + len(static) + nreal,
        "distinct_nontrivial": stats["nontrivial"] + ntrace_nontrivial,
        "rule": f"(a) every operation sequence of length <= {depth} TLC explored (ParameterTable keyed over 3 keys x 2 value lists x append/setitem/delete "
                "from the empty table, and one/two operations from each of the 79 tables over these keys built by the constructor; list-mode table; "
                "RowCollector list/array/typed-array/column-less over 3 rows with ties, list and dict appends, sort by column in both directions) "
                "replayed on a real object with every public accessor compared after every step; "
                "(b) every grid (n, ncols, transposed) and every list of <= 3 lists of <= 3 items from TLC compared with the real class; "
                "(c) seeded random sequences of <= 40 operations recorded from real objects and validated by TLC. "
                "non-trivial = distinct operation sequence containing a delete or sort and at least two kinds of operation, or a recorded trace of > 8 events",
        "samples": stats["samples"] + [plan_of(traces[0]), static[len(static) // 2]],
        "exhaustive": True,
        "spec_sensitivity": sens,
        "known_witness": {"RowCollector({'name': dict(dtype=str)}, array=True).append(['hello']) -> name": got},
    })
    V.assumptions += [
        "columns are homogeneous (all int or all str); cell values are small ints and short ASCII strings; NaN, None, nested lists are outside the model",
        "operations outside the property (value list / row of the wrong length, non-iterable values, dict rows with other keys than the columns) are "
        "followed by the machine spec only and counted unspecified",
        "keys/column names that collide with attribute names of the classes (e.g. 'keys', 'size') are not used",
        "text output is compared after parsing DataFrame.to_string(); CSV/file export of the RowCollector is read back at the end of each recorded trace",
        "private-state projection of the tracer (_keys, _data, column attributes) is trusted for drift detection only",
        "coverage.helpers2 (CachedFunction, Stopwatch, ProgressBar, NormalizeData; spec/Helpers2*.tla) is growth of the specification beyond "
        "the property: its disagreements are notes, its counts are not included in states/transitions/evaluations above; time is an integer "
        "clock substituted for the module `time` inside scinumtools.stopwatch / progress_bar",
    ]
    C.cleanup(PID)
    return V.finish()


def run_replay(V, path):
    body = json.load(open(path))
    s = body["scenario"]
    H2.set_wd(C.workdir(PID))
    bad = False
    if s["kind"] == "hist":
        rt = run_mc("table", True, 0, 5, True, ["Emit"])
        for rec in rt.records:
            if rec["kind"] == "state":
                TABLES.setdefault("i", {})[(rec["w"], key_of(rec["ist"]))] = rec["iobs"]
                TABLES.setdefault("m", {})[(rec["w"], key_of(rec["mst"]))] = rec["mobs"]
        init = s["ops"][0].get("init")
        rh = run_mc("hist", False, len(s["ops"]) - 1, 5, False, ["Emit"], machines=[s["w"]],
                    init="{" + C.tla_str(init) + "}" if init else "{<<>>}")
        jobs = [j for j in group_histories(rh.records) if j[0] == s["w"] and j[1] == s["ops"]]
        for j in jobs:
            st, det = replay_group(j)
            print(f"replay {path}: {st} {json.dumps(det)[:600]}")
            bad = bad or (st == "fail" and not det["explained"])
        if not jobs:
            raise C.MachineryError("the operation sequence is outside the explored universe")
    elif s["kind"] == "trace":
        tr = record(s["plan"])
        acc, rej, _ = validate("trace", [tr])
        print(f"replay {path}: accepted={acc} rejected={rej}")
        bad = 1 not in acc
    elif s["kind"] == "witness":
        got = witness_known(V)
        print(f"replay {path}: witness -> {got}")
        bad = got != ["hello"]
    else:
        raise C.MachineryError("unknown scenario kind")
    C.cleanup(PID)
    if bad:
        print(f"VIOLATION property={PID} replay={path}")
        return 1
    return 0
