"""C09 - temporary custom units never outlive their scope.

1. TLC explores UnitEnv.tla: every behaviour of <= MaxOps API calls (open a unit environment over any of
   the unit lists - fresh symbols, an existing symbol, a symbol whose prefixed form clashes, a unit with a
   custom conversion type -, close the innermost one, parse a DIP text with $unit lines) with the
   constructor modelled step by step, so a failure after k registrations is a reachable state.
   Invariants Restored / Usable / BaseIntact.  The variant without undo-on-failure must give a
   counterexample (sensitivity).
2. Every behaviour TLC visited is replayed against the real process-wide tables; after every API call
   the set of custom symbols, the base rows and the type list are compared with what the ideal demands.
3. The repository's DIP and units tests are run under a tracer on UnitEnvironment / UNIT_STANDARD and
   each test's sequence of scope events is validated against the spec (UnitEnvTrace.tla).
"""
import json, os, random, sys, re, subprocess
from . import common as C

PID = "C09"

DESCR = {
    "X": dict(sym="x", pfx=[], typ=""),
    "Y": dict(sym="y", pfx=[], typ=""),
    "M": dict(sym="m", pfx=[], typ=""),             # exists already
    "OL": dict(sym="ol", pfx=["m"], typ=""),        # 'm'+'ol' clashes with the base unit 'mol'
    "T": dict(sym="tq", pfx=[], typ="T1"),           # brings a custom conversion type
    "XK": dict(sym="x", pfx=["k"], typ=""),         # same symbol as X, prefixed
    "T2": dict(sym="tr", pfx=[], typ="T1"),         # a second unit of the same custom type
    "TB": dict(sym="tb", pfx=[], typ="Temperature"),  # its conversion type is a built-in one
    "BAD": dict(sym="bq", pfx=[], typ="T1", bad=True),  # malformed definition (no magnitude) with a custom type
    "BADP": dict(sym="bp", pfx=[], typ="", bad=True),   # malformed definition
    "INT": dict(sym="bi", pfx=[], typ="T1", bad=True, interrupt=True),  # registration interrupted (KeyboardInterrupt) after its type was inserted
}
LINES = {
    "len": dict(kind="unit", sym="[len]"),
    "wid": dict(kind="unit", sym="[wid]"),
    "c": dict(kind="unit", sym="[c]"),              # `$unit c = ..` clashes with the constant [c]
    "use": dict(kind="use", sym=""),
    "bad": dict(kind="bad", sym=""),
    "conv": dict(kind="conv", sym=""),
    "convbad": dict(kind="convbad", sym=""),
    "cond": dict(kind="cond", sym=""),
    "nest": dict(kind="nest", sym=""),
    # expressions that raise inside the scope their solver opened
    "condbad": dict(kind="condbad", sym=""),
    "nestbad": dict(kind="nestbad", sym=""),
    "boolbad": dict(kind="boolbad", sym=""),
    # lines that USE the custom unit [len] defined earlier in the same text
    "useu": dict(kind="useu", sym=""),
    "nestu": dict(kind="nestu", sym=""),
    "condu": dict(kind="condu", sym=""),
    "boolu": dict(kind="boolu", sym=""),
}
NEEDS_LEN = ("useu", "nestu", "condu", "boolu")
BASE = {"m": ["k", "m"], "mol": [], "[c]": []}


def tla_descr(d):
    return f'[sym |-> "{d["sym"]}", pfx |-> {C.tla_str(set(d["pfx"]))}, typ |-> "{d["typ"]}", bad |-> {C.tla_str(bool(d.get("bad")))}]'


def tla_line(l):
    return f'[kind |-> "{l["kind"]}", sym |-> "{l["sym"]}"]'


def unit_lists(maxlen, names):
    import itertools
    out = []
    for n in range(1, maxlen + 1):
        for combo in itertools.permutations(names, n):
            syms = [DESCR[c]["sym"] for c in combo]
            if len(set(syms)) == len(syms):            # dict keys are unique
                out.append(combo)
    return out


def dip_texts(maxlen, names):
    import itertools
    out = []
    for n in range(1, maxlen + 1):
        out += list(itertools.product(names, repeat=n))
    return out


def mc_module(ulists, texts, undo, maxops):
    ul = ",\n   ".join("<<" + ", ".join(tla_descr(DESCR[c]) for c in combo) + ">>" for combo in ulists)
    tx = ",\n   ".join("<<" + ", ".join(tla_line(LINES[c]) for c in t) + ">>" for t in texts)
    base = " @@ ".join(f'("{k}" :> {C.tla_str(set(v))})' for k, v in BASE.items())
    return f"""---- MODULE UnitEnvMC ----
EXTENDS UnitEnvRef, Json
MCBase == {base}
MCTypes == <<"Temperature", "Logarithmic", "Standard">>
MCUnitLists == {{{ul}}}
MCTexts == {{{tx}}}
MCUndo == {C.tla_str(undo)}
MCMaxOps == {maxops}
EmitInv == (Idle /\\ hist # <<>>) => PrintT(ToJson(hist))
====
"""


MC_CFG = """CONSTANTS
  BaseTable <- MCBase
  BaseTypes <- MCTypes
  UnitLists <- MCUnitLists
  DipTexts <- MCTexts
  UndoOnFail <- MCUndo
  NestedNumerical = FALSE
  MaxOps <- MCMaxOps
SPECIFICATION Spec
INVARIANT Restored
INVARIANT Usable
INVARIANT BaseIntact
INVARIANT AbsInv
PROPERTY AbsSpec
{emit}
CHECK_DEADLOCK FALSE
"""

# ----------------------------------------------------------------------------- replay

def _make_T1():
    from scinumtools.units.unit_types import UnitType

    class T1(UnitType):        # a custom conversion type that never claims a conversion
        def _istype(self):
            return False
    return T1


T1 = _make_T1()


_BASE_SNAPSHOT = None


def snapshot():
    from scinumtools.units.settings import UNIT_STANDARD, UNIT_PREFIXES, UNIT_TYPES
    return {"keys": list(UNIT_STANDARD.keys()),
            "rows": {k: repr(UNIT_STANDARD[k]) for k in UNIT_STANDARD.keys()},
            "prefixes": {k: repr(UNIT_PREFIXES[k]) for k in UNIT_PREFIXES.keys()},
            "types": list(UNIT_TYPES)}


def restore(base):
    """Force the global tables back (isolation between replayed behaviours)."""
    from scinumtools.units.settings import UNIT_STANDARD, UNIT_TYPES
    for k in list(UNIT_STANDARD.keys()):
        if k not in base["rows"]:
            del UNIT_STANDARD[k]
    UNIT_TYPES[:] = base["types"]


def observe(base):
    from scinumtools.units.settings import UNIT_STANDARD, UNIT_PREFIXES, UNIT_TYPES
    keys = list(UNIT_STANDARD.keys())
    custom = sorted(k for k in keys if k not in base["rows"])
    missing = sorted(k for k in base["rows"] if k not in keys)
    changed = sorted(k for k in base["rows"] if k in keys and repr(UNIT_STANDARD[k]) != base["rows"][k])
    pfx_ok = {k: repr(UNIT_PREFIXES[k]) for k in UNIT_PREFIXES.keys()} == base["prefixes"]
    return {"custom": custom, "base_missing": missing, "base_changed": changed,
            "ntypes": len(UNIT_TYPES), "types_are_base": list(UNIT_TYPES) == base["types"],
            "ctypes": sorted("T1" if t is T1 else getattr(t, "__name__", str(t)) for t in UNIT_TYPES if t not in base["types"]), "prefixes_intact": pfx_ok, "dupkeys": len(keys) != len(set(keys))}


class _Interrupting(dict):
    """A unit definition whose registration is interrupted when the table row is built."""
    def __getitem__(self, key):
        if key == "magnitude":
            raise KeyboardInterrupt()
        return dict.__getitem__(self, key)


def make_units(units, salt):
    d = {}
    for j, u in enumerate(units):
        e = {"magnitude": 2.0 + 0.25 * j + salt, "dimensions": [1, 0, 0, 0, 0, 0, 0, 0]}
        if u.get("interrupt") or u["sym"] == DESCR["INT"]["sym"]:      # (records from TLC carry only sym/pfx/typ/bad)
            e = _Interrupting(e)
        elif u.get("bad"):
            del e["magnitude"]
        if u["pfx"]:
            e["prefixes"] = list(u["pfx"])
        if u["typ"] == "Temperature":
            from scinumtools.units.unit_types import TemperatureUnitType
            e["definition"] = TemperatureUnitType
        elif u["typ"]:
            e["definition"] = T1
        d[u["sym"]] = e
    return d


def render_dip(text):
    lines = []
    for j, ln in enumerate(text):
        if ln["kind"] == "unit":
            lines.append(f"$unit {ln['sym'][1:-1]} = {2 + j} m")
        elif ln["kind"] == "use":
            lines.append(f"n{j} float = {j + 1} m" if j % 2 else f"n{j} int = {j + 1} m")
        elif ln["kind"] == "conv":
            lines += [f"c{j} float = 1 m", f"c{j} = 2 cm"]
        elif ln["kind"] == "convbad":
            lines += [f"c{j} float = 1 m", f"c{j} = 2 s"]          # raises inside NumberType.convert's scope
        elif ln["kind"] == "cond":
            lines += [f'@case ("1 m == 100 cm")', f"  k{j} int = 1", "@end"]
        elif ln["kind"] == "nest":
            lines.append(f'e{j} float = ("2 m + 1 m") m')
        elif ln["kind"] == "condbad":
            lines += [f'@case ("1 m == 1 s")', f"  k{j} int = 1", "@end"]
        elif ln["kind"] == "nestbad":
            lines.append(f'e{j} float = ("2 m + 1 s") m')
        elif ln["kind"] == "boolbad":
            lines.append(f'b{j} bool = ("1 m > 1 s")')
        elif ln["kind"] == "useu":
            lines += [f"u{j} float = 3 [len]", f"u{j} = 1 m"]
        elif ln["kind"] == "nestu":
            lines += [f"w{j} float = 2 [len]", f'e{j} float = ("{{?w{j}}} + 4 m") [len]']
        elif ln["kind"] == "condu":
            lines += [f"w{j} float = 23 [len]", f'@case ("{{?w{j}}} > 1 m")', f"  k{j} int = 1", "@else", f"  k{j} int = 2", "@end"]
        elif ln["kind"] == "boolu":
            lines += [f"w{j} float = 23 [len]", f'b{j} bool = ("{{?w{j}}} > 1 m")', f'd{j} bool = ("{{?w{j}}} < 1 mm")']
        else:
            lines.append(f"$unit q{j} = abc m")        # float('abc') raises inside the scope body
    return "\n".join(lines) + "\n"


def dip_values_wrong(text, env):
    """Values of the nodes that use [len] (first definition wins: `$unit len = <2+j> m`)."""
    L = None
    for j, ln in enumerate(text):
        if ln["kind"] == "unit" and ln["sym"] == "[len]" and L is None:
            L = 2 + j
    data = env.data(verbose=False) if False else env.data()
    def num(k):
        v = data[k]
        return float(getattr(v, "value", v))
    for j, ln in enumerate(text):
        exp = {}
        if ln["kind"] == "useu":
            exp[f"u{j}"] = 1.0 / L
        elif ln["kind"] == "nestu":
            exp[f"e{j}"] = 2 + 4.0 / L
        elif ln["kind"] == "condu":
            exp[f"k{j}"] = 1
        elif ln["kind"] == "boolu":
            exp[f"b{j}"] = True; exp[f"d{j}"] = False
        for k, want in exp.items():
            try:
                got = data[k] if isinstance(want, bool) else num(k)
            except Exception as e:
                return ({k: f"{type(e).__name__}: {e}"}, {k: want})
            if (isinstance(want, bool) and bool(got) is not want) or (not isinstance(want, bool) and abs(got - want) > 1e-9):
                return ({k: repr(got)}, {k: want})
    return None


def replay_hist(hist):
    """Execute one API-level behaviour on the real tables. -> (status, detail)"""
    from scinumtools.units import UnitEnvironment, Quantity
    from scinumtools.dip import DIP
    global _BASE_SNAPSHOT
    if _BASE_SNAPSHOT is None:
        _BASE_SNAPSHOT = snapshot()
    base = _BASE_SNAPSHOT
    restore(base)
    handles = []
    try:
        for n, op in enumerate(hist):
            res = "ok"
            if op["op"] == "open":
                try:
                    defs = make_units(op["arg"], n)
                    h = UnitEnvironment(defs)
                    handles.append((h, op["arg"], {k: v.get("magnitude") for k, v in defs.items()}))
                except BaseException:
                    res = "fail"
            elif op["op"] == "close":
                h, units, mags = handles.pop()
                h.close()
            elif op["op"] == "dip":
                denv = None
                try:
                    with DIP() as p:
                        p.add_string(render_dip(op["arg"]))
                        denv = p.parse()
                except Exception as e:
                    res = "fail"
                    dip_error = f"{type(e).__name__}: {str(e)[:160]}"
                uses = [ln["kind"] for ln in op["arg"] if ln["kind"] in NEEDS_LEN]
                if uses and op["res"] == "ok":
                    # "usable inside the scope": the text defines [len] before using it, so the parse must succeed
                    # and the nodes must have the values that the definition of [len] gives them
                    if res == "fail":
                        restore(base)
                        return ("violation", {"step": n + 1, "op": "dip", "arg": op["arg"], "clause": "a custom unit defined by the DIP text is not usable inside the parse",
                                              "observed": {"error": dip_error}, "expected": {"parse": "ok"}, "res": res})
                    bad = dip_values_wrong(op["arg"], denv)
                    if bad:
                        restore(base)
                        return ("violation", {"step": n + 1, "op": "dip", "arg": op["arg"], "clause": "a node that uses the custom unit of the DIP text does not have the value its definition gives",
                                              "observed": bad[0], "expected": bad[1], "res": res})
            o = observe(base)
            exp = op["expect"]
            want_custom = sorted(exp["custom"])
            clause = None
            if o["custom"] != want_custom:
                clause = "custom symbols in the global table differ from base + units of the open scopes"
            elif o["base_missing"] or o["base_changed"] or not o["prefixes_intact"] or o["dupkeys"]:
                clause = "a base row / prefix row changed or disappeared"
            elif o["ntypes"] != exp["ntypes"] or o["ctypes"] != sorted(exp["ctypes"]) or (not exp["ctypes"] and not o["types_are_base"]):
                clause = "conversion-type list differs from base + types of the open scopes"
            elif res != op["res"]:
                # accept/reject of the call itself: conformance of the machine (the property is about the tables)
                return ("drift", {"step": n + 1, "op": op["op"], "spec": op["res"], "code": res})
            if clause:
                return ("violation", {"step": n + 1, "op": op["op"], "arg": op["arg"], "observed": o,
                                      "expected": {"custom": want_custom, "ntypes": exp["ntypes"], "ctypes": sorted(exp["ctypes"])}, "clause": clause,
                                      "res": res})
            # usable inside the scope / unusable outside
            for h, units, mags in handles:
                for u in units:
                    try:
                        got = Quantity(1, u["sym"]).value("m")
                    except Exception as e:
                        return ("violation", {"step": n + 1, "clause": "unit of an open scope is not usable", "sym": u["sym"],
                                              "observed": o, "expected": {}})
                    if abs(got - mags[u["sym"]]) > 1e-9 * abs(mags[u["sym"]]):
                        return ("violation", {"step": n + 1, "clause": "unit of an open scope does not have the definition it was registered with",
                                              "sym": u["sym"], "observed": {"value_in_m": got}, "expected": {"value_in_m": mags[u["sym"]]}})
        return ("ok", None)
    finally:
        restore(base)


def tags_of(hist, det):
    """Feature tags of a failing behaviour, from the spec-level description of the failing step."""
    op = hist[det["step"] - 1]
    tags = [op["op"], "res:" + op["res"]]
    return tags


# ----------------------------------------------------------------------------- trace validation of the test-suite

PLUGIN = r'''
import json, os, sys
import pytest
_EVENTS = {}
_CUR = [None]
def _custom():
    from scinumtools.units.settings import UNIT_STANDARD
    return sorted(k for k in UNIT_STANDARD.keys() if k not in _BASE)
def _emit(ev, **kw):
    if _CUR[0] is None: return
    e = {"ev": ev, "custom": _custom()}
    from scinumtools.units.settings import UNIT_TYPES
    e["ntypes"] = len(UNIT_TYPES)
    e.update(kw)
    _EVENTS.setdefault(_CUR[0], []).append(e)
def pytest_configure(config):
    global _BASE, _NT
    from scinumtools.units import unit_environment as UE
    from scinumtools.units.settings import UNIT_STANDARD, UNIT_TYPES
    _BASE = set(UNIT_STANDARD.keys())
    orig_init = UE.UnitEnvironment.__init__
    orig_close = UE.UnitEnvironment.close
    depth = [0]
    def init(self, units):
        syms = [str(k) for k in units.keys()]
        _emit("begin", syms=syms)
        ok = False
        depth[0] += 1
        try:
            orig_init(self, units); ok = True
        finally:
            depth[0] -= 1
            _emit("initok" if ok else "initfail", syms=syms, new=[str(x) for x in getattr(self, "new_units", [])])
    def close(self):
        try:
            orig_close(self)
        finally:
            # close() called by a failing constructor is an internal undo step, not the end of a scope
            _emit("undo" if depth[0] > 0 else "close", new=[str(x) for x in self.new_units])
    UE.UnitEnvironment.__init__ = init
    UE.UnitEnvironment.close = close
@pytest.hookimpl(hookwrapper=True)
def pytest_runtest_call(item):
    _CUR[0] = item.nodeid
    _emit("start")
    yield
    _emit("end")
    _CUR[0] = None
def pytest_sessionfinish(session):
    out = os.environ["VERIF_UE_TRACE"]
    json.dump([{"test": k, "events": v} for k, v in _EVENTS.items()], open(out, "w"))
'''

TRACE_MODULE = """---- MODULE UnitEnvTrace ----
(* Recorded scope events of one test must be a behaviour of the scope discipline of UnitEnv.tla,
   at the grain the tracer can see from outside: begin / initok / initfail / close with the set of
   custom symbols in the global table after the event.  State: stack of open scopes (their symbols). *)
EXTENDS Naturals, Sequences, FiniteSets, TLC, Json, IOUtils
Traces == JsonDeserialize(IOEnv.TRACE_FILE)
VARIABLES tid, ln, stack, pending
ToSet(s) == {s[j] : j \\in 1..Len(s)}
Tr == IF tid = 0 THEN <<>> ELSE Traces[tid].events
Ev == Tr[ln]
Open == UNION {stack[j] : j \\in 1..Len(stack)}
Init == tid = 0 /\\ ln = 1 /\\ stack = <<>> /\\ pending = <<>>
Choose == tid = 0 /\\ tid' \\in 1..Len(Traces) /\\ UNCHANGED <<ln, stack, pending>>
Step(e) == tid > 0 /\\ ln <= Len(Tr) /\\ Ev.ev = e /\\ ln' = ln + 1 /\\ tid' = tid
\\* the ideal: after every completed API call the custom symbols in the table are those of the open scopes
Start == Step("start") /\\ ToSet(Ev.custom) = {} /\\ UNCHANGED <<stack, pending>>
Begin == Step("begin") /\\ pending' = Append(pending, ToSet(Ev.syms)) /\\ UNCHANGED stack
InitOk == /\\ Step("initok") /\\ pending # <<>>
          /\\ stack' = Append(stack, pending[Len(pending)]) /\\ pending' = SubSeq(pending, 1, Len(pending) - 1)
          /\\ (pending' = <<>> => ToSet(Ev.custom) = Open')
InitFail == /\\ Step("initfail") /\\ pending # <<>>
            /\\ pending' = SubSeq(pending, 1, Len(pending) - 1) /\\ UNCHANGED stack
            /\\ (pending' = <<>> => ToSet(Ev.custom) = Open)          \\* a failed constructor leaves nothing behind
Close == /\\ Step("close") /\\ stack # <<>>
         /\\ stack' = SubSeq(stack, 1, Len(stack) - 1) /\\ UNCHANGED pending
         /\\ (pending = <<>> => ToSet(Ev.custom) = Open')
Undo == Step("undo") /\\ pending # <<>> /\\ UNCHANGED <<stack, pending>>
End == Step("end") /\\ ToSet(Ev.custom) = {} /\\ UNCHANGED <<stack, pending>>
Next == Choose \\/ Start \\/ Begin \\/ InitOk \\/ InitFail \\/ Close \\/ Undo \\/ End
Accept == (tid > 0 /\\ ln = Len(Tr) + 1) => PrintT(<<"ACCEPT", tid>>)
====
"""

TRACE_CFG = """INIT Init
NEXT Next
INVARIANT Accept
CHECK_DEADLOCK FALSE
"""


def trace_testsuite(wd):
    """Run tests/dip and tests/units under the tracer; validate every test's scope events. -> (n_ok, rejected list)"""
    plug = os.path.join(wd, "verif_ue_plugin.py")
    open(plug, "w").write(PLUGIN)
    out = os.path.join(wd, "ue_traces.json")
    env = dict(os.environ, VERIF_UE_TRACE=out, PYTHONPATH=wd + os.pathsep + os.environ.get("PYTHONPATH", ""))
    p = subprocess.run(["/venv/bin/python", "-m", "pytest", "-q", "-p", "no:cacheprovider", "-p", "verif_ue_plugin",
                        "tests/dip", "tests/units", "-x", "-q"], cwd=C.REPO, env=env,
                       stdout=subprocess.PIPE, stderr=subprocess.STDOUT, text=True, timeout=600)
    if not os.path.exists(out):
        raise C.MachineryError("tracer run produced no trace file:\n" + p.stdout[-2000:])
    traces = [t for t in json.load(open(out)) if len(t["events"]) > 2]
    json.dump(traces, open(out, "w"))
    open(os.path.join(wd, "UnitEnvTrace.tla"), "w").write(TRACE_MODULE)
    r = C.run_tlc(wd, "UnitEnvTrace", TRACE_CFG, env={"TRACE_FILE": out}, want_records=False, copy_specs=False)
    acc = {int(m.group(1)) for m in re.finditer(r'<<"ACCEPT", (\d+)>>', r.stdout)}
    rej = [traces[i - 1]["test"] for i in range(1, len(traces) + 1) if i not in acc]
    nev = sum(len(t["events"]) for t in traces)
    return len(acc), rej, r, nev


APA_MC = """---- MODULE MC_UnitEnvAbs ----
EXTENDS Integers, FiniteSets
Syms == {"x", "y", "m", "tq", "tr", "tb"}
BaseSyms == {"m", "mol"}
Types == {"T1", "Temperature"}
BaseTypes == {"Temperature", "Standard"}
TypOf == [s \\in Syms \\cup BaseSyms |-> IF s \\in {"tq", "tr"} THEN "T1" ELSE IF s = "tb" THEN "Temperature" ELSE "none"]
MaxId == 4
UndoOnFail == %s
VARIABLES
  \\* @type: Str -> Int;
  owner,
  \\* @type: Str -> Int;
  towner,
  \\* @type: Set(Int);
  live,
  \\* @type: Int;
  reg,
  \\* @type: Int -> Set(Str);
  units,
  \\* @type: Int -> Set(Str);
  done,
  \\* @type: Int;
  nextid
INSTANCE UnitEnvAbs
Safety == Restored /\\ BaseIntact /\\ Usable
====
"""


def apalache_proof(wd):
    """Apalache: IndInv of UnitEnvAbs.tla is inductive and implies Restored / BaseIntact / Usable (no bound on the length of
    behaviours); without undo-on-failure Safety fails within 4 steps (the proof is not vacuous).  Spec-level only."""
    import shutil, time
    d = os.path.join(wd, "apalache")
    os.makedirs(d, exist_ok=True)
    shutil.copy(os.path.join(C.ROOT, "spec", "UnitEnvAbs.tla"), d)
    out = {}
    def run(name, undo, *args):
        open(os.path.join(d, "MC_UnitEnvAbs.tla"), "w").write(APA_MC % undo)
        t0 = time.time()
        try:
            p = subprocess.run(["apalache-mc", "check", *args, f"--out-dir={d}/out", "MC_UnitEnvAbs.tla"], cwd=d, capture_output=True, text=True, timeout=900)
            o = "NoError" if "The outcome is: NoError" in p.stdout else ("Error" if "The outcome is: Error" in p.stdout else "failed:" + p.stdout[-200:])
        except Exception as e:
            o = f"not run: {type(e).__name__}"
        out[name] = {"outcome": o, "wall_s": round(time.time() - t0, 1)}
    run("Init => IndInv", "TRUE", "--init=Init", "--inv=IndInv", "--length=0")
    run("IndInv /\\ Next => IndInv'", "TRUE", "--init=IndInv", "--inv=IndInv", "--length=1")
    run("IndInv => Restored /\\ BaseIntact /\\ Usable", "TRUE", "--init=IndInv", "--inv=Safety", "--length=0")
    run("sensitivity: without undo Safety fails (expected outcome Error)", "FALSE", "--init=Init", "--inv=Safety", "--length=4")
    shutil.rmtree(d, ignore_errors=True)
    return out


def run(replay=None):
    V = C.Verdicts(PID, "model_checking")
    if replay:
        body = json.load(open(replay))
        st, det = replay_hist(body["scenario"]["hist"])
        print(f"replay {replay}: {st} {det}")
        if st == "violation":
            print(f"VIOLATION property={PID} replay={replay}")
            return 1
        return 0
    wd = C.workdir(PID)
    t = C.tier()
    if t == "quick":
        ul = unit_lists(2, ["X", "Y", "M", "OL", "T", "T2", "TB", "BAD", "BADP"]) + [("X", "Y", "M"), ("X", "T", "OL"), ("T", "Y", "X"), ("X", "T", "BADP"),
                                                                                           ("INT",), ("X", "INT"), ("T2", "INT"), ("X", "Y", "INT")]
        tx = dip_texts(2, ["len", "c", "use", "bad", "conv", "convbad", "cond", "nest"]) + [("len", "c", "use"), ("len", "len", "use"), ("c", "len", "bad"), ("len", "use", "bad"), ("len", "bad", "use")] + \
             [("len", "wid", "c", "use"), ("len", "c", "wid", "bad"), ("len", "c", "convbad"), ("len", "wid", "nest"), ("len", "cond", "convbad"), ("len", "conv", "c", "use")]
        tx += [("len", "condbad"), ("len", "nestbad"), ("len", "boolbad"), ("condbad",), ("nestbad",), ("boolbad",), ("len", "wid", "condbad"), ("len", "use", "boolbad"),
               ("len", "useu"), ("len", "nestu"), ("len", "condu"), ("len", "boolu"), ("useu",), ("nestu",), ("condu",), ("wid", "nestu"),
               ("len", "wid", "nestu"), ("len", "condu", "nestu"), ("len", "nestu", "boolu", "useu"), ("len", "bad", "nestu"), ("len", "useu", "convbad")]
        tx = sorted(set(tx))
        ul3 = [("X",), ("Y",), ("X", "Y"), ("Y", "M"), ("X", "OL"), ("T",), ("T2",), ("TB",), ("T2", "M"), ("XK", "Y"), ("Y", "BAD"), ("X", "INT")]
        tx3 = [("len", "use"), ("len", "c", "use"), ("len", "bad"), ("c", "len", "use"), ("len", "convbad"), ("len", "nest"), ("len", "nestu"), ("len", "condu"), ("len", "condbad"), ("len", "boolbad")]
    else:
        # (all 3-unit lists over 8 descriptors x all texts of 4 lines squared exhausts memory: 2.6 M behaviours)
        ul = unit_lists(2, ["X", "Y", "M", "OL", "T", "T2", "TB", "BAD", "BADP", "XK"]) + unit_lists(3, ["X", "M", "T", "OL"]) + unit_lists(2, ["X", "T2", "INT"])
        ul = sorted(set(ul))
        tx = sorted(set(dip_texts(2, ["len", "wid", "c", "use", "bad", "conv", "convbad", "cond", "nest"]) + dip_texts(3, ["len", "c", "use", "bad"])
                        + [("len", "wid", "c", "use"), ("len", "c", "wid", "bad"), ("len", "len", "c", "use"), ("len", "use", "use", "bad")] + dip_texts(2, ["len", "wid", "useu", "nestu", "condu", "boolu"])
                        + [("len",) + x for x in dip_texts(2, ["useu", "nestu", "condu", "boolu", "bad", "c"])]
                        + dip_texts(2, ["len", "condbad", "nestbad", "boolbad", "use"])))
        ul3 = unit_lists(1, ["X", "Y", "M", "OL", "T", "T2", "TB", "BAD", "INT"]) + unit_lists(2, ["X", "M", "T"]) + [("X", "OL"), ("T2", "M"), ("XK", "Y"), ("Y", "BAD"), ("X", "INT")]
        tx3 = dip_texts(1, ["len", "c", "use", "convbad", "nest"]) + [("len", "use"), ("len", "c"), ("c", "len"), ("len", "len")] + [("len", "convbad"), ("len", "nest"), ("len", "c", "use"), ("c", "len", "bad"), ("len", "nestu"), ("len", "condu"), ("len", "boolu"), ("nestu",)]
    # A: every unit list / text, behaviours of 2 calls; B: a core subset, behaviours of 3 calls (deeper nesting)
    open(os.path.join(wd, "UnitEnvMC.tla"), "w").write(mc_module(ul, tx, True, 2))
    r = C.run_tlc(wd, "UnitEnvMC", MC_CFG.format(emit="INVARIANT EmitInv"), coverage=False)
    open(os.path.join(wd, "UnitEnvMC.tla"), "w").write(mc_module(ul3, tx3, True, 3))
    rB = C.run_tlc(wd, "UnitEnvMC", MC_CFG.format(emit="INVARIANT EmitInv"), coverage=False)
    for rr in (r, rB):
        if rr.violated:
            V.drift(f"TLC: {rr.violated} violated on UnitEnv.tla (spec-level; the code is judged by the replay below)")
            V.notes.append(f"TLC: {rr.violated} violated on the spec of the intended algorithm: {rr.cex[:600]}")
    maxops = 3
    # sensitivity: the constructor without undo leaks
    open(os.path.join(wd, "UnitEnvMC.tla"), "w").write(mc_module(ul[:30], tx[:30], False, 2))
    r0 = C.run_tlc(wd, "UnitEnvMC", MC_CFG.format(emit=""), want_records=False)
    hists = r.records + rB.records
    # replay (in-process, serial per worker; each behaviour restores the tables)
    res = C.pmap(replay_hist, hists)
    nontrivial = set()
    for h, (st, det) in zip(hists, res):
        if any(op["res"] == "fail" for op in h):
            nontrivial.add(json.dumps(h, sort_keys=True))
        if st == "violation":
            V.fail({"hist": h}, det.get("expected"), det.get("observed"), f"after call {det['step']}: {det['clause']}",
                   tags=tags_of(h, det), failure="tables-not-restored")
        elif st == "drift":
            V.drift(json.dumps(det)[:300])
        else:
            V.ok()
    # trace validation of the repository's own tests
    nacc, rej, rt, nev = trace_testsuite(wd)
    for name in rej[:10]:
        # a test whose scope events are not a behaviour of the scope discipline: the tables were observed
        # with foreign symbols at a call boundary -> this IS an API-level observation contradicting the ideal
        V.fail({"test": name}, "custom symbols = units of the open scopes at every call boundary", "trace rejected",
               f"scope events recorded while running {name} are not a behaviour of UnitEnvTrace", tags=["testsuite"],
               failure="tables-not-restored")
    V.cov.update({
        "states": r.distinct + rB.distinct + rt.distinct, "transitions": r.generated + rB.generated + rt.generated,
        "traces_validated_against_impl": len(hists) + nacc,
        "evaluations": len(hists), "distinct_nontrivial": len(nontrivial),
        "rule": f"all behaviours of <= {maxops} API calls over {len(ul)} unit lists (fresh / existing / prefix-clashing / typed units) and "
                f"{len(tx)} DIP texts of $unit / unit-using / failing lines, constructor modelled per registration step (TLC, exhaustive); "
                "each replayed on the real global tables with a comparison after every call; non-trivial = behaviours containing a failing call; "
                f"plus {nacc} tests of tests/dip and tests/units validated under the tracer ({nev} scope events)",
        "samples": hists[200:202] + hists[-1:],
        "exhaustive": True,
        "spec_sensitivity_without_undo": r0.violated or "none",
        "testsuite_traces_rejected": rej,
    })
    if t == "thorough" or os.environ.get("VERIF_APALACHE"):
        V.cov["apalache_inductive_invariant"] = apalache_proof(wd)
    V.cov["refinement"] = "every transition TLC explored of UnitEnv.tla is a step (or stuttering) of UnitEnvAbs.tla under the mapping of UnitEnvRef.tla (PROPERTY AbsSpec), and maps into its inductive invariant (INVARIANT AbsInv)"
    V.assumptions += ["the base tables are given; only their stability is checked",
                      "scopes are closed innermost-first (with-statement discipline)"]
    C.cleanup(PID)
    return V.finish()
