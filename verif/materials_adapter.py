"""Adapter between the materials specs (spec/Formula*.tla, Composite.tla, Matter.tla) and scinumtools.materials.

Only: generate table modules from the live library, choose inputs, render abstract scenarios to concrete
text/objects, observe the real objects.  What must hold is decided by TLC (obligations), evaluated by terms.py.
"""
import os, re, warnings, random, json

warnings.filterwarnings("ignore")
import numpy as np

np.seterr(all="ignore")

from scinumtools.materials import Element, Substance, Material, Norm, SubstanceSolver
from scinumtools.materials.periodic_table import PT_DATA
from scinumtools.units import Quantity

AB_SCALE = 10 ** 8          # abundances are tabulated with <= 8 decimals (checked below)


# ----------------------------------------------------------------------------- tables

def write_tables(wd):
    """FormulaTables.tla: PT == el -> [Z, iso: <<[A, ab]>>] from the live periodic table (abundance in 1e-8)."""
    rows = []
    for el, (Z, iso) in PT_DATA.items():
        isos = []
        for A, (mass, ab) in iso.items():
            abi = round(ab * AB_SCALE)
            if abs(abi - ab * AB_SCALE) > 1e-6:
                raise ValueError(f"abundance of {el}-{A} has more than 8 decimals; raise AB_SCALE")
            isos.append(f"[A |-> {int(A)}, ab |-> {abi}]")
        rows.append(f'  {el} |-> [Z |-> {int(Z)}, iso |-> <<{", ".join(isos)}>>]')
    text = ("---- MODULE FormulaTables ----\n"
            "\\* generated from the live scinumtools.materials.periodic_table on every run - do not edit\n"
            "PT == [\n" + ",\n".join(rows) + "\n]\n====\n")
    with open(os.path.join(wd, "FormulaTables.tla"), "w") as f:
        f.write(text)


_UNIT_CACHE = {}


def tab(table, k1, k2):
    """Entries of the library's own tables (the property treats them as given)."""
    if table == "mass":
        return PT_DATA[k1][1][k2][0]
    if table == "ab":
        return PT_DATA[k1][1][k2][1]
    if table == "unit":                 # value of 1 <k1> expressed in <k2>, from the unit tables (C03/C04 cover those)
        key = (k1, k2)
        if key not in _UNIT_CACHE:
            _UNIT_CACHE[key] = Quantity(1.0, k1).value(k2)
        return _UNIT_CACHE[key]
    raise KeyError(table)


# ----------------------------------------------------------------------------- species

def sp_text(sp):
    """Concrete text of a species binding [el, A, ion, nuc] (+ optional 'alias' D/T, 'ionfmt')."""
    if sp["nuc"]:
        return "[%s]" % sp["nuc"]
    sym = sp.get("alias") or sp["el"]
    A, ion = sp["A"], sp["ion"]
    if sp.get("alias"):                 # D == H{2}, T == H{3}: the isotope is in the symbol
        if ion == 0:
            return sym
        if sp.get("aliasfull"):         # D{2-1}
            return "%s{%d%s}" % (sym, A, ion_text(ion, sp.get("ionfmt")))
        return "%s{%s}" % (sym, ion_text(ion, sp.get("ionfmt")))
    if A and ion:
        return "%s{%d%s}" % (sym, A, ion_text(ion, sp.get("ionfmt")))
    if A:
        return "%s{%d}" % (sym, A)
    if ion:
        return "%s{%s}" % (sym, ion_text(ion, sp.get("ionfmt")))
    return sym


def ion_text(ion, fmt=None):
    if abs(ion) == 1 and fmt == "bare":     # C{+}, C{12-}
        return "+" if ion > 0 else "-"
    return "%+d" % ion


def sp_key(sp):
    return "%s|%s|%d|%d" % (sp["nuc"], sp["el"], sp["A"], sp["ion"])


def species_pool():
    """Every nucleon, every element with unspecified isotope, every tabulated isotope (neutral)."""
    def mk(el, A, nuc=""):
        return dict(el=el, A=A, ion=0, nuc=nuc, alias="", aliasfull=False)
    pool = [mk("", 0, n) for n in "pne"]
    for el, (Z, iso) in PT_DATA.items():
        pool.append(mk(el, 0))
        for A in iso:
            pool.append(mk(el, int(A)))
    return pool


# species that are NOT in the tables: an unknown symbol, isotopes that are not tabulated
UNTABULATED = [dict(el="Xx", A=0, ion=0, nuc="", alias="", aliasfull=False),
               dict(el="C", A=15, ion=0, nuc="", alias="", aliasfull=False),
               dict(el="Fe", A=70, ion=2, nuc="", alias="", aliasfull=False)]


def no_abundance(el):
    return sum(ab for _, ab in PT_DATA[el][1].values()) == 0


def with_charge(sp, rnd):
    """A charged / aliased variant of a pool species (the signed number in the suffix is added to the electrons)."""
    sp = dict(sp)
    if sp["nuc"]:
        return sp
    Z = PT_DATA[sp["el"]][0]
    r = rnd.random()
    if r < 0.45:
        # charge numbers of one digit and, for a third of the charged species, of two digits (down to the bare
        # nucleus: the number of electrons stays >= 0; up to +40)
        if rnd.random() < 0.33:
            cand = [i for i in range(-min(Z, 40), -9)] + list(range(10, 41))
        else:
            cand = [i for i in range(-min(Z, 9), 10) if i != 0]
        sp["ion"] = rnd.choice(cand)
        if abs(sp["ion"]) == 1 and rnd.random() < 0.5:
            sp["ionfmt"] = "bare"
    if sp["el"] == "H" and sp["A"] in (2, 3) and rnd.random() < 0.6:
        sp["alias"] = "D" if sp["A"] == 2 else "T"
        if sp["ion"] and rnd.random() < 0.5:
            sp["aliasfull"] = True
    return sp


# ----------------------------------------------------------------------------- rendering

def render(toks, bind, rnd=None, wide=False):
    """Abstract token string -> formula text.  ' ' / ' + ' / ' * ' keep their documented blanks; with wide=True
    separators get extra blanks (only where a separator already stands)."""
    out = []
    for t in toks:
        if t in bind:
            out.append(sp_text(bind[t]))
        elif t == " ":
            out.append(" " * (rnd.choice([1, 2, 3]) if wide and rnd else 1))
        elif t in (" + ", " * ") and wide and rnd:
            out.append(" " * rnd.choice([1, 2]) + t.strip() + " " * rnd.choice([1, 2]))
        else:
            out.append(t)
    return "".join(out)


_SPLIT = re.compile(r"(\s\+\s|\s\*\s|\(|\))")


def pre_tokens(text, inv):
    """Tokens of SubstanceSolver.preprocess(text) in the vocabulary of the spec (inv: species text -> variable).
    Mirrors how the expression solver cuts the text: operator symbols ' + ', ' * ', '(' ; everything else is atom text."""
    sub = Substance()
    with SubstanceSolver(sub.atom) as ss:
        p = ss.preprocess(text)
    out = []
    for part in _SPLIT.split(p):
        if part is None or part == "":
            continue
        s = part.strip()
        if part in ("(", ")"):
            out.append(part)
        elif re.fullmatch(r"\s\+\s", part):
            out.append(" + ")
        elif re.fullmatch(r"\s\*\s", part):
            out.append(" * ")
        elif s == "":
            continue
        else:
            out.append(inv.get(s, s))
    return out


# ----------------------------------------------------------------------------- observation of a Substance

def observe_substance(s, inv, px, obs):
    """Project a real Substance onto observation paths  px+count.v, px+comp.v.{Z,N,e,mass}, px+sum.{..}, px+ncomp.
    Components are attributed to variables by their expression text; anything else keeps its text as name
    (and makes 'ncomp' / the missing counts disagree)."""
    comps = s.components
    obs[px + "ncomp"] = len(comps)
    dc = s.data_components(quantity=False)
    for expr, comp in comps.items():
        v = inv.get(expr, "?" + expr)
        obs[px + "count." + v] = comp.proportion
        row = dc[expr]
        obs[px + "comp." + v + ".Z"] = row.Z
        obs[px + "comp." + v + ".N"] = row.N
        obs[px + "comp." + v + ".e"] = row.e
        obs[px + "comp." + v + ".mass"] = row.mass
        if comp.proportion != row["count"]:
            obs[px + "count." + v] = float("nan")          # the two views of the count must agree
    tot = s.data_composite(quantity=False)["sum"]
    for c in ("Z", "N", "e", "mass", "x", "X"):
        obs[px + "sum." + c] = tot[c]
    # the totals the object reports outside the tables (print(): "Total mass", "Total number"; a Material takes
    # component_mass as the mass of this substance)
    obs[px + "total.mass"] = s.component_mass.value("Da")
    obs[px + "total.number"] = s.proportion_norm
    return obs


OTHER_UNIT = {"Da": "g", "g": "kg", "g/cm3": "kg/m3", "cm-3": "m-3", "%": "1"}


def perturb_reported(obj):
    """What a caller may do with what the object hands out: convert every reported Quantity, in place, to another
    compatible unit (Quantity.to() converts in place and returns self).  Returns the number of conversions."""
    n = 0
    def conv(q, unit):
        nonlocal n
        if isinstance(q, Quantity):
            q.to(unit); n += 1
    for getter in ("data_components", "data_composite", "data_matter"):
        fn = getattr(obj, getter, None)
        if fn is None or (getter == "data_matter" and not getattr(obj, "number_density", None)):
            continue
        try:
            table = fn()
        except Exception:
            continue
        if table is None:
            continue
        for key in table.keys():
            row = table[key]
            for col in ("mass", "M"):
                if col in row.keys():
                    conv(row[col], "kg")
            for col, u in (("n", "m-3"), ("rho", "kg/m3")):
                if col in row.keys():
                    conv(row[col], u)
    for attr, u in (("component_mass", "g"), ("mass_density", "kg/m3"), ("number_density", "m-3"), ("volume", "m3"), ("mass", "kg")):
        conv(getattr(obj, attr, None), u)
    for comp in getattr(obj, "components", {}).values():
        conv(getattr(comp, "component_mass", None), "g")
    return n


# ----------------------------------------------------------------------------- composites and matter (C11, C12)

FORMULA_POOL = ["H2O", "NaCl", "CO2", "N2", "O2", "Ar", "CH4", "C2H6O", "Ca(OH)2", "NH3", "H2SO4", "Fe2O3", "SiO2",
                "C6H12O6", "He", "U{238}O2", "D2O", "Al2(SO4)3", "CaCO3", "KMnO4", "NaHCO3", "C8H18", "UF6", "Pb", "Au",
                "B{11}N{14}H{1}6", "[p]", "H{1-1}", "Fe{56+2}O", "MgCl2", "HCl", "LiF", "TiO2", "ZnS", "Cu", "Xe{129}",
                "C{13}O{18}2", "Na{+1}", "Cl{-1}", "T2O", "[n]", "Tc{98}", "Pu{239}O2"]


def pick_species(rnd, natural, n):
    """n distinct species texts usable in the given isotope mode (elements without abundances only with an isotope)."""
    pool = [s for s in species_pool() if s["nuc"] or s["A"] or not no_abundance(s["el"])]
    out, keys = [], set()
    while len(out) < n:
        sp = with_charge(rnd.choice(pool), rnd)
        if sp.get("alias") and sp["ion"] and not sp.get("aliasfull"):
            continue                     # 'D{-1}': open finding of C10, not the business of C11/C12
        k = sp_text(sp)
        if k not in keys:
            keys.add(k); out.append(k)
    return out


def build_object(o, names, props, natural, d=None, v=None, form="dict", texts=None):
    """o: object description emitted by TLC (cls, mode, given, vol, ud, uv).  Always fresh Quantity objects."""
    kw = {}
    if o.get("given") == "rho":
        kw["mass_density"] = Quantity(d, o["ud"])
    elif o.get("given") == "n":
        kw["number_density"] = Quantity(d, o["ud"])
    if o.get("vol"):
        kw["volume"] = Quantity(v, o["uv"])
    if o["cls"] == "element":
        return Element(names[0], proportion=props[0], natural=natural, **kw)
    form = o.get("form") or form
    if o["cls"] == "substance":
        if form == "text":            # a formula: species with integer counts
            text = "".join(n + (str(int(p)) if int(p) != 1 else "") for n, p in zip(names, props))
            return Substance(text, natural=natural, **kw)
        return Substance(dict(zip(names, props)), natural=natural, **kw)
    if form in ("text", "string"):
        # a proportion is written in the spelling the harness drew for it, when that spelling denotes exactly this value
        spell = [texts[i] if texts and i < len(texts) and float(texts[i]) == float(p) else num_text(p) for i, p in enumerate(props)]
        text = " ".join("%s <%s>" % (t, n) for n, t in zip(names, spell))
        return Material(text, natural=natural, norm_type=Norm[o["mode"]], **kw)
    return Material(dict(zip(names, props)), natural=natural, norm_type=Norm[o["mode"]], **kw)


def material_text(names, props, texts=None):
    spell = [texts[i] if texts and i < len(texts) and float(texts[i]) == float(p) else num_text(p) for i, p in enumerate(props)]
    return " ".join("%s <%s>" % (t, n) for n, t in zip(names, spell))


def solve_with_reused_solver(o, names, props, natural, texts=None):
    """One MaterialSolver instance is given an expression it must reject after it has read part of it (a substance that
    is not tabulated), then the expression of the scenario; the material it returns is observed."""
    from scinumtools.materials import MaterialSolver
    proto = Material(natural=natural, norm_type=Norm[o["mode"]])
    text = material_text(names, props, texts)
    with MaterialSolver(proto.atom) as ms:
        try:
            ms.solve(text + " 1 <Xx2>")
        except Exception:
            pass
        return ms.solve(text)


def num_text(p):
    """A proportion as the material expression syntax accepts it (Python's shortest spelling; may use an exponent)."""
    return repr(float(p)) if float(p) != int(p) else str(int(p))


def observe_fractions(obj, names, nm, obs, sels=()):
    # row selections: data_composite(components=[...]) (the list given in component order or reversed)
    for n, sel in enumerate(sels):
        chosen = [names[i - 1] for i in sel]
        dsel = obj.data_composite(components=chosen if n % 2 == 0 else chosen[::-1], quantity=False)
        sid = "%s.sel.%s" % (nm, "".join(str(i) for i in sel))
        for i in sel:
            obs["%s.x.%d" % (sid, i)] = dsel[names[i - 1]].x
            obs["%s.X.%d" % (sid, i)] = dsel[names[i - 1]].X
        obs[sid + ".sum.x"] = dsel["sum"].x
        obs[sid + ".sum.X"] = dsel["sum"].X
    dc = obj.data_composite(quantity=False)
    for i, name in enumerate(names, 1):
        obs["%s.m.%d" % (nm, i)] = obj.components[name].component_mass.value("Da")
        obs["%s.x.%d" % (nm, i)] = dc[name].x
        obs["%s.X.%d" % (nm, i)] = dc[name].X
    obs[nm + ".sum.x"] = dc["sum"].x
    obs[nm + ".sum.X"] = dc["sum"].X


def observe_matter(obj, o, names, nm, obs):
    obs[nm + ".rho"] = obj.mass_density.value("g/cm3")
    obs[nm + ".n"] = obj.number_density.value("cm-3")
    if o["vol"]:
        obs[nm + ".mass"] = obj.mass.value("g")
    dm = obj.data_matter(quantity=False)
    cols = ["n", "rho"] + (["M"] if o["vol"] else [])
    for i, name in enumerate(names, 1):
        if o["cls"] == "element":
            obs["%s.m.%d" % (nm, i)] = obj.component_mass.value("Da")
        else:
            obs["%s.m.%d" % (nm, i)] = obj.components[name].component_mass.value("Da")
        for c in cols:
            obs["%s.row.%s.%d" % (nm, c, i)] = dm[name][c]
    if o["cls"] != "element":
        for c in cols:
            obs["%s.sum.%s" % (nm, c)] = dm["sum"][c]


def replay_objects(rec, conc, what):
    """Make and observe the objects of one TLC scenario, in order, under one concretisation; evaluate the obligations.
    conc: {names, natural, inp: {path: value}, form}.  what: 'fractions' | 'matter'.
    how (from the spec): build (+ steps add(component i, q)) | sum of two earlier objects | perturb (the caller converts
    every reported quantity of an earlier object in place) | again (an earlier object observed once more).
    -> ('ok', None) | ('fail', detail)"""
    from . import terms as T
    obs, inp = {}, dict(conc["inp"])
    env = T.Env(obs=obs, inp=inp, tab=tab)
    built, py, desc_of = [], {}, {}
    allnames = conc["names"]
    for o in rec["objects"]:
        how = o.get("how", "build")
        names = allnames[:len(o["eff"])] if "eff" in o else allnames          # the object has the first Len(eff) components
        desc = {"object": o["name"], "how": how, "cls": o["cls"], "mode": o["mode"], "names": names, "natural": conc["natural"]}
        built.append(desc)
        try:
            if how == "build":
                try:
                    props = [T.ev(t, env) for t in o["props"]]
                    d = T.ev(o["d"], env) if what == "matter" else None
                    v = T.ev(o["v"], env) if what == "matter" and o["vol"] else None
                    steps = [(st["i"], T.ev(st["q"], env)) for st in o.get("steps", [])]
                except T.Missing as m:
                    return ("fail", {"failure": "wrong_value", "clause": "input of object %s needs %s" % (o["name"], m), "observed": obs})
                form = o.get("form") or (conc.get("form", "dict") if o["name"] == "A" else "dict")
                desc.update({"props": props, "d": d, "ud": o.get("ud"), "v": v, "uv": o.get("uv"), "steps": steps, "form": form})
                if o.get("via") == "reused_solver":
                    obj = solve_with_reused_solver(o, names, props, conc["natural"], conc.get("texts"))
                else:
                    obj = build_object(o, names, props, conc["natural"], d, v, form, conc.get("texts"))
                for i, q in steps:
                    obj.add(names[i - 1], q)                    # in place, the component exists already
                desc_of[o["name"]] = o
            elif how == "sumc":
                q = T.ev(o["q"], env)
                name = allnames[o["comp"] - 1]
                comp = Element(name, proportion=q, natural=conc["natural"]) if o["cls"] == "substance" \
                    else Substance(name, proportion=q, natural=conc["natural"])
                desc.update({"component": name, "q": q})
                obj = py[o["of"][0]] + comp
                desc_of[o["name"]] = dict(desc_of[o["of"][0]])
            elif how == "sum":
                obj = py[o["of"][0]] + py[o["of"][1]]
                steps = [(st["i"], T.ev(st["q"], env)) for st in o.get("steps", [])]
                for i, q in steps:
                    obj.add(allnames[i - 1], q)                 # the RESULT is changed afterwards
                desc["steps"] = steps
                desc_of[o["name"]] = dict(desc_of[o["of"][0]])
            elif how == "step":
                obj = py[o["of"][0]]
                steps = [(st["i"], T.ev(st["q"], env)) for st in o.get("steps", [])]
                for i, q in steps:
                    obj.add(allnames[i - 1], q)                 # an earlier object is changed in place
                desc["steps"] = steps
                desc_of[o["name"]] = desc_of[o["of"][0]]
            elif how == "perturb":
                obj = py[o["of"][0]]
                desc["conversions"] = perturb_reported(obj)
                desc_of[o["name"]] = desc_of[o["of"][0]]
            else:                                               # again
                obj = py[o["of"][0]]
                desc_of[o["name"]] = desc_of[o["of"][0]]
            py[o["name"]] = obj
            if o.get("silent"):
                continue
            if what == "fractions":
                observe_fractions(obj, names, o["name"], obs, o.get("sels", ()))
            else:
                observe_matter(obj, desc_of[o["name"]], names, o["name"], obs)
        except Exception as e:
            return ("fail", {"failure": "rejected", "clause": "object %s (%s) can be made and its tables obtained" % (o["name"], how),
                             "built": built, "expected": "an object", "observed": "raises " + repr(e)[:200]})
    bad = T.failing(rec["obl"], env)
    if bad:
        return ("fail", {"failure": "wrong_value", "clause": "obligation " + "; ".join(b[0] for b in bad), "built": built,
                         "expected": [[b[0], b[2]] for b in bad], "observed": [[b[0], b[1]] for b in bad]})
    return ("ok", None)
