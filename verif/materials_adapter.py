"""Adapter between the materials specs (spec/Formula*.tla, Composite.tla, Matter.tla) and scinumtools.materials.

Only: generate table modules from the live library, choose inputs, render abstract scenarios to concrete
text/objects, observe the real objects.  What must hold is decided by TLC (obligations), evaluated by terms.py.
"""
import os, re, warnings, random, json

warnings.filterwarnings("ignore")
import numpy as np

np.seterr(all="ignore")

from scinumtools.materials import Element, Substance, Material, Norm, SubstanceSolver
from scinumtools.materials.periodic_table import PT_DATA
from scinumtools.units import Quantity

AB_SCALE = 10 ** 8          # abundances are tabulated with <= 8 decimals (checked below)


# ----------------------------------------------------------------------------- tables

def write_tables(wd):
    """FormulaTables.tla: PT == el -> [Z, iso: <<[A, ab]>>] from the live periodic table (abundance in 1e-8)."""
    rows = []
    for el, (Z, iso) in PT_DATA.items():
        isos = []
        for A, (mass, ab) in iso.items():
            abi = round(ab * AB_SCALE)
            if abs(abi - ab * AB_SCALE) > 1e-6:
                raise ValueError(f"abundance of {el}-{A} has more than 8 decimals; raise AB_SCALE")
            isos.append(f"[A |-> {int(A)}, ab |-> {abi}]")
        rows.append(f'  {el} |-> [Z |-> {int(Z)}, iso |-> <<{", ".join(isos)}>>]')
    text = ("---- MODULE FormulaTables ----\n"
            "\\* generated from the live scinumtools.materials.periodic_table on every run - do not edit\n"
            "PT == [\n" + ",\n".join(rows) + "\n]\n====\n")
    with open(os.path.join(wd, "FormulaTables.tla"), "w") as f:
        f.write(text)


_UNIT_CACHE = {}


def tab(table, k1, k2):
    """Entries of the library's own tables (the property treats them as given)."""
    if table == "mass":
        return PT_DATA[k1][1][k2][0]
    if table == "ab":
        return PT_DATA[k1][1][k2][1]
    if table == "unit":                 # value of 1 <k1> expressed in <k2>, from the unit tables (C03/C04 cover those)
        key = (k1, k2)
        if key not in _UNIT_CACHE:
            _UNIT_CACHE[key] = Quantity(1.0, k1).value(k2)
        return _UNIT_CACHE[key]
    raise KeyError(table)


# ----------------------------------------------------------------------------- species

def sp_text(sp):
    """Concrete text of a species binding [el, A, ion, nuc] (+ optional 'alias' D/T, 'ionfmt')."""
    if sp["nuc"]:
        return "[%s]" % sp["nuc"]
    sym = sp.get("alias") or sp["el"]
    A, ion = sp["A"], sp["ion"]
    if sp.get("alias"):                 # D == H{2}, T == H{3}: the isotope is in the symbol
        if ion == 0:
            return sym
        if sp.get("aliasfull"):         # D{2-1}
            return "%s{%d%s}" % (sym, A, ion_text(ion, sp.get("ionfmt")))
        return "%s{%s}" % (sym, ion_text(ion, sp.get("ionfmt")))
    if A and ion:
        return "%s{%d%s}" % (sym, A, ion_text(ion, sp.get("ionfmt")))
    if A:
        return "%s{%d}" % (sym, A)
    if ion:
        return "%s{%s}" % (sym, ion_text(ion, sp.get("ionfmt")))
    return sym


def ion_text(ion, fmt=None):
    if abs(ion) == 1 and fmt == "bare":     # C{+}, C{12-}
        return "+" if ion > 0 else "-"
    return "%+d" % ion


def sp_key(sp):
    return "%s|%s|%d|%d" % (sp["nuc"], sp["el"], sp["A"], sp["ion"])


def species_pool():
    """Every nucleon, every element with unspecified isotope, every tabulated isotope (neutral)."""
    def mk(el, A, nuc=""):
        return dict(el=el, A=A, ion=0, nuc=nuc, alias="", aliasfull=False)
    pool = [mk("", 0, n) for n in "pne"]
    for el, (Z, iso) in PT_DATA.items():
        pool.append(mk(el, 0))
        for A in iso:
            pool.append(mk(el, int(A)))
    return pool


def no_abundance(el):
    return sum(ab for _, ab in PT_DATA[el][1].values()) == 0


def with_charge(sp, rnd):
    """A charged / aliased variant of a pool species (the signed number in the suffix is added to the electrons)."""
    sp = dict(sp)
    if sp["nuc"]:
        return sp
    Z = PT_DATA[sp["el"]][0]
    r = rnd.random()
    if r < 0.45:
        lo = -min(Z, 3)
        sp["ion"] = rnd.choice([i for i in range(lo, 4) if i != 0])
        if abs(sp["ion"]) == 1 and rnd.random() < 0.5:
            sp["ionfmt"] = "bare"
    if sp["el"] == "H" and sp["A"] in (2, 3) and rnd.random() < 0.6:
        sp["alias"] = "D" if sp["A"] == 2 else "T"
        if sp["ion"] and rnd.random() < 0.5:
            sp["aliasfull"] = True
    return sp


# ----------------------------------------------------------------------------- rendering

def render(toks, bind, rnd=None, wide=False):
    """Abstract token string -> formula text.  ' ' / ' + ' / ' * ' keep their documented blanks; with wide=True
    separators get extra blanks (only where a separator already stands)."""
    out = []
    for t in toks:
        if t in bind:
            out.append(sp_text(bind[t]))
        elif t == " ":
            out.append(" " * (rnd.choice([1, 2, 3]) if wide and rnd else 1))
        elif t in (" + ", " * ") and wide and rnd:
            out.append(" " * rnd.choice([1, 2]) + t.strip() + " " * rnd.choice([1, 2]))
        else:
            out.append(t)
    return "".join(out)


_SPLIT = re.compile(r"(\s\+\s|\s\*\s|\(|\))")


def pre_tokens(text, inv):
    """Tokens of SubstanceSolver.preprocess(text) in the vocabulary of the spec (inv: species text -> variable).
    Mirrors how the expression solver cuts the text: operator symbols ' + ', ' * ', '(' ; everything else is atom text."""
    sub = Substance()
    with SubstanceSolver(sub.atom) as ss:
        p = ss.preprocess(text)
    out = []
    for part in _SPLIT.split(p):
        if part is None or part == "":
            continue
        s = part.strip()
        if part in ("(", ")"):
            out.append(part)
        elif re.fullmatch(r"\s\+\s", part):
            out.append(" + ")
        elif re.fullmatch(r"\s\*\s", part):
            out.append(" * ")
        elif s == "":
            continue
        else:
            out.append(inv.get(s, s))
    return out


# ----------------------------------------------------------------------------- observation of a Substance

def observe_substance(s, inv, px, obs):
    """Project a real Substance onto observation paths  px+count.v, px+comp.v.{Z,N,e,mass}, px+sum.{..}, px+ncomp.
    Components are attributed to variables by their expression text; anything else keeps its text as name
    (and makes 'ncomp' / the missing counts disagree)."""
    comps = s.components
    obs[px + "ncomp"] = len(comps)
    dc = s.data_components(quantity=False)
    for expr, comp in comps.items():
        v = inv.get(expr, "?" + expr)
        obs[px + "count." + v] = comp.proportion
        row = dc[expr]
        obs[px + "comp." + v + ".Z"] = row.Z
        obs[px + "comp." + v + ".N"] = row.N
        obs[px + "comp." + v + ".e"] = row.e
        obs[px + "comp." + v + ".mass"] = row.mass
        if comp.proportion != row["count"]:
            obs[px + "count." + v] = float("nan")          # the two views of the count must agree
    tot = s.data_composite(quantity=False)["sum"]
    for c in ("Z", "N", "e", "mass"):
        obs[px + "sum." + c] = tot[c]
    return obs
