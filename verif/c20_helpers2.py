"""Additional family inside ./check C20: the other stateful helpers (growth of the specification).

spec/Helpers2.tla   ideal + machine of CachedFunction, Stopwatch, ProgressBar, NormalizeData
spec/Helpers2MC.tla lock-step model checking; every operation sequence of a fixed length is printed with the
                    ideal's (and, under a named deviation, the machine's) observations after every step
spec/Helpers2Trace.tla  validation of seeded random executions recorded from the real classes

These behaviours are not part of property C20: nothing here produces a VIOLATION.  A real observation that
the ideal rejects is counted per named deviation of the machine (explained) or reported as drift (unexplained,
or the machine spec itself does not follow the code).
"""
import contextlib, io, json, os, re, shutil, warnings, zlib
from . import common as C

PID = "C20"

# Scratch directory of THIS run: created once by the parent process (C.workdir gives one directory per OS process) and
# inherited by the forked workers through this global.  Every scratch path of the check is below it and carries the
# worker's pid and a counter, so concurrent runs and concurrent workers never share a path; nothing outside it is removed.
_WD = [None]
_COUNTER = [0]


def set_wd(path):
    _WD[0] = path


def wd(*sub):
    """A directory below the run's scratch directory (created).  Harness I/O trouble is a machinery error."""
    if _WD[0] is None:
        raise C.MachineryError("scratch directory of the run is not set")
    d = os.path.join(_WD[0], *sub)
    try:
        os.makedirs(d, exist_ok=True)
    except OSError as e:
        raise C.MachineryError(f"cannot create scratch directory {d}: {e}")
    return d


def unique(prefix):
    """A name unique per OS process and per use."""
    _COUNTER[0] += 1
    return f"{prefix}-{os.getpid()}-{_COUNTER[0]}"


NAMED = ["json_alias", "arg_not_json", "ext_not_npy", "report_before_first_start", "time_text_boundary"]

# ----------------------------------------------------------------------------- small helpers


def plain(x):
    import numpy as np
    if isinstance(x, np.generic):
        x = x.item()
    if isinstance(x, float) and x == x and abs(x) != float("inf") and x == int(x):
        return int(x)
    if isinstance(x, (list, tuple)):
        return [plain(v) for v in x]
    if isinstance(x, np.ndarray):
        return [plain(v) for v in x.tolist()]
    return x


def optnum(x):
    """number -> [int] ; NaN -> []"""
    x = plain(x)
    return [] if isinstance(x, float) and x != x else [x]


class FakeTime:
    """Stands in for the module `time` inside scinumtools.stopwatch / progress_bar: an integer clock."""

    def __init__(self, tk=0):
        self.now = 0
        self.tk = tk

    def time(self):
        t = self.now
        self.now += self.tk
        return t


# ----------------------------------------------------------------------------- CachedFunction

CF_POOL = {                      # id -> (args, kwargs) as the caller passes them
    "a": (("foo", "bar"), {}),
    "b": (("foo2",), {"k": 1}),
    "kw1": (("foo", "bar"), {"k": 1}),          # the arguments of "a" plus a keyword
    "kw2": (("foo", "bar"), {"k": 2}),
    "t12": (((1, 2),), {}),
    "l12": (([1, 2],), {}),
    "set": (({1, 2},), {}),
    "one": ((1,), {}),
    "onef": ((1.5,), {}),
    "dki": (({1: "v"},), {}),
    "dks": (({"1": "v"},), {}),
    "none": ((), {}),
}


def cf_json(aid):
    args, kwargs = CF_POOL[aid]
    try:
        return json.dumps({"args": args, "kwargs": kwargs}, sort_keys=True)
    except TypeError:
        return "#err"


def cf_arg(aid):
    return {"id": aid, "json": cf_json(aid)}


class RealCF:
    def __init__(self, ext, args, tag):
        self.dir = wd("cf", unique("c"))
        self.path = os.path.join(self.dir, "cache." + ext)
        self.args = args
        self.evals = 0
        self.ver = 0
        self.cur = None
        self.define()

    def define(self):
        from scinumtools import CachedFunction
        ver = self.ver

        def fn(*a, **k):
            self.evals += 1
            return {"id": self.cur, "ver": ver}
        self.fn = CachedFunction(self.path)(fn)

    def apply(self, op):
        """-> (raised, ret)"""
        from scinumtools.cached_function import hash_file_name
        if op["op"] == "redefine":
            self.ver += 1
            self.define()
            return False, []
        args, kwargs = CF_POOL[op["arg"]["id"]]
        if op["op"] == "delete":
            try:
                f = hash_file_name(self.path, args, kwargs)
                if os.path.isfile(f):
                    os.remove(f)
            except TypeError:
                pass
            return False, []
        self.cur = op["arg"]["id"]
        try:
            r = self.fn(*args, **kwargs)
            return False, [[r["id"], plain(r["ver"])]]
        except Exception:
            if not os.path.isdir(self.dir):
                raise C.MachineryError(f"cache directory {self.dir} disappeared during the run")
            return True, []

    def obs(self):
        from scinumtools.cached_function import hash_file_name
        cached = []
        for a in self.args:
            args, kwargs = CF_POOL[a["id"]]
            try:
                cached.append(os.path.isfile(hash_file_name(self.path, args, kwargs)))
            except TypeError:
                cached.append(False)
        try:
            nfiles = len(os.listdir(self.dir))
        except OSError as e:
            raise C.MachineryError(f"cache directory {self.dir} is not readable: {e}")
        return {"evals": self.evals, "nfiles": nfiles, "cached": cached}

    def close(self):
        shutil.rmtree(self.dir, ignore_errors=True)


# ----------------------------------------------------------------------------- Stopwatch

class RealSW:
    def __init__(self, tk, flavour=0):
        import scinumtools.stopwatch as M
        self.M = M
        self.saved = M.time
        self.clock = FakeTime(tk)
        M.time = self.clock
        self.sw = M.Stopwatch()
        self.observers = []
        self.flavour = flavour

    def apply(self, op):
        k = op["op"]
        if k == "tick":
            self.clock.now += op["d"]
            return False, []
        self.flavour += 1
        try:
            if k == "start":
                if self.flavour % 2:
                    self.observers.append(self.sw.observer(op["name"]))       # with sw.observer(name): ...
                else:
                    self.sw.start(op["name"])
                    self.observers.append(None)
            else:
                o = self.observers[-1] if self.observers else None
                if o is not None and o.name == op["name"]:
                    o.__exit__(None, None, None)
                else:
                    self.sw.stop(op["name"])
                self.observers.pop()
            return False, []
        except Exception:
            return True, []

    def obs(self):
        try:
            d = self.sw.report().to_dict()
        except Exception:
            return {"report": [], "sorted": True, "ratio": True}
        rows = [[plain(l), plain(t), str(n).split("/")] for l, t, n in zip(d["Laps"], d["Time"], d["Node"])]
        ratio = all(abs(float(r) * plain(l) - plain(t)) < 1e-9 for r, l, t in zip(d["Time/Lap"], d["Laps"], d["Time"]))
        return {"report": [rows], "sorted": all(a[1] <= b[1] for a, b in zip(rows, rows[1:])), "ratio": ratio}

    def close(self):
        self.M.time = self.saved


# ----------------------------------------------------------------------------- ProgressBar

ANSI = re.compile(r"\x1b\[[;0-9]*m")
LINE = re.compile(r"Step (-?\d+)/(\d+) Time (-?[\d.]+)([smh])/(-?[\d.]+)([smh])(   \S.*?)?\s*$")


class RealPB:
    def __init__(self, n):
        import scinumtools.progress_bar as M
        self.M = M
        self.saved = M.time
        self.clock = FakeTime(0)
        M.time = self.clock
        self.out = io.StringIO()
        with contextlib.redirect_stdout(self.out):
            self.pb = M.ProgressBar(n)

    def apply(self, op):
        k = op["op"]
        if k == "tick":
            self.clock.now += op["d"]
            return False, []
        try:
            with contextlib.redirect_stdout(self.out):
                if k == "close":
                    self.pb.close()
                elif op["info"]:
                    self.pb.step("x")
                else:
                    self.pb.step()
            return False, []
        except Exception:
            return True, []

    def obs(self):
        lines = [l for l in self.out.getvalue().split("\n") if l.startswith("|")]
        raw = lines[-1][1:-1]
        m7 = raw.find("\x1b[;7m")
        fill = 0
        if m7 >= 0:
            rest = raw[m7 + 5:]
            fill = rest.find("\x1b[;0m")
        mt = LINE.match(ANSI.sub("", raw))
        if not mt:
            return {"cur": -1, "n": -1, "fill": fill, "info": False, "et": {"unit": "?", "v10": 0}, "tot": {"unit": "?", "v10": 0}}
        return {"cur": int(mt.group(1)), "n": int(mt.group(2)), "fill": fill, "info": bool(mt.group(7)),
                "et": {"unit": mt.group(4), "v10": int(round(float(mt.group(3)) * 10))},
                "tot": {"unit": mt.group(6), "v10": int(round(float(mt.group(5)) * 10))}}

    def close(self):
        self.M.time = self.saved


# ----------------------------------------------------------------------------- NormalizeData

def nd_axis(a):
    return None if a == "none" else True if a == "true" else a


class RealND:
    def __init__(self, xa, ya):
        from scinumtools import NormalizeData
        self.nd = NormalizeData(xaxis=nd_axis(xa), yaxis=nd_axis(ya))

    def apply(self, op):
        import numpy as np
        arr = lambda v: np.array(v) if v else None
        try:
            with warnings.catch_warnings():
                warnings.simplefilter("ignore")
                self.nd.append(np.array(op["z"]), arr(op["x"]), arr(op["y"]))
            return False, []
        except Exception:
            return True, []

    def obs(self):
        nd = self.nd

        def opt(fn):
            try:
                with warnings.catch_warnings():
                    warnings.simplefilter("ignore")
                    return [fn()]
            except Exception:
                return []
        rng = lambda r: {"minpos": optnum(r.minpos), "min": plain(r.min), "max": plain(r.max)}
        ext = lambda e: [optnum(v) for v in e]

        def items():
            out = []
            for it in nd.items():
                if isinstance(it, tuple):
                    out.append({"z": plain(it[0]), "extent": [ext(it[1])]})
                else:
                    out.append({"z": plain(it), "extent": []})
            return out

        def lin():
            n = nd.linnorm()
            return [plain(n.vmin), plain(n.vmax)]
        return {"len": len(nd.data()["zdata"]),
                "zr": opt(lambda: rng(nd.zranges())), "xr": opt(lambda: rng(nd.xranges())), "yr": opt(lambda: rng(nd.yranges())),
                "lin": opt(lin),
                "ext": [opt(lambda: ext(nd.extent(xl, yl))) for xl, yl in ((False, False), (True, False), (False, True), (True, True))],
                "items": opt(items)}

    def close(self):
        pass


# ----------------------------------------------------------------------------- model configuration

PB_STEPS = {"pb1": 3, "pb2": 4}          # 70/3 and 70/4 are not integers: floor matters
ND_CONFS = {"nd1": ("none", "none"), "nd2": ("lin", "log"), "nd3": ("log", "none"), "nd4": ("true", "true")}
CF_ARGS = ["a", "kw1", "t12", "l12", "set"]


def new_real(w, tag=0):
    if w in ("cf", "cfx"):
        return RealCF("npy" if w == "cf" else "dat", [cf_arg(a) for a in CF_ARGS], tag)
    if w in ("sw0", "sw1"):
        return RealSW(int(w[2]), tag)
    if w in PB_STEPS:
        return RealPB(PB_STEPS[w])
    return RealND(*ND_CONFS[w])


def cfg_module(thorough):
    if thorough:
        depth = {"cf": 4, "cfx": 4, "sw0": 6, "sw1": 5, "pb1": 5, "pb2": 5, "nd1": 3, "nd2": 4, "nd3": 4, "nd4": 3}
    else:
        depth = {"cf": 3, "cfx": 3, "sw0": 4, "sw1": 4, "pb1": 4, "pb2": 4, "nd1": 2, "nd2": 3, "nd3": 3, "nd4": 2}
    args = "<<" + ", ".join(f'[id |-> "{a}", json |-> {json.dumps(cf_json(a))}]' for a in CF_ARGS) + ">>"
    return f"""---- MODULE Helpers2Cfg ----
EXTENDS Helpers2MC
MCMachines2 == {C.tla_str(set(depth))}
MCDepth == {C.tla_str(depth)}
MCCFArgs == {args}
MCSWNames == {{"a", "b"}}
MCTicks == {{1, 3}}
MCPBSteps == {C.tla_str(PB_STEPS)}
MCNDConfs == [{", ".join(f'{k} |-> [xa |-> "{v[0]}", ya |-> "{v[1]}"]' for k, v in ND_CONFS.items())}]
Z1 == <<-2, 0>>
Z2 == <<1, 3>>
MCNDOps == {{[z |-> z, x |-> x, y |-> y] : z \\in {{Z1, Z2}}, x \\in {{<<0, 2>>, <<-1>>}}, y \\in {{<<5>>, <<-3, 0>>}}}}
             \\cup {{[z |-> Z1, x |-> <<>>, y |-> <<5>>], [z |-> Z2, x |-> <<>>, y |-> <<>>]}}
====
""", depth


CFG = """CONSTANTS
  Machines2 <- MCMachines2
  Depth <- MCDepth
  CFArgs <- MCCFArgs
  SWNames <- MCSWNames
  Ticks <- MCTicks
  PBSteps <- MCPBSteps
  NDConfs <- MCNDConfs
  NDOps <- MCNDOps
SPECIFICATION Spec
INVARIANT Refines
INVARIANT Emit
CHECK_DEADLOCK FALSE
"""


def run_mc2(thorough, workers=None):
    d = wd("h2mc")
    mod, depth = cfg_module(thorough)
    with open(os.path.join(d, "Helpers2Cfg.tla"), "w") as f:
        f.write(mod)
    r = C.run_tlc(d, "Helpers2Cfg", CFG, workers=workers)
    r.depth2 = depth
    return r


# ----------------------------------------------------------------------------- comparison (the same rules as Match in Helpers2Trace.tla)

def text_match(exp, got):
    return exp["unit"] == got["unit"] and 2 * abs(got["v10"] * exp["den"] - 10 * exp["num"]) <= exp["den"]


def kind_of(w):
    return "cf" if w.startswith("cf") else "sw" if w.startswith("sw") else "pb" if w.startswith("pb") else "nd"


def match(kind, exp, got, ideal):
    """exp: observation record from TLC; got: real observation; ideal: option-valued open fields"""
    if kind == "cf":
        return exp == got
    if kind == "sw":
        if (exp["report"] == []) != (got["report"] == []) or not got["ratio"] or not got["sorted"]:
            return False
        if got["report"]:
            return sorted(map(json.dumps, exp["report"][0])) == sorted(map(json.dumps, got["report"][0]))
        return True
    if kind == "pb":
        if any(exp[f] != got[f] for f in ("cur", "n", "fill", "info")) or not text_match(exp["et"], got["et"]):
            return False
        if ideal:
            return exp["tot"] == [] or text_match(exp["tot"][0], got["tot"])
        return text_match(exp["tot"], got["tot"])
    for f in exp:
        if f == "items":
            if ideal:
                if exp[f] != [] and exp[f][0] != got[f]:
                    return False
            elif exp[f] != got[f]:
                return False
        elif exp[f] != got[f]:
            return False
    return True


def replay2(rec):
    """One TLC history on a real object -> list of (status, detail): ok | explained:<tags> | undecided | unexplained | model"""
    w, hist = rec["w"], rec["hist"]
    kind = kind_of(w)
    obj = new_real(w, zlib.crc32(json.dumps(hist[1:3], sort_keys=True).encode()) % 1000)
    out = []
    try:
        for k, e in enumerate(hist[1:], 1):
            raised, ret = obj.apply(e["op"])
            got = obj.obs()
            iok = e["judged"] and e["ierr"] == raised and e["iret"] == ret and match(kind, e["iobs"], got, True)
            if iok:
                out.append(("ok", None))
                continue
            mm = e["m"][0] if e["m"] else None
            mok = mm is not None and mm["err"] == raised and mm["ret"] == ret and match(kind, mm["obs"], got, False)
            if mok and not e["judged"]:
                out.append(("undecided", None))
            elif mok:
                out.append(("explained:" + ",".join(sorted(e["dev"])), None))
            else:
                out.append(("unexplained" if mm is None else "model",
                            {"w": w, "ops": [x["op"] for x in hist[1:k + 1]], "expected": mm["obs"] if mm else e["iobs"],
                             "observed": got, "raised": raised, "ret": ret}))
                break
    finally:
        obj.close()
    return out


# ----------------------------------------------------------------------------- recorded traces

def record2(plan):
    o = plan["obj"]
    if o == "cf":
        obj = RealCF(plan["ext"], plan["args"], plan["tag"])
    elif o == "sw":
        obj = RealSW(plan["tk"], plan["tag"])
    elif o == "pb":
        obj = RealPB(plan["n"])
    else:
        obj = RealND(plan["xa"], plan["ya"])
    try:
        first = {k: v for k, v in plan.items() if k not in ("ops", "tag")}
        first.update(ev="new", obs=obj.obs())
        evs = [first]
        for op in plan["ops"]:
            raised, ret = obj.apply(op)
            evs.append({"ev": "op", "op": op, "err": raised, "ret": ret, "obs": obj.obs()})
        return evs
    finally:
        obj.close()


def rand_plans(rnd, n):
    plans = []
    for t in range(n):
        k = t % 4
        if k == 0:
            ids = rnd.sample(sorted(CF_POOL), rnd.randint(2, 6))
            args = [cf_arg(a) for a in ids]
            ops = []
            for _ in range(rnd.randint(1, 30)):
                x = rnd.random()
                a = rnd.choice(args)
                ops.append({"op": "call", "arg": a} if x < 0.6 else {"op": "delete", "arg": a} if x < 0.85 and a["json"] != "#err"
                           else {"op": "redefine"})
            plans.append({"obj": "cf", "ext": "npy" if rnd.random() < 0.85 else rnd.choice(["dat", "txt"]), "args": args, "tag": t, "ops": ops})
        elif k == 1:
            names = ["a", "b", "c"][:rnd.randint(1, 3)]
            stack, ops = [], []
            for _ in range(rnd.randint(1, 40)):
                x = rnd.random()
                if x < 0.3:
                    ops.append({"op": "tick", "d": rnd.randint(1, 9)})
                elif x < 0.65 and len(stack) < 4:
                    nm = rnd.choice(names)
                    ops.append({"op": "start", "name": nm})
                    stack.append(nm)
                elif stack and rnd.random() < 0.85:
                    ops.append({"op": "stop", "name": stack.pop()})
                else:
                    nm = rnd.choice(names)
                    ops.append({"op": "stop", "name": nm})            # mostly the wrong node (or nothing open)
                    if stack and stack[-1] == nm:
                        stack.pop()
            plans.append({"obj": "sw", "tk": 0 if rnd.random() < 0.7 else 1, "tag": t, "ops": ops})
        elif k == 2:
            n_ = rnd.randint(1, 30)
            ops, c = [], 0
            uniform = rnd.random() < 0.4
            d0 = rnd.choice([1, 2, 5, 10, 20, 30])
            for _ in range(rnd.randint(1, 40)):
                if c >= n_ and rnd.random() < 0.8:
                    break
                x = rnd.random()
                if uniform:
                    ops += [{"op": "tick", "d": d0}, {"op": "step", "info": rnd.random() < 0.2}]
                    c += 1
                elif x < 0.4:
                    ops.append({"op": "tick", "d": rnd.choice([1, 2, 7, 29, 30, 59, 60])})
                elif x < 0.95:
                    ops.append({"op": "step", "info": rnd.random() < 0.2})
                    c += 1
                else:
                    ops.append({"op": "close"})
                    c = n_
            plans.append({"obj": "pb", "n": n_, "ops": ops[:40]})
        else:
            xa, ya = rnd.choice(["none", "lin", "log", "true"]), rnd.choice(["none", "lin", "log", "true"])
            arr = lambda: [rnd.randint(-5, 9) for _ in range(rnd.randint(1, 4))]
            ops = []
            for _ in range(rnd.randint(0, 12)):
                miss = rnd.random() < 0.1
                ops.append({"op": "append", "z": arr(), "x": [] if miss or (xa == "none" and rnd.random() < 0.5) else arr(),
                            "y": [] if (ya == "none" and rnd.random() < 0.5) else arr()})
            plans.append({"obj": "nd", "xa": xa, "ya": ya, "ops": ops})
    return plans


TRACE_CFG = "SPECIFICATION TSpec\nINVARIANT Accept\nCHECK_DEADLOCK FALSE\n"


def validate2(traces, workers=None):
    d = wd("h2trace")
    f = os.path.join(d, "traces2.json")
    with open(f, "w") as fh:
        json.dump(traces, fh)
    r = C.run_tlc(d, "Helpers2Trace", TRACE_CFG, env={"TRACE_FILE": f}, want_records=False, workers=workers)
    out = r.stdout.replace("\n", " ")
    r.acc = {int(m.group(1)): set(re.findall(r'"([^"]+)"', m.group(2)))
             for m in re.finditer(r'<<\s*"ACCEPT2",\s*(\d+),\s*(\{[^}]*\})\s*>>', out)}
    r.rej = {}
    for m in re.finditer(r'<<\s*"REJECT2",\s*(\d+),\s*(\d+)\s*>>', out):
        r.rej.setdefault(int(m.group(1)), int(m.group(2)))
    return r


# ----------------------------------------------------------------------------- verdicts of the family (notes only)

def judge(V, rmc, rtr, traces, replay_out):
    stats = {"steps_ok": 0, "steps_undecided": 0, "explained_by_named_deviation": {}, "unexplained": 0, "machine_spec_drift": 0}
    if rmc.violated:
        V.drift(f"helpers2: TLC invariant {rmc.violated} violated by Helpers2 (design level): {rmc.cex[:400]}")
    explored = {t: 0 for t in NAMED}
    for rec in rmc.records:
        for e in rec["hist"][1:]:
            for t in e.get("dev", []):
                explored[t] = explored.get(t, 0) + 1
    if any(v == 0 for v in explored.values()):
        raise C.MachineryError(f"helpers2: named deviations never reached by the model: {explored}")
    noted = 0
    for outs in replay_out:
        for st, det in outs:
            if st == "ok":
                stats["steps_ok"] += 1
            elif st == "undecided":
                stats["steps_undecided"] += 1
            elif st.startswith("explained:"):
                for t in st[10:].split(","):
                    stats["explained_by_named_deviation"][t] = stats["explained_by_named_deviation"].get(t, 0) + 1
            else:
                stats["unexplained" if st == "unexplained" else "machine_spec_drift"] += 1
                if noted < 5:
                    noted += 1
                    V.drift(f"helpers2 ({st}): real {det['w']} disagrees with the specification after {json.dumps(det['ops'])[:300]}: "
                            f"expected {json.dumps(det['expected'])[:200]} observed {json.dumps(det['observed'])[:200]}")
    tstat = {"traces": len(traces), "accepted": len(rtr.acc), "agree_with_ideal": 0, "explained": {}, "rejected": 0}
    for tid in range(1, len(traces) + 1):
        if tid in rtr.acc:
            ex = rtr.acc[tid]
            if not ex:
                tstat["agree_with_ideal"] += 1
            for t in ex:
                tstat["explained"][t] = tstat["explained"].get(t, 0) + 1
            if "UNNAMED" in ex and noted < 8:
                noted += 1
                V.drift(f"helpers2: recorded {traces[tid-1][0]['obj']} trace contradicts the ideal with no named deviation: "
                        f"{json.dumps([e['op'] for e in traces[tid-1][1:]])[:300]}")
        else:
            tstat["rejected"] += 1
            if noted < 8:
                noted += 1
                V.drift(f"helpers2: recorded {traces[tid-1][0]['obj']} trace is not a behaviour of the machine spec at event {rtr.rej.get(tid)}: "
                        f"{json.dumps([e['op'] for e in traces[tid-1][1:]])[:300]}")
    return {"states": rmc.distinct + rtr.distinct, "transitions": rmc.generated + rtr.generated,
            "model_checking": {"states": rmc.distinct, "depth_per_machine": rmc.depth2, "behaviours": len(rmc.records),
                               "steps_with_named_deviation_explored": explored},
            "replay": dict(stats, behaviours_replayed=len(replay_out)),
            "trace_validation": dict(tstat, states=rtr.distinct, events=sum(len(t) for t in traces)),
            "named_deviations": NAMED,
            "note": "not part of property C20: disagreements are notes (drift), never violations"}
