"""Adapter between abstract DIP texts (spec/DipTree.tla lines) and scinumtools.dip."""
import math, os, random


def render_lines(text, rnd=None, layout=0, cond_expr=False, lits=None):
    """Abstract lines -> DIP text.
    layout 0: 2 blanks per level; 1: 4 blanks; 2: 1 blank; 3: per-level widths chosen at random (consistent),
    plus interleaved blank lines / comment lines / trailing comments for layouts >= 1."""
    widths = {0: [2] * 8, 1: [4] * 8, 2: [1] * 8}.get(layout)
    if widths is None:
        widths = [rnd.choice([1, 2, 3, 4]) for _ in range(8)]
    indents = None
    if layout == 4:
        # the children of one parent share one indentation, but every parent chooses its own width:
        # "the number of empty spaces for each indentation level can vary, as long as indentation of
        # all children nodes is consistent"
        indents, stack = [], []          # stack of [level, indent string, width chosen for its children]
        for ln in text:
            while stack and stack[-1][0] >= ln["ind"]:
                stack.pop()
            if ln["ind"] == 0 or not stack:
                s = "" if ln["ind"] == 0 else " " * (2 * ln["ind"])
            else:
                if stack[-1][2] is None:
                    stack[-1][2] = rnd.choice([1, 2, 3, 4, 6])
                s = stack[-1][1] + " " * stack[-1][2]
            indents.append(s)
            stack.append([ln["ind"], s, None])
    out = []
    if cond_expr == "ref":
        # conditions as references to boolean nodes whose CURRENT value differs from their definition
        out += ["ft bool = false", "ft = true", "ff bool = true", "ff = false"]
    elif cond_expr:
        out.append("zz int = 1")
    for j_, ln in enumerate(text):
        ind = indents[j_] if indents is not None else " " * sum(widths[:ln["ind"]])
        k = ln["k"]
        name = ".".join(ln["nm"])
        if k == "grp":
            s = f"{ind}{name}"
        elif k == "def" and lits is not None:
            L = lits[ln["_j"]]
            s = f"{ind}{name} {L['decl']} = {L['txt']}" + (f" {L['unit']}" if L["unit"] else "")
        elif k == "def":
            s = f"{ind}{name} int = {ln['v']}"
        elif k == "mod":
            s = f"{ind}{name} = {ln['v']}"
        elif k == "case":
            if cond_expr == "ref":
                s = f"{ind}{name + '.' if name else ''}@case {{?{'ft' if ln['c'] else 'ff'}}}"
            elif cond_expr:
                s = f'{ind}@case ("{{?zz}} == {1 if ln["c"] else 2}")'
            else:
                s = f"{ind}@case {'true' if ln['c'] else 'false'}"
        elif k == "else":
            s = f"{ind}@else"
        elif k == "end":
            s = f"{ind}@end"
        else:
            raise ValueError(k)
        if layout >= 1 and rnd is not None and "\n" not in s:
            r = rnd.random()
            if r < 0.15:
                out.append("")
            elif r < 0.3:
                out.append(ind + "# a comment line")
            elif r < 0.45:
                s += "   # trailing comment"
        out.append(s)
    return "\n".join(out) + "\n"


_FAST = [False]
_COUNT = [0]


def speedup():
    """DIP() and add_string() call inspect.stack() only to record which file created them (7 ms per call,
    90 % of a small parse).  Give them a constant caller instead; nothing else depends on it."""
    if _FAST[0]:
        return
    import collections
    from scinumtools.dip import dip as M
    FI = collections.namedtuple("FI", "filename lineno")
    M.stack = lambda: [(None,), (None,)]
    M.getframeinfo = lambda frame: FI(__file__, 1)
    _FAST[0] = True


def split_pieces(text_str, rnd):
    """The same text handed over in 2-3 consecutive pieces (several add_string calls): the lines are parsed as one text."""
    lines = text_str.rstrip("\n").split("\n")
    if len(lines) < 2 or '"""' in text_str:
        return None
    cuts = sorted(set(rnd.sample(range(1, len(lines)), min(len(lines) - 1, rnd.choice([1, 2])))))
    out, a = [], 0
    for c in cuts + [len(lines)]:
        out.append("\n".join(lines[a:c]) + "\n")
        a = c
    return out


def parse_dip(text_str, base_env=None, pieces=None):
    """-> ('ok', env) | ('err', exception name, message)"""
    from scinumtools.dip import DIP
    speedup()
    # every parser gets its own name: the default name is id(self), which a later object may reuse after the
    # first was freed, and then its bookkeeping source collides with the one recorded in a base environment
    _COUNT[0] += 1
    name = f"verif{os.getpid()}x{_COUNT[0]}"
    try:
        with DIP(base_env, name=name) if base_env is not None else DIP(name=name) as p:
            for piece in (pieces or [text_str]):
                p.add_string(piece)
            env = p.parse()
        return ("ok", env)
    except Exception as e:
        return ("err", type(e).__name__, str(e)[:200])


def observe_nodes(env, drop=("zz", "ft", "ff")):
    """Ordered list of [path components, value] as env.data() reports them."""
    data = env.data()
    out = []
    for k, v in data.items():
        if k in drop:
            continue
        if hasattr(v, "tolist"):
            v = v.tolist()
        out.append({"p": k.split("."), "v": v})
    return out


def same_nodes(obs, exp):
    """obs: [{'p','v'}] from the code, exp: [{'p','v'}] from the spec; order matters."""
    if len(obs) != len(exp):
        return False
    for o, e in zip(obs, exp):
        if list(o["p"]) != list(e["p"]):
            return False
        if o["v"] != e["v"]:
            try:
                if not math.isclose(float(o["v"]), float(e["v"]), rel_tol=1e-9):
                    return False
            except Exception:
                return False
    return True
