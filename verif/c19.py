"""C19 - exported configuration files carry the same values as the environment.

1. TLC enumerates (spec/Export.tla) abstract environments x selections x back-ends x options inside the
   bounds of the tier, checks the contract lemmas on every scenario and prints one record per scenario:
   the environment, the options, the verdict class, and the EXPECTED READER OBSERVATION (symbol, storage,
   declared type class, shape, element at every index, unit) plus the feature tags of every parameter.
2. Every record is rendered to DIP text (flat or nested layout), parsed with the real DIP, checked to be
   the environment the spec meant, and exported through the real exporter.
3. The export is read back with the format's own reader: json / yaml (PyYAML) / tomllib / DIP re-parse
   in process; bash, gcc, g++, gfortran, rustc through generated printer programs - all scenarios of a
   back-end are batched into a few compilations.
4. The reader's observation is compared with the record.  Nothing about the expected behaviour is
   computed here: the harness renders, observes, normalises and compares.
"""
import json, os, re, shutil, subprocess, sys, time, threading
from concurrent.futures import ThreadPoolExecutor
from decimal import Decimal
from fractions import Fraction
from . import common as C

PID = "C19"
ALL_BACKENDS = ["dip", "json", "yaml", "toml", "bash", "c", "cpp", "fortran", "rust"]
COMPILED = ["bash", "c", "cpp", "fortran", "rust"]
EXT = {"c": "h", "cpp": "h", "fortran": "f90", "rust": "rs", "bash": "sh"}
PFX = {"c": "c", "cpp": "cpp", "fortran": "f", "rust": "rs", "bash": "bash"}


def tool(name):
    p = shutil.which(name)
    if p:
        return p
    for d in ("/root/.cargo/bin", "/usr/local/bin", "/usr/bin"):
        if os.path.exists(os.path.join(d, name)):
            return os.path.join(d, name)
    raise C.MachineryError(f"tool not found: {name}")


# ------------------------------------------------------------------ TLC side

# select() calls of the histories: (query, tags); ([], []) is select() without arguments
HIST_SELECTS = [([], []), (["grp", "*"], []), ([], ["t1"]), (["box", "*"], []), (["grid", "*"], []), (["grid", "n"], [])]


def bounds(tier):
    if tier == "thorough":
        return dict(
            types=dict(Shapes=[[], [2], [3], [2, 3], [3, 2], [2, 2], [2, 2, 2], [2, 1, 3], [3, 2, 2]], SecShapes=[[], [2], [2, 3]],
                       ModShapes=[[], [2], [3], [2, 3], [2, 2, 2]], LongShapes=[[48], [80]],
                       ArrStarts=[1, 3, 5, 7, 9, 11, 13, 15, 16], Steps=[0, 1]),
            select=dict(EnvSizes=[1, 2, 3, 7],
                        QuerySet=[[], ["*"], ["grp", "*"], ["grp", "b"], ["grp", "sub", "*"], ["grp", "sub", "d"],
                                  ["zz", "*"], ["a"], ["grp"], ["Size2", "*"]],
                        TagSelSet=[[], ["t1"], ["t2"], ["t3"], ["t1", "t2"], ["t1", "t3"]]),
            history=dict(MaxCalls=4, AltCalls=6, HistSelects=HIST_SELECTS), chain=dict(MaxChain=3))
    return dict(
        types=dict(Shapes=[[], [2], [3], [2, 3], [3, 2], [2, 2], [2, 2, 2], [2, 1, 3]], SecShapes=[[], [2, 3]],
                   ModShapes=[[], [2], [2, 3]], LongShapes=[[48]],
                   ArrStarts=[1, 4], Steps=[1]),
        select=dict(EnvSizes=[2, 7],
                    QuerySet=[[], ["grp", "*"], ["grp", "b"], ["grp", "sub", "*"], ["zz", "*"]],
                    TagSelSet=[[], ["t1"], ["t2"], ["t1", "t2"]]),
        history=dict(MaxCalls=3, AltCalls=4, HistSelects=HIST_SELECTS), chain=dict(MaxChain=2))


def tla_set(xs, inner):
    return "{" + ", ".join(inner(x) for x in xs) + "}"


def tla_seq(xs):
    return "<<" + ", ".join(C.tla_str(x) for x in xs) + ">>"


def run_family(wd, family, b, backends, workers):
    d = dict(Shapes=[[]], SecShapes=[[]], ModShapes=[[]], LongShapes=[], AltCalls=1, ArrStarts=[1], Steps=[1], EnvSizes=[1], QuerySet=[[]], TagSelSet=[[]],
             MaxCalls=1, HistSelects=[([], [])], MaxChain=1)
    d.update(b[family])
    mod = "ExportMC_" + family
    mc = [f"---- MODULE {mod} ----", "EXTENDS Export",
          "MCShapes == " + tla_set(d["Shapes"], tla_seq),
          "MCSecShapes == " + tla_set(d["SecShapes"], tla_seq),
          "MCModShapes == " + tla_set(d["ModShapes"], tla_seq),
          "MCLongShapes == " + tla_set(d["LongShapes"], tla_seq),
          "MCArrStarts == " + tla_set(d["ArrStarts"], str),
          "MCSteps == " + tla_set(d["Steps"], str),
          "MCEnvSizes == " + tla_set(d["EnvSizes"], str),
          "MCQuerySet == " + tla_set(d["QuerySet"], tla_seq),
          "MCTagSelSet == " + tla_set(d["TagSelSet"], lambda t: tla_set(t, C.tla_str)),
          "MCHistSelects == " + tla_set(d["HistSelects"], lambda qt: "<<" + tla_seq(qt[0]) + ", " + tla_set(qt[1], C.tla_str) + ">>"),
          "MCBackends == " + tla_set(backends, C.tla_str),
          "===="]
    os.makedirs(wd, exist_ok=True)
    shutil.copy(os.path.join(C.SPEC, "Export.tla"), os.path.join(wd, "Export.tla"))
    with open(os.path.join(wd, mod + ".tla"), "w") as f:
        f.write("\n".join(mc) + "\n")
    cfg = f"""CONSTANTS
  Family = "{family}"
  Shapes <- MCShapes
  SecShapes <- MCSecShapes
  ModShapes <- MCModShapes
  LongShapes <- MCLongShapes
  AltCalls = {d["AltCalls"]}
  ArrStarts <- MCArrStarts
  Steps <- MCSteps
  EnvSizes <- MCEnvSizes
  QuerySet <- MCQuerySet
  TagSelSet <- MCTagSelSet
  MaxCalls = {d["MaxCalls"]}
  HistSelects <- MCHistSelects
  MaxChain = {d["MaxChain"]}
  Backends <- MCBackends
INIT Init
NEXT Next
INVARIANT Lemmas
CHECK_DEADLOCK FALSE
"""
    r = C.run_tlc(wd, mod, cfg, workers=workers, copy_specs=False,
                  env={"JAVA_TOOL_OPTIONS": "-Xmx3g"})          # four small models run side by side
    if r.violated:
        raise C.MachineryError(f"TLC: contract lemma violated in Export.tla ({family}): {r.cex[:1500]}")
    return r


# ------------------------------------------------------------------ pools: the attributes the spec relies on

def bitlen_sbits(v):
    return v.bit_length() if v >= 0 else (-v - 1).bit_length()


def check_pools(pools):
    import numpy as np
    bad = []
    for e in pools["int"]:
        v = int(e["txt"])
        if e["neg"] != (v < 0) or e["sbits"] != bitlen_sbits(v) or e["mbits"] != abs(v).bit_length() or str(v) != e["txt"]:
            bad.append(e)
    for e in pools["float"]:
        v = float(e["txt"])
        with np.errstate(over="ignore"):
            f = float(np.float32(v))
        inr = abs(v) <= float(np.finfo(np.float32).max)
        if e["f32x"] != (inr and f == v) or e["f32r"] != inr or repr(v) != e["txt"]:
            bad.append(e)
    for e in pools["str"]:
        if e["len"] != len(e["txt"]) or e["blank"] != (" " in e["txt"]) or not re.fullmatch(r"[A-Za-z0-9 _.,\-]+", e["txt"]):
            bad.append(e)
    if bad:
        raise C.MachineryError(f"Export.tla: pool attributes do not describe the pool text: {bad}")


# ------------------------------------------------------------------ rendering a scenario as DIP text

def nest(flat, shape):
    if not shape:
        return flat[0]
    if len(shape) == 1:
        return list(flat)
    step = len(flat) // shape[0]
    return [nest(flat[i * step:(i + 1) * step], shape[1:]) for i in range(shape[0])]


def lit(ty, txt):
    return '"' + txt + '"' if ty == "str" else txt


def render_value(p, elems=None):
    ty, shape = p["ty"], p["shape"]
    elems = p["elems"] if elems is None else elems
    if not shape:
        return lit(ty, elems[0])

    def js(x):
        return "[" + ",".join(js(i) for i in x) + "]" if isinstance(x, list) else lit(ty, x)
    s = js(nest(elems, shape))
    return "'" + s + "'" if " " in s else s


def render_dip(envrec, layout):
    """Abstract environment -> DIP text.  layout: flat (dotted names) | nested (indented groups)."""
    lines, stack, later = [], [], []
    for p in envrec:
        segs = p["path"].split(".")
        if layout == "flat":
            ind, name = 0, p["path"]
        else:
            groups = segs[:-1]
            c = 0
            while c < len(stack) and c < len(groups) and stack[c] == groups[c]:
                c += 1
            stack = stack[:c]
            for g in groups[c:]:
                lines.append("  " * len(stack) + g)
                stack.append(g)
            ind, name = len(stack), segs[-1]
        dim = "[" + ",".join(str(s) for s in p["shape"]) + "]" if p["shape"] else ""
        how = p.get("def", "once")
        line = "  " * ind + f"{name} {p['kw']}{dim}"
        if how == "once":
            line += f" = {render_value(p)}"
        elif how == "modified":
            line += f" = {render_value(p, p['init'])}"
        if p["unit"]:
            line += " " + p["unit"]
        lines.append(line)
        if how != "once":                                   # the final value is assigned after all definitions
            later.append(f"{p['path']} = {render_value(p)}" + (" " + p["unit"] if p["unit"] else ""))
        if p["tags"]:
            lines.append("  " * (ind + 1) + "!tags [" + ",".join('"' + t + '"' for t in sorted(p["tags"])) + "]")
        if p["const"]:
            lines.append("  " * (ind + 1) + "!constant")
    return "\n".join(lines + later) + "\n"


def py_value(ty, txt):
    if ty == "int":
        return int(txt)
    if ty == "float":
        return float(txt)
    if ty == "bool":
        return txt == "true"
    return txt


def same_env(env, envrec, types=True):
    """Is the parsed environment the abstract environment of the scenario?  (precondition, not a verdict)
    types=False: names, values, units, tags only - the declared width and sign of the nodes are what the exports are judged on."""
    from scinumtools.dip.datatypes import IntegerType, FloatType, BooleanType, StringType
    nodes = list(env.nodes)
    if [n.name for n in nodes] != [p["path"] for p in envrec]:
        return "names " + repr([n.name for n in nodes])
    for n, p in zip(nodes, envrec):
        cls = {"int": IntegerType, "float": FloatType, "bool": BooleanType, "str": StringType}[p["ty"]]
        if type(n.value) is not cls:
            return f"{p['path']}: type {type(n.value).__name__}"
        want = nest([py_value(p["ty"], t) for t in p["elems"]], p["shape"])
        got = n.value.value
        if got != want or json.dumps(got) != json.dumps(want):
            return f"{p['path']}: value {got!r}"
        m = re.fullmatch(r"(u?)(int|float|bool|str)(\d*)", p["kw"])
        if not types:
            pass
        elif p["ty"] == "int":
            if n.value.unsigned != (m.group(1) == "u") or n.value.precision != int(m.group(3) or 32):
                return f"{p['path']}: int attributes"
        if types and p["ty"] == "float" and n.value.precision != int(m.group(3) or 64):
            return f"{p['path']}: float precision"
        if (n.value.unit or "") != p["unit"]:
            return f"{p['path']}: unit {n.value.unit!r}"
        if sorted(n.tags or []) != sorted(p["tags"]) or bool(n.constant) != p["const"]:
            return f"{p['path']}: tags/constant"
    return None


# ------------------------------------------------------------------ the real exporter

def exporter(be):
    from scinumtools.dip import config as K
    return {"dip": K.ExportConfig, "json": K.ExportConfigJSON, "yaml": K.ExportConfigYAML, "toml": K.ExportConfigTOML,
            "bash": K.ExportConfigBash, "c": K.ExportConfigC, "cpp": K.ExportConfigCPP,
            "fortran": K.ExportConfigFortran, "rust": K.ExportConfigRust}[be]


def make_exporter(rec, env):
    kw = {}
    if not rec["opt"]["rename"]:
        kw["rename"] = False
    elif rec["_rid"] % 3 == 0:
        kw["rename"] = True                      # explicit and default spelling of the option
    return exporter(rec["be"])(env, **kw)


def call_select(exp, query, tags):
    exp.select(query=query or None, tags=sorted(tags) or None)


def parse_kwargs(be, opt, rid):
    pk = {}
    if be in ("c", "cpp"):
        if rid % 2:
            pk["guard"] = f"CFG_{rid}"
        if opt["define"]:
            pk["define"] = tuple(opt["define"]) if rid % 4 < 2 else list(opt["define"])
        if be == "cpp" and opt["const"]:
            pk["const"] = tuple(opt["const"])
    elif be == "fortran":
        pk["module"] = f"cfg_{rid}"
    elif be == "bash":
        if not opt["bexport"] or rid % 2:
            pk["export"] = opt["bexport"]
    elif be in ("json", "yaml", "toml"):
        if not opt["units"] or rid % 2:
            pk["units"] = opt["units"]
    return pk


def do_export(rec, env):
    """One exporter object per scenario.  A scenario of family 'history' first replays the calls before its parse."""
    be, rid = rec["be"], rec["_rid"]
    exp = make_exporter(rec, env)
    if "_hist" in rec:
        for c in rec["_hist"]["calls"][:rec["_hist"]["k"]]:
            if c["op"] == "select":
                call_select(exp, c["query"], c["tags"])     # a select() that raises is the failure of this scenario too
            else:
                try:
                    exp.parse(**parse_kwargs(be, c["opt"], rid))
                except Exception:
                    pass                                     # judged in the scenario of that parse
    elif rec["query"] or rec["tags"]:
        call_select(exp, rec["query"], rec["tags"])
    return exp.parse(**parse_kwargs(be, rec["opt"], rid))


def chain_before(rec, env):
    """Family 'chain': the same parsed environment was already exported through these back-ends (new exporter object each)."""
    for c in rec.get("_chain", []):
        try:
            exporter(c["be"])(env).parse(**parse_kwargs(c["be"], c["opt"], rec["_rid"]))
        except Exception:
            pass                                             # judged in the scenarios of that back-end


# ------------------------------------------------------------------ observations
# obs = {"syms": {sym: {"store","kind","bits","sgn","shape","elems":[...],"unit"}}, "keys": [all visible symbols] | None,
#        "visible": [unselected symbols seen], "error": (mode, text) | None}

def shape_of(v):
    """nested lists -> (shape, flat row-major elements); (None, None) when ragged"""
    if not isinstance(v, list):
        return [], [v]
    if v and all(isinstance(x, list) for x in v):
        subs = [shape_of(x) for x in v]
        if any(sh is None or sh != subs[0][0] for sh, _ in subs):
            return None, None
        return [len(v)] + subs[0][0], [y for _, fl in subs for y in fl]
    return [len(v)], list(v)


def kind_of(x):
    return "bool" if isinstance(x, bool) else "int" if isinstance(x, int) else "float" if isinstance(x, float) \
        else "str" if isinstance(x, str) else "other:" + type(x).__name__


def observe_data(be, text):
    if be == "json":
        data = json.loads(text)
    elif be == "yaml":
        import yaml
        data = yaml.safe_load(text)
        if data is None:
            data = {}
    else:
        import tomllib
        data = tomllib.loads(text)
    syms = {}
    for k, v in data.items():
        unit = ""
        if isinstance(v, dict) and set(v) == {"value", "unit"}:
            unit, v = v["unit"], v["value"]
        shape, flat = shape_of(v)
        kinds = sorted({kind_of(x) for x in flat}) if flat else ["empty"]
        syms[k] = {"store": "key", "kind": kinds[0] if len(kinds) == 1 else "mixed:" + "/".join(kinds), "bits": 0, "sgn": "na",
                   "shape": shape, "elems": flat, "unit": unit}
    return {"syms": syms, "keys": list(data.keys()), "visible": [], "error": None}


def fast_dip():
    """DIP() looks up its caller with inspect.stack() (7 ms); the shared adapter replaces that by a constant."""
    from . import dip_adapter
    dip_adapter.speedup()


def observe_dip(text):
    from scinumtools.dip import DIP
    fast_dip()
    from scinumtools.dip.datatypes import IntegerType, FloatType, BooleanType, StringType
    with DIP() as d:
        d.add_string(text)
        env = d.parse()
    syms = {}
    for n in env.nodes:
        v = n.value
        kind = {IntegerType: "int", FloatType: "float", BooleanType: "bool", StringType: "str"}.get(type(v), "other")
        shape, flat = shape_of(v.value)
        syms[n.name] = {"store": "node", "kind": kind, "bits": v.precision if kind in ("int", "float") else 0,
                        "sgn": ("u" if v.unsigned else "s") if kind == "int" else "na",
                        "shape": shape, "elems": flat, "unit": v.unit or ""}
    return {"syms": syms, "keys": [n.name for n in env.nodes], "visible": [], "error": None}


def hexfloat(s):
    return float.fromhex(s)


def parse_el(be, line):
    """E|kind|sgn|bits|value  ->  (kind, sgn, bits, python value)"""
    _, kind, sgn, bits, val = line.split("|", 4)
    bits = int(bits)
    if kind == "int":
        v = int(val)
    elif kind == "bool":
        v = val == "true"
    elif kind == "str":
        n, s = val.split(":", 1)
        v = s[:int(n)] if len(s) >= int(n) else s
        if len(s) != int(n):
            v = ("badlen", s)
    elif kind == "float":
        if be in ("c", "cpp"):
            h, exact = val.split(" ")
            v = hexfloat(h) if exact == "1" or bits > 64 else ("inexact", h)     # wider than binary64: nearest double
        elif be == "rust":
            import struct
            v = struct.unpack(">f", bytes.fromhex(val))[0] if bits == 32 else struct.unpack(">d", bytes.fromhex(val))[0]
        else:                                     # fortran: decimal text with enough digits to identify the value
            t = val.strip()
            if bits <= 64:
                v = float(t)
                if bits == 32:
                    import numpy as np
                    v = float(np.float32(v))
            else:
                try:
                    v = float(Fraction(Decimal(t)))                               # wider than binary64: nearest double
                except Exception:
                    v = ("unparsed", t)
    else:
        v = ("other", val)
    if kind in ("bool", "str"):
        bits, sgn = 0, "na"
    if kind == "float" or be == "fortran":
        sgn = "na"
    return kind, sgn, bits, v


def parse_reader_output(be, out):
    """-> {rid: obs}"""
    res, cur, sym, macro = {}, None, None, set()
    for line in out.splitlines():
        if line.startswith("ENV|"):
            cur = {"syms": {}, "keys": None, "visible": [], "error": None}
            res[int(line[4:])] = cur
            sym, macro = None, set()
        elif cur is None:
            continue
        elif line.startswith("MACRO|"):
            macro.add(line[6:])
        elif line.startswith("VISIBLE|"):
            cur["visible"].append(line[8:])
        elif line.startswith("P|"):
            f = line.split("|")
            if len(f) < 3 or not f[2].isdigit() or len(f) < 3 + int(f[2]):
                sym = None                                      # cut off by a crash of the reader
                continue
            name, rank = f[1], int(f[2])
            sym = {"store": "macro" if name in macro else "object", "kind": None, "bits": 0, "sgn": "na",
                   "shape": [int(x) for x in f[3:3 + rank]], "elems": [], "unit": "", "_kinds": set()}
            cur["syms"][name] = sym
        elif line.startswith("E|") and sym is not None:
            try:
                k, s, b, v = parse_el(be, line)
            except Exception:                                   # a reader that crashed in the middle of a line
                k, s, b, v = "other", "na", 0, ("unreadable", line[:80])
            sym["_kinds"].add((k, s, b))
            sym["elems"].append(v)
    for o in res.values():
        for s in o["syms"].values():
            ks = s.pop("_kinds")
            if len(ks) == 1:
                s["kind"], s["sgn"], s["bits"] = next(iter(ks))
            else:
                s["kind"] = "mixed" if ks else "empty"
            if s["store"] == "macro":                       # a macro has no declared type
                s["kind"], s["bits"], s["sgn"] = "macro", 0, "na"
    return res


def parse_bash_output(out):
    res, cur, sym = {}, None, None
    for line in out.split("\n"):
        if line.startswith("ENV|"):
            cur = {"syms": {}, "keys": None, "visible": [], "error": None}
            res[int(line[4:])] = cur
            sym = None
        elif cur is None:
            continue
        elif line.startswith("SRCERR|"):
            cur["error"] = ("compile", "bash: source failed")
        elif line.startswith("VISIBLE|"):
            cur["visible"].append(line[8:])
        elif line.startswith("P|"):
            _, name, flags, cnt = line.split("|")
            sym = {"store": "shellvar", "kind": "text", "bits": 0, "sgn": "na", "_flags": flags, "_n": int(cnt), "_kv": [], "unit": ""}
            cur["syms"][name] = sym
        elif line.startswith("K|") and sym is not None:
            _, key, val = line.split("|", 2)
            n, s = val.split(":", 1)
            sym["_kv"].append((key, s if len(s) == int(n) else ("badlen", s)))
    for o in res.values():
        for s in o["syms"].values():
            fl, kv = s.pop("_flags"), s.pop("_kv")
            s.pop("_n")
            if "A" in fl:
                try:
                    import itertools
                    idx = {tuple(int(x) for x in k.split(",")): v for k, v in kv}
                    rank = {len(i) for i in idx}
                    if len(rank) != 1 or min(rank) < 2:
                        raise ValueError
                    ext = [max(i[d] for i in idx) + 1 for d in range(min(rank))]
                    cells = list(itertools.product(*[range(n) for n in ext]))
                    if len(idx) != len(cells):
                        raise ValueError
                    s["shape"], s["elems"] = ext, [idx[c] for c in cells]
                except Exception:
                    s["shape"], s["elems"] = ["assoc", sorted(k for k, _ in kv)], [v for _, v in kv]
            elif "a" in fl:
                keys = [k for k, _ in kv]
                s["shape"] = [len(kv)] if keys == [str(i) for i in range(len(kv))] else ["indexed", keys]
                s["elems"] = [v for _, v in kv]
            else:
                s["shape"], s["elems"] = [], [v for _, v in kv]
    return res


# ------------------------------------------------------------------ comparison with the record (the verdict)

def expected_value(v):
    t = v["t"]
    if t == "int":
        return int(v["txt"])
    if t == "float":
        x = float(v["txt"])
        if v["as"] == 32:
            import numpy as np
            x = float(np.float32(x))
        return x
    if t == "bool":
        return v["txt"] == "true"
    if t == "str" and v.get("pad"):
        return v["txt"].ljust(v["pad"])
    return v["txt"]


def observed_as(t, x):
    """Shell text is read as the kind of value the record expects there."""
    if not isinstance(x, str):
        return x
    try:
        if t == "int" and re.fullmatch(r"[+-]?\d+", x):
            return int(x)
        if t == "float":
            return float(x)
    except ValueError:
        pass
    return x


def same(a, b):
    if isinstance(a, bool) or isinstance(b, bool):
        return isinstance(a, bool) and isinstance(b, bool) and a == b
    if isinstance(a, float) and isinstance(b, float):
        return a == b or (a != a and b != b)
    return type(a) is type(b) and a == b


def compare(exp, ob, textual=False):
    """-> None | (failure mode, expected, observed)"""
    if ob is None:
        return ("symbol", exp["sym"], "not visible to the reader")
    if ob["store"] != exp["store"]:
        return ("store", exp["store"], ob["store"])
    tc = exp["tclass"]
    got = {"kind": ob["kind"], "bits": ob["bits"], "sgn": ob["sgn"]}
    if got != tc:
        return ("type", tc, got)
    if ob["shape"] != exp["shape"]:
        return ("shape", exp["shape"], ob["shape"])
    if len(ob["elems"]) != len(exp["elems"]):
        return ("shape", len(exp["elems"]), len(ob["elems"]))
    pad = None
    for e, x in zip(exp["elems"], ob["elems"]):
        want = expected_value(e["v"])
        if textual:
            x = observed_as(e["v"]["t"], x)
        if not same(want, x):
            if isinstance(want, str) and isinstance(x, str) and x.rstrip(" ") == want.rstrip(" "):
                pad = pad or ("element:trailing_blanks", {"idx": e["idx"], "value": want}, {"idx": e["idx"], "value": x})
                continue
            return ("element", {"idx": e["idx"], "value": want}, {"idx": e["idx"], "value": repr(x)})
    if pad:
        return pad
    if ob["unit"] != exp["unit"]:
        return ("unit", exp["unit"], ob["unit"])
    return None


def judge(rec, obs):
    """-> list of (status, tags, failure, expected, observed, clause) ; status ok | fail | shadowed"""
    out = []
    be = rec["be"]
    rfeat = set(rec["feat"])
    allfeat = set(rfeat)
    for e in rec["expect"]:
        allfeat |= set(e["feat"])
    if obs["error"]:
        mode, text = obs["error"]
        code = re.sub(r'"[^"\n]*"', '""', text)                      # symbols are looked for outside string literals
        named = [e for e in rec["expect"] if re.search(r"(?<![A-Za-z0-9_])" + re.escape(e["sym"]) + r"(?![A-Za-z0-9_])", code, re.I if be == "fortran" else 0)]
        if mode == "compile" and named and len(rec["expect"]) > 1:
            for e in rec["expect"]:
                if e in named:
                    out.append(("fail", e["feat"], mode, "a definition the reader accepts", text[:300], f"{be}: {e['sym']} is readable"))
                else:
                    out.append(("shadowed", e["feat"], None, None, None, None))
        else:
            out.append(("fail", sorted(allfeat), mode, "an export the reader accepts", text[:300], f"{be}: export of the selected parameters is readable"))
        return out
    for e in rec["expect"]:
        r = compare(e, obs["syms"].get(e["sym"]), textual=(be == "bash"))
        if r is None:
            out.append(("ok", e["feat"], None, None, None, None))
        else:
            out.append(("fail", e["feat"], r[0], r[1], r[2], f"{be}: parameter {e['rel']} is read back as symbol {e['sym']} with the environment's {r[0].split(':')[0]}"))
    want = {e["sym"] for e in rec["expect"]}
    extra = set(obs["visible"])
    if obs["keys"] is not None:
        extra |= set(obs["keys"]) - want
    if extra:
        out.append(("fail", sorted(rfeat | {"selection"}), "selection", sorted(want), sorted(extra), f"{be}: exactly the selected parameters are exported"))
    else:
        out.append(("ok", sorted(rfeat | {"selection"}), None, None, None, None))
    return out


# ------------------------------------------------------------------ phase A: render, parse, export (+ in-process readers)

def phase_a(rec):
    """-> dict(status=..., ...)   status: unspecified | notbuilt | judged | pending"""
    if rec["class"] != "wellformed":
        return {"status": "unspecified"}
    from scinumtools.dip import DIP
    fast_dip()
    layout = "nested" if (rec["_rid"] + rec["_seed"]) % 2 else "flat"
    text = render_dip(rec["env"], layout)
    try:
        with DIP() as d:
            d.add_string(text)
            env = d.parse()
        why = same_env(env, rec["env"], types=False)
    except Exception as ex:
        why = f"DIP.parse raised {type(ex).__name__}: {str(ex)[:120]}"
    if why:
        return {"status": "notbuilt", "why": why, "dip": text}
    be = rec["be"]
    before = same_env(env, rec["env"])        # a node whose width/sign differs from its declaration is exported and judged
    chain_before(rec, env)
    try:
        out = do_export(rec, env)
    except Exception as ex:
        obs = {"syms": {}, "keys": None, "visible": [], "error": ("raises", f"{type(ex).__name__}: {str(ex)[:200]}")}
        return {"status": "judged", "dip": text, "export": None, "items": judge(rec, obs) + env_item(rec, env, before)}
    extra = env_item(rec, env, before)
    if be in COMPILED:
        return {"status": "pending", "dip": text, "export": out, "extra": extra, "typewhy": before}
    try:
        obs = observe_dip(out) if be == "dip" else observe_data(be, out)
    except Exception as ex:
        obs = {"syms": {}, "keys": None, "visible": [], "error": ("compile", f"reader rejected the export: {type(ex).__name__}: {str(ex)[:200]}")}
    return {"status": "judged", "dip": text, "export": out, "items": judge(rec, obs) + extra, "typewhy": before}


def env_item(rec, env, before=None):
    """An export reads the environment: afterwards it must still be the environment of the scenario."""
    why = same_env(env, rec["env"])
    tags = sorted(set(rec["feat"]) | {"environment"})
    if why and why != before:
        return [("fail", tags, "environment", "the parsed environment, unchanged", why,
                 f"{rec['be']}: the environment is not modified by exporting it")]
    return [("ok", tags, None, None, None, None)]


# ------------------------------------------------------------------ phase B: generated reader programs

C_PRELUDE = r"""
#include <stdio.h>
#define KIND(x) _Generic((x), _Bool:"bool", char:"int", signed char:"int", unsigned char:"int", short:"int", unsigned short:"int", int:"int", unsigned:"int", long:"int", unsigned long:"int", long long:"int", unsigned long long:"int", __int128:"int", unsigned __int128:"int", float:"float", double:"float", long double:"float", char*:"str", const char*:"str", default:"other")
#define SGN(x) _Generic((x), char:"s", signed char:"s", short:"s", int:"s", long:"s", long long:"s", unsigned char:"u", unsigned short:"u", unsigned:"u", unsigned long:"u", unsigned long long:"u", __int128:"s", unsigned __int128:"u", default:"na")
static void sh_b(_Bool v){ printf("%s", v?"true":"false"); }
static void sh_ll(long long v){ printf("%lld", v); }
static void sh_ull(unsigned long long v){ printf("%llu", v); }
static void sh_i128(__int128 v){ if (v < 0) printf("%lld", (long long)v); else printf("%llu", (unsigned long long)v); }
static void sh_d(double v){ printf("%a 1", v); }
static void sh_ld(long double v){ printf("%a %d", (double)v, (int)((long double)(double)v==v)); }
static void sh_s(const char* v){ printf("%zu:%s", __builtin_strlen(v), v); }
static void sh_o(int v){ (void)v; printf("?"); }
#define SHOW(x) _Generic((x), _Bool:sh_b, char:sh_ll, signed char:sh_ll, short:sh_ll, int:sh_ll, long:sh_ll, long long:sh_ll, unsigned char:sh_ull, unsigned short:sh_ull, unsigned:sh_ull, unsigned long:sh_ull, unsigned long long:sh_ull, __int128:sh_i128, unsigned __int128:sh_i128, float:sh_d, double:sh_d, long double:sh_ld, char*:sh_s, const char*:sh_s)(x)
#define EL(x) do{ printf("E|%s|%s|%zu|", KIND(x), SGN(x), sizeof(x)*8); SHOW(x); printf("\n"); }while(0)
#define REP0(n,x) do{ printf("P|%s|0\n", n); EL(x); }while(0)
#define REP1(n,x) do{ size_t n0=sizeof(x)/sizeof((x)[0]); printf("P|%s|1|%zu\n", n, n0); for(size_t i_=0;i_<n0;i_++) EL((x)[i_]); }while(0)
#define REP3(n,x) do{ size_t n0=sizeof(x)/sizeof((x)[0]), n1=sizeof((x)[0])/sizeof((x)[0][0]), n2=sizeof((x)[0][0])/sizeof((x)[0][0][0]); printf("P|%s|3|%zu|%zu|%zu\n", n, n0, n1, n2); for(size_t i_=0;i_<n0;i_++) for(size_t j_=0;j_<n1;j_++) for(size_t k_=0;k_<n2;k_++) EL((x)[i_][j_][k_]); }while(0)
#define REP2(n,x) do{ size_t n0=sizeof(x)/sizeof((x)[0]), n1=sizeof((x)[0])/sizeof((x)[0][0]); printf("P|%s|2|%zu|%zu\n", n, n0, n1); for(size_t i_=0;i_<n0;i_++) for(size_t j_=0;j_<n1;j_++) EL((x)[i_][j_]); }while(0)
"""

CPP_PRELUDE = r"""
#include <cstdio>
#include <cstring>
#include <cstddef>
#include <type_traits>
template<class T> struct El {
  static void show(const T& v){
    if (std::is_same<T,bool>::value) std::printf("E|bool|na|8|%s\n", v?"true":"false");
    else if (std::is_integral<T>::value) { if (std::is_signed<T>::value) std::printf("E|int|s|%zu|%lld\n", sizeof(T)*8, (long long)v); else std::printf("E|int|u|%zu|%llu\n", sizeof(T)*8, (unsigned long long)v); }
    else if (std::is_floating_point<T>::value) std::printf("E|float|na|%zu|%a %d\n", sizeof(T)*8, (double)v, (int)((long double)(double)v==(long double)v));
    else std::printf("E|other|na|0|?\n");
  }
};
template<> struct El<__int128> { static void show(const __int128& v){ if (v < 0) std::printf("E|int|s|128|%lld\n", (long long)v); else std::printf("E|int|s|128|%llu\n", (unsigned long long)v); } };
template<> struct El<char*> { static void show(char* const& v){ std::printf("E|str|na|64|%zu:%s\n", std::strlen(v), v); } };
template<> struct El<const char*> { static void show(const char* const& v){ std::printf("E|str|na|64|%zu:%s\n", std::strlen(v), v); } };
template<class T> void rep(const char* n, const T& x){ std::printf("P|%s|0\n", n); El<typename std::remove_cv<T>::type>::show(x); }
template<class T, std::size_t N> void rep(const char* n, const T (&x)[N]){ std::printf("P|%s|1|%zu\n", n, N); for(std::size_t i=0;i<N;i++) El<typename std::remove_cv<T>::type>::show(x[i]); }
template<class T, std::size_t N, std::size_t M, std::size_t K> void rep(const char* n, const T (&x)[N][M][K]){ std::printf("P|%s|3|%zu|%zu|%zu\n", n, N, M, K); for(std::size_t i=0;i<N;i++) for(std::size_t j=0;j<M;j++) for(std::size_t k=0;k<K;k++) El<typename std::remove_cv<T>::type>::show(x[i][j][k]); }
template<class T, std::size_t N, std::size_t M> void rep(const char* n, const T (&x)[N][M]){ std::printf("P|%s|2|%zu|%zu\n", n, N, M); for(std::size_t i=0;i<N;i++) for(std::size_t j=0;j<M;j++) El<typename std::remove_cv<T>::type>::show(x[i][j]); }
"""

RUST_PRELUDE = r"""#![allow(warnings)]
trait El { fn el(&self) -> String; }
macro_rules! el_int { ($($t:ty, $s:expr, $b:expr);*) => { $(impl El for $t { fn el(&self) -> String { format!("E|int|{}|{}|{}", $s, $b, self) } })* } }
el_int!(i8,"s",8; i16,"s",16; i32,"s",32; i64,"s",64; i128,"s",128; isize,"s",64; u8,"u",8; u16,"u",16; u32,"u",32; u64,"u",64; u128,"u",128; usize,"u",64);
impl El for f32 { fn el(&self) -> String { format!("E|float|na|32|{:08x}", self.to_bits()) } }
impl El for f64 { fn el(&self) -> String { format!("E|float|na|64|{:016x}", self.to_bits()) } }
impl El for bool { fn el(&self) -> String { format!("E|bool|na|0|{}", self) } }
impl El for &str { fn el(&self) -> String { format!("E|str|na|0|{}:{}", self.len(), self) } }
trait Rep { fn rep(&self, n: &str); }
impl<T: El> Rep for T { fn rep(&self, n: &str) { println!("P|{}|0", n); println!("{}", self.el()); } }
impl<T: El, const N: usize> Rep for [T; N] { fn rep(&self, n: &str) { println!("P|{}|1|{}", n, N); for x in self.iter() { println!("{}", x.el()); } } }
impl<T: El, const N: usize, const M: usize, const K: usize> Rep for [[[T; K]; M]; N] { fn rep(&self, n: &str) { println!("P|{}|3|{}|{}|{}", n, N, M, K); for p in self.iter() { for r in p.iter() { for x in r.iter() { println!("{}", x.el()); } } } } }
impl<T: El, const N: usize, const M: usize> Rep for [[T; M]; N] { fn rep(&self, n: &str) { println!("P|{}|2|{}|{}", n, N, M); for r in self.iter() { for x in r.iter() { println!("{}", x.el()); } } } }
"""

BASH_PRELUDE = r"""
rep() {
  if ! declare -p "$1" >/dev/null 2>&1; then return; fi
  local c19_decl c19_flags c19_key
  c19_decl=$(declare -p "$1"); c19_flags=${c19_decl#declare }; c19_flags=${c19_flags%% *}
  local -n c19_ref=$1
  printf 'P|%s|%s|%s\n' "$1" "$c19_flags" "${#c19_ref[@]}"
  for c19_key in "${!c19_ref[@]}"; do printf 'K|%s|%s:%s\n' "$c19_key" "${#c19_ref[$c19_key]}" "${c19_ref[$c19_key]}"; done
}
vis() { if declare -p "$1" >/dev/null 2>&1; then printf 'VISIBLE|%s\n' "$1"; fi; }
"""


def fortran_prelude():
    kinds = {"integer": [1, 2, 4, 8], "real": [4, 8, 16], "logical": [4], "character": [1]}
    out = ["module c19_reader", "  implicit none", "  interface rep"]
    procs = [f"rep_{t[0]}{k}_{r}" for t, ks in kinds.items() for k in ks for r in (0, 1, 2, 3)]
    for i in range(0, len(procs), 9):
        out.append("    module procedure " + ", ".join(procs[i:i + 9]))
    out += ["  end interface", "contains"]

    def el(t, k, x):
        if t == "integer":
            return [f'    write(*,"(A,I0,A,I0)") "E|int|na|", storage_size({x}), "|", {x}']
        if t == "real":
            fmt = {4: "ES16.9E2", 8: "ES25.17E3", 16: "ES45.36E4"}[k]
            return [f'    write(*,"(A,I0,A,{fmt})") "E|float|na|", storage_size({x}), "|", {x}']
        if t == "logical":
            return [f"    if ({x}) then", '      write(*,"(A)") "E|bool|na|0|true"', "    else",
                    '      write(*,"(A)") "E|bool|na|0|false"', "    end if"]
        return [f'    write(*,"(A,I0,A,A)") "E|str|na|0|", len({x}), ":", {x}']
    for t, ks in kinds.items():
        for k in ks:
            decl = "character(len=*)" if t == "character" else f"{t}(kind={k})"
            for r in (0, 1, 2, 3):
                dim = ["", ", dimension(:)", ", dimension(:,:)", ", dimension(:,:,:)"][r]
                out += [f"  subroutine rep_{t[0]}{k}_{r}(n, x)", "    character(len=*), intent(in) :: n",
                        f"    {decl}{dim}, intent(in) :: x", "    integer :: i, j, k"]
                if r == 0:
                    out += ['    write(*,"(A,A,A)") "P|", n, "|0"'] + el(t, k, "x")
                elif r == 1:
                    out += ['    write(*,"(A,A,A,I0)") "P|", n, "|1|", size(x,1)', "    do i = 1, size(x,1)"] + el(t, k, "x(i)") + ["    end do"]
                elif r == 2:
                    out += ['    write(*,"(A,A,A,I0,A,I0)") "P|", n, "|2|", size(x,1), "|", size(x,2)',
                            "    do i = 1, size(x,1)", "    do j = 1, size(x,2)"] + el(t, k, "x(i,j)") + ["    end do", "    end do"]
                else:
                    out += ['    write(*,"(A,A,A,I0,A,I0,A,I0)") "P|", n, "|3|", size(x,1), "|", size(x,2), "|", size(x,3)',
                            "    do i = 1, size(x,1)", "    do j = 1, size(x,2)", "    do k = 1, size(x,3)"] + el(t, k, "x(i,j,k)") + ["    end do", "    end do", "    end do"]
                out += [f"  end subroutine rep_{t[0]}{k}_{r}"]
    out += ["end module c19_reader"]
    return "\n".join(out) + "\n"


IDENT = re.compile(r"[A-Za-z_][A-Za-z0-9_]*\Z")


def sentinels(rec):
    want = {e["sym"] for e in rec["expect"]}
    fold = (lambda x: x.upper()) if rec["be"] == "fortran" else (lambda x: x)      # Fortran identifiers are case-insensitive
    out, seen = [], {fold(x) for x in want}
    for u in rec["unselected"]:
        if u and fold(u) not in seen and IDENT.match(u):
            out.append(u)
            seen.add(fold(u))
    return out


def build_source(be, jobs, d):
    """Write the reader program for the jobs into directory d.  -> (main file, {line number: rid})"""
    lines, owner = [], {}

    def add(rid, *ls):
        for l in ls:
            lines.append(l)
            if rid is not None:
                owner[len(lines)] = rid
    for rec, text in jobs:
        with open(os.path.join(d, f"{PFX[be]}_{rec['_rid']}.{EXT[be]}"), "w") as f:
            f.write(text + "\n")
    if be in ("c", "cpp"):
        for l in (C_PRELUDE if be == "c" else CPP_PRELUDE).split("\n"):
            add(None, l)
        for rec, _ in jobs:
            rid = rec["_rid"]
            add(rid, f"static void env_{rid}(void){{", f'#include "{PFX[be]}_{rid}.h"', f'  printf("ENV|{rid}\\n");')
            for e in rec["expect"]:
                s = e["sym"]
                add(rid, f"#ifdef {s}", f'  printf("MACRO|{s}\\n");', "#endif")
                if be == "c":
                    add(rid, f'  REP{len(e["shape"])}("{s}", {s});')
                else:
                    add(rid, f'  rep("{s}", +({s}));' if e["store"] == "macro" else f'  rep("{s}", {s});')
            for u in sentinels(rec):
                add(rid, f"#ifdef {u}", f'  printf("VISIBLE|{u}\\n");', "#else", f"  int {u}; (void){u};", "#endif")
            for e in rec["expect"]:
                add(rid, f"#undef {e['sym']}")
            add(rid, "#undef CONFIG_H", "}")
        add(None, "int main(void){")
        for rec, _ in jobs:
            add(rec["_rid"], f"  env_{rec['_rid']}();")
        add(None, "  return 0;", "}")
        main = "main.c" if be == "c" else "main.cpp"
    elif be == "fortran":
        with open(os.path.join(d, "reader.f90"), "w") as f:
            f.write(fortran_prelude())
        add(None, "include 'reader.f90'")
        for rec, _ in jobs:
            add(rec["_rid"], f"include 'f_{rec['_rid']}.f90'")
        for rec, _ in jobs:
            rid = rec["_rid"]
            add(rid, f"subroutine env_{rid}()", "  use c19_reader", f"  use cfg_{rid}", "  implicit none")
            for u in sentinels(rec):
                add(rid, f"  integer :: {u}")
            add(rid, f'  write(*,"(A)") "ENV|{rid}"')
            for e in rec["expect"]:
                add(rid, f'  call rep("{e["sym"]}", {e["sym"]})')
            add(rid, f"end subroutine env_{rid}")
        add(None, "program main", "  implicit none")
        for rec, _ in jobs:
            add(rec["_rid"], f"  call env_{rec['_rid']}()")
        add(None, "end program main")
        main = "main.f90"
    elif be == "rust":
        for l in RUST_PRELUDE.split("\n"):
            add(None, l)
        for rec, _ in jobs:
            rid = rec["_rid"]
            add(rid, f"mod e{rid} {{", f'  include!("rs_{rid}.rs");')
            for u in sentinels(rec):
                add(rid, f"  pub const {u}: () = ();")
            add(rid, "}", f"fn env_{rid}() {{", f'  println!("ENV|{rid}");')
            for e in rec["expect"]:
                add(rid, f'  e{rid}::{e["sym"]}.rep("{e["sym"]}");')
            add(rid, "}")
        add(None, "fn main() {")
        for rec, _ in jobs:
            add(rec["_rid"], f"  env_{rec['_rid']}();")
        add(None, "}")
        main = "main.rs"
    else:                                                                        # bash
        for l in BASH_PRELUDE.split("\n"):
            add(None, l)
        for rec, _ in jobs:
            rid = rec["_rid"]
            add(rid, f"( echo 'ENV|{rid}'; source ./bash_{rid}.sh || echo 'SRCERR|{rid}'")
            for e in rec["expect"]:
                add(rid, f"  rep '{e['sym']}'")
            for u in sentinels(rec):
                add(rid, f"  vis '{u}'")
            add(rid, ") 2>/dev/null")
        main = "main.sh"
    with open(os.path.join(d, main), "w") as f:
        f.write("\n".join(lines) + "\n")
    return main, owner


def compile_cmd(be, main):
    if be == "c":
        return [tool("gcc"), "-w", "-O0", "-std=gnu11", "-fmax-errors=0", "-o", "reader", main]
    if be == "cpp":
        return [tool("g++"), "-w", "-O0", "-std=gnu++17", "-fmax-errors=0", "-o", "reader", main]
    if be == "fortran":
        return [tool("gfortran"), "-w", "-O0", "-fmax-errors=0", "-ffree-line-length-none", "-o", "reader", main]
    if be == "rust":
        return [tool("rustc"), "--edition", "2021", "-C", "opt-level=0", "-C", "debuginfo=0", "-A", "warnings", "-o", "reader", main]
    return None


def blame(be, stderr, owner, main):
    """Which scenarios does the compiler complain about?  -> {rid: message}"""
    out = {}
    msgs = re.split(r"\n(?=\S+?:\d+[:.])|\n(?=error)", stderr)
    for m in msgs:
        if be == "fortran" and "Error" not in m and "error" not in m:
            continue
        if be in ("c", "cpp") and "error" not in m:
            continue
        if be == "rust" and not m.startswith("error"):
            continue
        rids = set()
        for mm in re.finditer(r"(?:^|[\s/\"'])(?:c|cpp|f|rs)_(\d+)\.(?:h|f90|rs)\b", m):
            rids.add(int(mm.group(1)))
        if not rids:
            for mm in re.finditer(re.escape(main) + r":(\d+)", m):
                r = owner.get(int(mm.group(1)))
                if r is not None:
                    rids.add(r)
        for r in rids:
            out.setdefault(r, m.strip()[:600])
    return out


def run_chunk(args):
    """Compile and run the reader for one chunk of scenarios of one back-end.  -> ({rid: obs}, n_compilations)"""
    be, jobs, d = args
    res, ncomp = {}, 0
    todo = list(jobs)
    rounds = 0
    while todo:
        rounds += 1
        sub = os.path.join(d, f"r{rounds}")
        os.makedirs(sub, exist_ok=True)
        main, owner = build_source(be, todo, sub)
        if be == "bash":
            p = subprocess.run([tool("bash"), main], cwd=sub, stdout=subprocess.PIPE, stderr=subprocess.PIPE, text=True, errors="replace", timeout=1800)
            res.update(parse_bash_output(p.stdout))
            for rec, _ in todo:
                res.setdefault(rec["_rid"], {"syms": {}, "keys": None, "visible": [], "error": ("compile", "bash: no output for this scenario")})
            break
        ncomp += 1
        p = subprocess.run(compile_cmd(be, main), cwd=sub, stdout=subprocess.PIPE, stderr=subprocess.PIPE, text=True, errors="replace", timeout=3600)
        if p.returncode == 0:
            q = subprocess.run(["./reader"], cwd=sub, stdout=subprocess.PIPE, stderr=subprocess.PIPE, text=True, errors="replace", timeout=1800)
            got = parse_reader_output(be, q.stdout)
            if q.returncode != 0 and got and rounds <= 12:       # the reader crashed (e.g. a string symbol that is no string):
                order = [rec["_rid"] for rec, _ in todo]         # blame the scenario it was printing, keep the ones before,
                last = max(got, key=order.index)                 # read the ones after it again
                for r in order[:order.index(last)]:
                    if r in got:
                        res[r] = got[r]
                res[last] = {"syms": {}, "keys": None, "visible": [], "error": ("compile", "the reader program crashed while reading this scenario")}
                todo = [(rec, t) for rec, t in todo if rec["_rid"] not in res]
                continue
            for rec, _ in todo:
                res[rec["_rid"]] = got.get(rec["_rid"]) or {"syms": {}, "keys": None, "visible": [], "error": ("compile", "reader printed nothing for this scenario: " + q.stderr[-200:])}
            break
        bad = blame(be, p.stderr, owner, main)
        bad = {r: m for r, m in bad.items() if any(rec["_rid"] == r for rec, _ in todo)}
        if not bad:
            if len(todo) == 1:
                bad = {todo[0][0]["_rid"]: p.stderr.strip()[:600]}
            else:                                                            # cannot attribute: bisect
                h = len(todo) // 2
                a, na = run_chunk((be, todo[:h], os.path.join(sub, "a")))
                b, nb = run_chunk((be, todo[h:], os.path.join(sub, "b")))
                res.update(a); res.update(b)
                ncomp += na + nb
                break
        for r, m in bad.items():
            res[r] = {"syms": {}, "keys": None, "visible": [], "error": ("compile", m)}
        todo = [(rec, t) for rec, t in todo if rec["_rid"] not in bad]
        if rounds > 12:
            raise C.MachineryError(f"{be}: reader program still does not compile after 12 rounds: {p.stderr[:800]}")
    return res, ncomp


# ------------------------------------------------------------------ run

def describe_history(rec):
    if "_chain" in rec:
        return "  [same environment exported before through: " + ", ".join(c["be"] for c in rec["_chain"]) + "]"
    if "_hist" not in rec:
        return ""
    out = []
    for c in rec["_hist"]["calls"][:rec["_hist"]["k"] + 1]:
        if c["op"] == "select":
            out.append(f"select(query={c['query'] or None!r}, tags={sorted(c['tags']) or None!r})")
        else:
            o = c["opt"]
            out.append("parse(" + ", ".join(f"{k}={o[k]!r}" for k in ("units", "define", "const", "bexport") if o[k] not in (True, [])) + ")")
    return "  [one exporter object: " + "; ".join(out) + "]"


def replay_one(path):
    body = json.load(open(path))
    rec = body["scenario"]
    wd = C.workdir(PID)
    a = phase_a(rec)
    items = a.get("items")
    if a["status"] == "pending":
        obs, _ = run_chunk((rec["be"], [(rec, a["export"])], os.path.join(wd, "replay")))
        items = judge(rec, obs[rec["_rid"]]) + a.get("extra", [])
    print(f"replay {path}: status={a['status']}")
    print("DIP text:\n" + a.get("dip", ""))
    print("export:\n" + str(a.get("export")))
    bad = 0
    fnd = C.Findings(PID)
    for it in items or []:
        print(" ", it[0], it[2], "expected", it[3], "observed", it[4])
        if it[0] == "fail" and fnd.match(it[1], it[2]) is None:
            bad += 1
    C.cleanup(PID)
    if bad:
        print(f"VIOLATION property={PID} replay={path}")
        return 1
    return 0


def run(replay=None):
    if replay:
        return replay_one(replay)
    V = C.Verdicts(PID, "exploration")
    wd = C.workdir(PID)
    t, sd = C.tier(), C.seed()
    b = bounds(t)
    backends = [x for x in os.environ.get("C19_BACKENDS", ",".join(ALL_BACKENDS)).split(",") if x in ALL_BACKENDS]
    # ---- 1. TLC: scenarios + lemmas (two families side by side)
    t0 = time.time()
    with ThreadPoolExecutor(4) as ex:
        w = max(1, C.NCPU // 4)
        f1 = ex.submit(run_family, os.path.join(wd, "tlc_types"), "types", b, backends, w)
        f2 = ex.submit(run_family, os.path.join(wd, "tlc_select"), "select", b, backends, w)
        f3 = ex.submit(run_family, os.path.join(wd, "tlc_history"), "history", b, backends, max(2, C.NCPU // 2))   # the largest model
        f4 = ex.submit(run_family, os.path.join(wd, "tlc_chain"), "chain", b, backends, 1)
        r1, r2, r3, r4 = f1.result(), f2.result(), f3.result(), f4.result()
    pools = [r for r in r1.records if "pools" in r]
    if not pools:
        raise C.MachineryError("Export.tla did not print its pools")
    check_pools(pools[0]["pools"])
    recs = [r for r in r1.records + r2.records if "expect" in r]
    nhist = 0
    for h in r3.records:
        if "calls" not in h:
            continue
        nhist += 1
        c, k = h["last"], len(h["calls"]) - 1           # the scenario judges the last parse, after the calls before it
        light = [dict(x, query=x.get("query", ""), tags=x.get("tags", [])) for x in h["calls"]]
        recs.append({"family": "history", "be": h["be"], "class": c["class"], "feat": sorted(set(c["feat"]) | set(c["hfeat"])),
                     "env": h["env"], "query": c["query"], "tags": c["tags"], "opt": c["opt"],
                     "expect": [dict(e, feat=sorted(set(e["feat"]) | set(c["hfeat"]))) for e in c["expect"]],
                     "unselected": c["unselected"], "_hist": {"calls": light, "k": k}})
    nchain = 0
    for h in r4.records:
        if "calls" not in h:
            continue
        nchain += 1
        c = h["last"]                                    # the last export of the chain is read back
        recs.append({"family": "chain", "be": c["be"], "class": c["class"], "feat": sorted(set(c["feat"]) | set(c["hfeat"])),
                     "env": h["env"], "query": c["query"], "tags": c["tags"], "opt": c["opt"],
                     "expect": [dict(e, feat=sorted(set(e["feat"]) | set(c["hfeat"]))) for e in c["expect"]],
                     "unselected": c["unselected"], "_chain": [{"be": x["be"], "opt": x["opt"]} for x in h["calls"][:-1]]})
    for i, r in enumerate(recs):
        r["_rid"] = i + 1
        r["_seed"] = sd
    t_tlc = time.time() - t0
    # ---- 2. render, parse, export, in-process readers
    t0 = time.time()
    res = C.pmap(phase_a, recs)
    t_a = time.time() - t0
    # ---- 3. reader programs
    t0 = time.time()
    nchunk = {"quick": 2, "thorough": 6}.get(t, 2)
    tasks = []
    for be in COMPILED:
        jobs = [(r, a["export"]) for r, a in zip(recs, res) if r["be"] == be and a["status"] == "pending"]
        if not jobs:
            continue
        k = 1 if be == "bash" else max(1, min(nchunk, len(jobs) // 200 + 1))
        for c in range(k):
            part = jobs[c::k]
            if part:
                tasks.append((be, part, os.path.join(wd, f"{be}_{c}")))
    ncomp = 0
    obs_by_rid = {}
    with ThreadPoolExecutor(max(1, min(C.NCPU, len(tasks) or 1))) as ex:
        for o, n in ex.map(run_chunk, tasks):
            obs_by_rid.update(o)
            ncomp += n
    t_b = time.time() - t0
    # ---- 4. verdicts
    nontrivial, classes, notbuilt, evals, shadowed, retyped = set(), {}, {}, 0, 0, 0
    dump = [] if os.environ.get("C19_DUMP") else None          # development aid: every failing comparison, to a file
    per_be = {}
    for rec, a in zip(recs, res):
        classes[rec["class"]] = classes.get(rec["class"], 0) + 1
        if a["status"] == "unspecified":
            V.unspecified()
            continue
        if a["status"] == "notbuilt":
            k = a["why"].split(":")[0][:40]
            notbuilt[a["why"][:80]] = notbuilt.get(a["why"][:80], 0) + 1
            V.unspecified()
            continue
        items = a.get("items")
        if a.get("typewhy"):
            retyped += 1
        if a["status"] == "pending":
            items = judge(rec, obs_by_rid[rec["_rid"]]) + a.get("extra", [])
        scen = {k: rec[k] for k in ("family", "be", "class", "env", "query", "tags", "opt", "expect", "unselected", "feat", "_rid", "_seed", "_hist", "_chain") if k in rec}
        pb = per_be.setdefault(rec["be"], {"scenarios": 0, "ok": 0, "fail": 0})
        pb["scenarios"] += 1
        for st, tags, failure, exp, ob, clause in items:
            evals += 1
            if st == "ok":
                V.ok(); pb["ok"] += 1
            elif st == "shadowed":
                shadowed += 1
            else:
                pb["fail"] += 1
                if dump is not None:
                    dump.append({"be": rec["be"], "failure": failure, "tags": sorted(tags), "expected": exp, "observed": ob,
                                 "dip": a["dip"], "export": a.get("export"), "query": rec["query"], "seltags": rec["tags"], "opt": rec["opt"],
                                 "history": describe_history(rec)})
                V.fail(scen, exp, ob, clause + describe_history(rec) + "  [DIP: " + a["dip"].replace("\n", " / ")[:200] + "]", tags=tags, failure=failure)
        for e in rec["expect"]:
            if e["shape"] or rec["query"] or rec["tags"] or not rec["opt"]["rename"] or e["store"] == "macro" or rec.get("_hist", {}).get("k") or rec.get("_chain"):
                nontrivial.add((rec["be"], json.dumps(rec["env"][e["param"] - 1], sort_keys=True), rec["query"], tuple(rec["tags"]),
                                json.dumps(rec["opt"], sort_keys=True), json.dumps(rec.get("_hist") or rec.get("_chain"), sort_keys=True)))
    if dump is not None:
        with open(os.environ["C19_DUMP"], "w") as f:
            json.dump(dump, f, indent=1, default=str)
    samples = []
    for rec, a in list(zip(recs, res))[::max(1, len(recs) // 5)][:5]:
        samples.append({"be": rec["be"], "dip": a.get("dip"), "query": rec["query"], "tags": rec["tags"], "opt": rec["opt"],
                        "export": (a.get("export") or "")[:300],
                        "expect": [{k: e[k] for k in ("sym", "store", "tclass", "shape", "unit")} for e in rec["expect"]]})
    V.cov.update({
        "states": r1.distinct + r2.distinct + r3.distinct + r4.distinct,
        "transitions": r1.generated + r2.generated + r3.generated + r4.generated,
        "histories": nhist, "chains": nchain,
        "traces_validated_against_impl": sum(1 for a in res if a["status"] in ("judged", "pending")),
        "evaluations": evals,
        "distinct_nontrivial": len(nontrivial),
        "rule": "TLC enumerates every scenario of spec/Export.tla inside the bounds (family 'types': one parameter of every DIP type x width x sign "
                "x shape x value pattern from the pools; family 'select': sub-lists of a 7-parameter pool x query x tag selector; family 'history': "
                "every history of MaxCalls select()/parse() calls on one exporter object over a 4-parameter environment, one scenario per parse; family 'chain': every sequence of MaxChain exports of one parsed 5-parameter environment through the "
                "back-ends, the last one read back), for every back-end "
                "and applicable option (rename, units, define, const, bash export); every scenario is exported by the real code and read back by the "
                "format's own reader; evaluations = compared parameters + one selection and one environment-unchanged comparison per scenario; non-trivial = distinct "
                "(back-end, parameter, selection, options) with an array, a selection, rename off or a macro",
        "samples": samples, "exhaustive": True, "bounds": b, "backends": backends,
        "classes": classes, "not_constructed_by_DIP": notbuilt, "shadowed_by_compile_error": shadowed,
        "scenarios_where_the_parsed_node_lost_its_declared_width_or_sign": retyped,
        "per_backend": per_be, "compilations": ncomp,
        "timing_s": {"tlc": round(t_tlc, 1), "export_and_load": round(t_a, 1), "reader_programs": round(t_b, 1)},
        "lemmas": "LemmaEnv, LemmaNames, LemmaShapes, LemmaSelection on every scenario; LemmaHistory on every history; LemmaChain on every chain; LemmaTypes as ASSUME",
    })
    V.assumptions += [
        "gcc/g++/gfortran/rustc/bash/json/PyYAML/tomllib on x86-64 are the readers (long double = 16 bytes, real(16) = binary128)",
        "an environment value of a float node is the Python double; a 32-bit declaration is read back as that double rounded to binary32, "
        "a 128-bit declaration (long double, real(16)) as a value whose rounding to binary64 is that double",
        "C/C++ headers are read at block scope of one function per scenario; Rust exports inside one module per scenario; Fortran exports as one module per scenario",
        "const and constexpr are not distinguished by the C++ reader; Fortran names are case-insensitive; Fortran has no sign attribute",
        "strings are restricted to letters, digits, blanks and _ - . ; none values, empty strings and values outside the declared range are outside the claim",
        "scenarios whose DIP text the parser does not turn into the intended environment (e.g. uint64 arrays above 2^63) are skipped, not judged",
    ]
    C.cleanup(PID)
    return V.finish()
