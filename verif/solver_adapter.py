"""Adapter between token-level solver scenarios (spec/Solver*.tla) and scinumtools.solver."""
import math, random, warnings
import numpy as np

warnings.filterwarnings("ignore")
np.seterr(all="ignore")

F1 = ["log", "log10", "exp", "sqrt", "sin", "cos", "tan"]
F2 = ["logb", "pow"]          # symbols 'logb(' and 'pow(' (class OperatorPowb)
ARITY = {"neg": 1, "!": 1, "f1": 1, "f2": 2, "&&?": 1, "||?": 1}
OPCHARS = set("*<>=!&|")
BIN = {"**", "*", "/", "+", "-", "==", "!=", "<=", ">=", "<", ">", "&&", "||"}


def is_atom_tok(t):
    return t not in BIN and t not in ("!", "(", "f1(", "f2(", ")", ",", "neg", "f1", "f2")


def concretise(tokens, rnd):
    """Choose a number for every atom occurrence and a function for every f1(/f2( occurrence."""
    nums, fn1, fn2 = [], [], []
    for t in tokens:
        if t == "f1(":
            fn1.append(rnd.choice(F1))
        elif t == "f2(":
            fn2.append(rnd.choice(F2))
        elif is_atom_tok(t):
            nums.append(rnd.choice([rnd.randint(1, 9), round(rnd.uniform(0.1, 9.9), 2), round(rnd.uniform(1.1, 3.0), 3)]))
    # every third concretisation draws the numbers from a pool of equal and nearly equal values, so that
    # comparisons are also exercised where their operands (almost) coincide
    if rnd.random() < 0.34 and nums:
        pool = rnd.choice([[7, 7, 7.0000001, 7.00001], [100000, 100001, 100000], [0.3, 0.30000000000000004, 0.3], [2, 2, 3]])
        nums = [rnd.choice(pool) for _ in nums]
    return nums, fn1, fn2


def num_text(x):
    return repr(x)


def render(tokens, nums, fn1, fn2, layout, rnd=None):
    """Token string -> text. layout: 'tight' | 'spaced' | 'random'."""
    out = []
    ia = i1 = i2 = 0
    for t in tokens:
        if t == "f1(":
            w = fn1[i1] + "("; i1 += 1
        elif t == "f2(":
            w = fn2[i2] + "("; i2 += 1
        elif is_atom_tok(t):
            w = num_text(nums[ia]); ia += 1
        else:
            w = t
        out.append(w)
    if layout == "tight":
        # two adjacent atoms must stay two atoms
        s = ""
        for k, w in enumerate(out):
            if k and is_atom_tok(tokens[k]) and is_atom_tok(tokens[k - 1]):
                s += " "
            elif k and out[k - 1][-1] in OPCHARS and w[0] in OPCHARS:
                s += " "          # `*` `*` must not fuse into `**`, `<` `==` into `<=` `=`, ...
            s += w
        return s
    if layout == "spaced":
        return " ".join(out)
    s = ""
    for k, w in enumerate(out):
        if k and is_atom_tok(tokens[k]) and is_atom_tok(tokens[k - 1]):
            s += " "
        elif k and out[k - 1][-1] in OPCHARS and w[0] in OPCHARS:
            s += " " * rnd.choice([1, 2])
        else:
            s += " " * rnd.choice([0, 0, 1, 2])
        s += w
    return s + " " * rnd.choice([0, 1])


_FN = {"log": np.log, "log10": np.log10, "sqrt": np.sqrt, "sin": np.sin, "cos": np.cos, "tan": np.tan}


class Arith(Exception):
    pass


class MachineRaises(Exception):
    """The machine spec predicts an exception for this concretisation (data-dependent branch)."""


def eval_tree(tree, nums, fn1, fn2):
    """Fold a Polish tree with the primitive operations the documentation names (Python / NumPy)."""
    pos = [0]
    ia = [0]; i1 = [0]; i2 = [0]

    def ev():
        t = tree[pos[0]]; pos[0] += 1
        if t == "neg":
            return -ev()
        if t == "!":
            return not bool(ev())
        if t in ("&&?", "||?"):
            x = ev()
            if (t == "&&?" and not x) or (t == "||?" and x):
                return x
            raise MachineRaises()
        if t == "f1":
            name = fn1[i1[0]]; i1[0] += 1
            x = ev()
            if name == "exp":
                return np.e ** x
            return _FN[name](x)
        if t == "f2":
            name = fn2[i2[0]]; i2[0] += 1
            x = ev(); y = ev()
            if name == "logb":
                return np.log(x) / np.log(y)
            z = x ** y
            if isinstance(z, complex):
                raise Arith("complex")
            return z
        if t in BIN:
            x = ev(); y = ev()
            if t == "**":
                z = x ** y
                if isinstance(z, complex):
                    raise Arith("complex")
                return z
            if t == "*": return x * y
            if t == "/": return x / y
            if t == "+": return x + y
            if t == "-": return x - y
            if t == "==": return x == y
            if t == "!=": return x != y
            if t == "<=": return x <= y
            if t == ">=": return x >= y
            if t == "<": return x < y
            if t == ">": return x > y
            if t == "&&": return x and y
            if t == "||": return x or y
        v = float(nums[ia[0]]); ia[0] += 1
        return v
    try:
        v = ev()
    except (ZeroDivisionError, OverflowError, TypeError) as e:
        raise Arith(str(e))
    if pos[0] != len(tree):
        raise ValueError("malformed tree")
    return v


def same_value(x, y):
    try:
        if isinstance(x, complex) or isinstance(y, complex):
            x, y = complex(x), complex(y)
            if x != x and y != y:
                return True
            return abs(x - y) <= 1e-12 * max(1.0, abs(x), abs(y))
        fx, fy = float(x), float(y)
    except Exception:
        return False
    if math.isnan(fx) and math.isnan(fy):
        return True
    if math.isinf(fx) or math.isinf(fy):
        return fx == fy
    return abs(fx - fy) <= 1e-12 * max(1.0, abs(fx), abs(fy))


class HarnessInterrupt(BaseException):
    """What a custom atom constructor of the harness raises to model an interruption that is not an Exception
    (KeyboardInterrupt, a timeout of gevent / trio / func_timeout ...)."""


_PRELUDE = [False]


def prelude():
    """Once per process: another solver instance is customised IN PLACE through its public attributes (operator table
    emptied of `not`, `pow` and the functions, steps reversed) and thrown away.  Every solver built afterwards with the
    default arguments must still carry the documented default table and step order."""
    if _PRELUDE[0]:
        return
    _PRELUDE[0] = True
    from scinumtools.solver import ExpressionSolver, AtomBase
    try:
        es = ExpressionSolver(AtomBase)
        for k in ("not", "pow", "sin", "sqrt", "and"):
            es.operators.pop(k, None)
        es.steps.reverse()
        for st in es.steps:
            st["operators"][:] = st["operators"][:1]
        try:
            es.solve("1+2")
        except Exception:
            pass
    except Exception:
        pass


class SolveTimeout(BaseException):
    pass


_CONFIRMED = [False]      # this process has seen a solve exceed both budgets


def _with_budget(fn, budgets=(20, 120)):
    """Run fn() under a wall-clock watchdog; a run over the first budget is repeated once under the second."""
    import signal, threading
    if threading.current_thread() is not threading.main_thread():
        return fn()

    def onalarm(signum, frame):
        raise SolveTimeout()
    if _CONFIRMED[0]:
        budgets = (5,)          # a confirmed timeout is already a violation of this run; keep the rest of the run short
    for i, b in enumerate(budgets):
        old = signal.signal(signal.SIGALRM, onalarm)
        signal.setitimer(signal.ITIMER_REAL, b)
        try:
            return fn()
        except SolveTimeout:
            if i == len(budgets) - 1:
                _CONFIRMED[0] = True
                raise
        finally:
            signal.setitimer(signal.ITIMER_REAL, 0)
            signal.signal(signal.SIGALRM, old)


def solve_real(text, solver=None):
    """Run the real solver on a fresh instance (or the given one). -> (kind, payload)"""
    from scinumtools.solver import ExpressionSolver, AtomBase
    from scinumtools.solver.operators import OperatorBase
    prelude()
    es = solver or ExpressionSolver(AtomBase)
    try:
        r = _with_budget(lambda: es.solve(text))
    except SolveTimeout:
        # "returns the value": an evaluation that takes > 20 s and, repeated, > 120 s of wall time for a few dozen tokens (the unchanged
        # library needs well under a millisecond) does not return one
        return ("timeout", None)
    except (Exception, HarnessInterrupt) as e:        # every exception escaping the public call counts as "rejected"
        return ("err", type(e).__name__)
    if r is None:
        return ("none", None)
    if isinstance(r, OperatorBase):
        return ("item", repr(r))
    if not hasattr(r, "value"):
        return ("item", repr(r))
    return ("val", r.value)
