"""C02 - a solver instance is unaffected by what it solved before.

1. TLC explores Solver.tla (small-step transcription of solve()/Tokens.operate with the token lists
   persisting across calls) over all histories of k calls drawn from a universe of short expressions,
   most of which fail at some token position, for several solver configurations; invariants
   Independent, HistoryFresh, SmallBig.  The defective variant (no reset at the start of solve) must
   produce a counterexample (sensitivity of the spec).
2. Every finished history TLC visited is replayed on ONE real instance; the k-th result / exception is
   compared with a fresh instance's (verdict) and with the spec's outcome (conformance).
3. The same histories and longer random ones are run under the tracer with a symbolic atom type; each
   recorded trace must be a behaviour of the spec (SolverTrace.tla), step by step.
"""
import json, os, random, sys, itertools
from . import common as C
from . import solver_adapter as A

PID = "C02"

CONFIGS = {
    # name: (atoms, bad atoms, op table, steps definition, alphabet for expressions)
    "default": dict(atoms=["a"], bad=["x"], table="AllOps", steps="DefaultSteps", lenient=True,
                    alpha_q=["a", "x", "+", "*", "("], alpha_t=["a", "x", "+", "*", "(", ")", "!"]),
    # default table with a custom atom type that builds integers and reals as different subclasses ("a" is 2.5, "b" is 7)
    "dispatch": dict(atoms=["a", "b"], bad=["x"], table="AllOps", steps="DefaultSteps", lenient=False,
                     alpha_q=["a", "b", "x", "-", "*"], alpha_t=["a", "b", "x", "-", "*", "(", ")"]),
    "muldiv": dict(atoms=["a"], bad=["x"], table='{"(", "*", "/"}', steps="DefaultSteps", lenient=True,
                   alpha_q=["a", "x", "*", "/", "("], alpha_t=["a", "x", "*", "/", "(", ")", "<"]),   # not "+": `+2.5` is a valid number text
    "addgt": dict(atoms=["a"], bad=["x"], table='{"(", "+", ">"}', steps="AddGtSteps", lenient=True,
                  alpha_q=["a", "x", "+", ">", "("], alpha_t=["a", "x", "+", ">", "(", ")", "*"]),
}


def atombase_lenient():
    """AtomBase's and/or short-circuit with a missing right operand is a C01 finding; the machine is lenient while it is open."""
    return any(f["key"] == "logic-rhs-missing" for f in C.Findings("C01").open)


def pyeq():
    """`==`/`!=` on two non-atoms compared Python objects (C01 finding eq-nonatom-sides); the machine follows while it is open."""
    return "TRUE" if any(f["key"] == "eq-nonatom-sides" for f in C.Findings("C01").open) else "FALSE"


def mc_module(cf, maxlen, ncalls, reset, alpha, lenient=None):
    if lenient is None:
        lenient = cf["lenient"] and atombase_lenient()
    if C.tier() == "quick" and ncalls == 2:
        # quick: every expression of the universe as FIRST call, followed by every short probe
        plans = ("{<<e1, e2>> : e1 \\in MCExprs, e2 \\in StringsUpTo(" + C.tla_str(set(alpha)) + ", 2) \\cup Wrapped(StringsUpTo("
                 + C.tla_str(set(alpha)) + ", 1))}")
    else:
        plans = f"PlansOver(MCExprs, {ncalls})"
    return f"""---- MODULE SolverHistMC ----
EXTENDS Solver, SolverHist, Json
MCAtoms == {C.tla_str(set(cf['atoms']))}
MCBad == {C.tla_str(set(cf['bad']))}
MCOpTable == {cf['table']}
MCSteps == {cf['steps']}
MCExprs == StringsUpTo({C.tla_str(set(alpha))}, {maxlen}) \cup Wrapped(StringsUpTo({C.tla_str(set(alpha))}, 2))
MCPlans == {plans}
MCProbes == StringsUpTo({C.tla_str(set(alpha))}, 2)
MCReset == {C.tla_str(reset)}
MCLenient == {C.tla_str(cf['lenient'] if lenient is None else lenient)}
EmitInv == Finished => PrintT(ToJson([plan |-> plan, outs |-> outs]))
====
"""


MC_CFG = """CONSTANTS
  Atoms <- MCAtoms
  BadAtoms <- MCBad
  OpTable <- MCOpTable
  Steps <- MCSteps
  Exprs <- MCExprs
  Plans <- MCPlans
  Probes <- MCProbes
  ResetOnBegin <- MCReset
  Lenient <- MCLenient
  PyEq = %PYEQ%
SPECIFICATION Spec
INVARIANT Independent
INVARIANT HistoryFresh
INVARIANT SmallBig
{emit}
CHECK_DEADLOCK FALSE
"""


_DISPATCH = []


def dispatch_atom():
    """A custom atom type whose constructor dispatches to subclasses (integers / reals) - the public customisation API."""
    if _DISPATCH:
        return _DISPATCH[0]
    from scinumtools.solver import AtomBase

    class Num(AtomBase):
        def __new__(cls, value=None):
            if cls is Num and isinstance(value, str):
                v = value.strip()
                return super().__new__(Int if v.lstrip("+-").isdigit() else Real)
            return super().__new__(cls)

        def __init__(self, value):
            if isinstance(value, str):
                v = value.strip()
                self.value = int(v) if v.lstrip("+-").isdigit() else float(v)
            else:
                self.value = value

    class Int(Num):
        pass

    class Real(Num):
        pass
    _DISPATCH.append(Num)
    return Num


_FACTORY = []


def factory_atom():
    """The atom given as a FACTORY FUNCTION (as the DIP solvers do) that yields two atom classes and is interrupted
    (BaseException, not Exception) on the unknown token."""
    if _FACTORY:
        return _FACTORY[0]
    from scinumtools.solver import AtomBase

    class IntAtom(AtomBase):
        pass

    class RealAtom(AtomBase):
        pass

    def make(text):
        if not isinstance(text, str):
            return RealAtom(text)
        v = text.strip()
        if v.lstrip("+-").isdigit():
            return IntAtom(int(v))
        try:
            return RealAtom(float(v))
        except ValueError:
            raise A.HarnessInterrupt(v)
    _FACTORY.append(make)
    return make


def real_solver(config, sym=False):
    from scinumtools.solver import ExpressionSolver, AtomBase
    from scinumtools.solver import operators as O
    from scinumtools.solver.operators import Otype
    from .solver_tracer import SymAtom
    atom = SymAtom if sym else AtomBase
    if config == "default":
        return ExpressionSolver(atom)
    if config == "dispatch":
        return ExpressionSolver(atom if sym else dispatch_atom())
    if config == "factory":
        return ExpressionSolver(factory_atom())
    if config == "muldiv":
        return ExpressionSolver(atom, {"par": O.OperatorPar, "mul": O.OperatorMul, "truediv": O.OperatorTruediv})
    if config == "addgt":
        ops = {"add": O.OperatorAdd, "gt": O.OperatorGt, "par": O.OperatorPar}
        steps = [dict(operators=["par"], otype=Otype.ARGS), dict(operators=["add"], otype=Otype.BINARY),
                 dict(operators=["gt"], otype=Otype.BINARY)]
        return ExpressionSolver(atom, ops, steps)
    raise KeyError(config)


def render_plain(tokens, sym=False):
    """tokens -> text; 'a' -> a number (or the name a for symbolic atoms), 'x' -> an unknown name."""
    out = []
    for k, t in enumerate(tokens):
        if t == "f1(":
            w = "sin("
        elif t == "f2(":
            w = "pow("
        elif t in ("a", "b", "c"):
            w = t if sym else {"a": "2.5", "b": "7", "c": "0.3"}[t]
        elif t == "x":
            w = "foo"
        else:
            w = t
        if k and A.is_atom_tok(tokens[k - 1]) and A.is_atom_tok(t):
            out.append(" ")
        elif k and out[-1][-1] in A.OPCHARS and w[0] in A.OPCHARS:
            out.append(" ")
        out.append(w)
    return "".join(out)


def observe(es, text):
    kind, val = A.solve_real(text, solver=es)
    if kind == "val":
        return ["val", repr(val)]
    if kind == "err":
        return ["err"]
    return [kind]


_PRISTINE = {}       # (config, text) -> observation made in a process that never solved anything else


def _pristine_one(key):
    return key, observe(real_solver(key[0]), key[1])


def pristine_table(keys):
    """Each expression solved by a fresh instance in its OWN fresh process (forked from the parent, which
    never solves anything): the reference that no earlier call of any kind can have influenced."""
    import multiprocessing as mp
    ctx = mp.get_context("fork")
    with ctx.Pool(min(C.NCPU, 16), maxtasksperchild=1) as pool:
        return dict(pool.map(_pristine_one, keys, chunksize=1))


def replay_history(job):
    config, plan, outs = job
    texts = [toks if isinstance(toks, str) else render_plain(toks) for toks in plan]
    # what a fresh instance answers, taken BEFORE the history runs and in reverse order: a call that
    # leaves something behind outside the instance (process-wide state) shows up as a difference too
    before = [observe(real_solver(config), text) for text in reversed(texts)][::-1]
    es = real_solver(config)
    res = []
    for k, text in enumerate(texts):
        got = observe(es, text)
        fresh = observe(real_solver(config), text)
        ref = _PRISTINE.get((config, text), fresh)
        if got != fresh or got != before[k] or got != ref:
            return ("violation", {"config": config, "plan": plan, "call": k + 1, "text": text,
                                  "fresh": fresh if got != fresh else (before[k] if got != before[k] else ref), "reused": got})
        res.append(got)
    # conformance with the spec's outcomes (drift only)
    for k, (got, o) in enumerate(zip(res, outs)):
        if (o == ["#err"]) != (got == ["err"]):
            return ("drift", {"config": config, "plan": plan, "call": k + 1, "spec": o, "code": got})
    return ("ok", None)


# expressions at the edge of the arithmetic domain (log of zero, root of a negative number, division by zero ...):
# a call that fails or warns there must not change what later calls return
EDGE = ["log(2.5-2.5)", "2.5*log(0)", "log10(0)", "sqrt(0-4)", "1/sin(0)", "2.5/(2.5-2.5)", "tan(1)+2", "sqrt(4)", "1/0", "exp(1000)*0",
        "log(0-1)", "2**0.5", "(0-8)**(1/3)"]


def record_traces(config, plans):
    """Run histories under the tracer with the symbolic atom; -> list of traces (lists of events)."""
    from .solver_tracer import Tracer, installed
    tr = Tracer()
    traces = []
    with installed(tr):
        for plan in plans:
            es = real_solver(config, sym=True)
            for toks in plan:
                try:
                    es.solve(render_plain(toks, sym=True), _inp=toks)
                except Exception:
                    pass
            t = tr.tid(es)
            traces.append(tr.traces[t])
    return traces


TRACE_CFG = """CONSTANTS
  Atoms <- MCAtoms
  BadAtoms <- MCBad
  OpTable <- MCOpTable
  Steps <- MCSteps
  Exprs <- MCExprs
  Plans <- MCPlansT
  Probes <- MCProbes
  ResetOnBegin <- MCReset
  Lenient <- MCLenient
  PyEq = %PYEQ%
SPECIFICATION TSpec
INVARIANT Accept
CHECK_DEADLOCK FALSE
"""


def trace_module(cf, reset):
    return f"""---- MODULE SolverTraceMC ----
EXTENDS SolverTrace, SolverHist
MCAtoms == {C.tla_str(set(cf['atoms']) | {'b', 'c'})}
MCBad == {C.tla_str(set(cf['bad']))}
MCOpTable == TraceOps({cf['table']})
MCSteps == TraceSteps({cf['steps']})
MCExprs == {{}}
MCPlansT == {{<<>>}}
MCProbes == {{}}
MCReset == {C.tla_str(reset)}
MCLenient == FALSE
====
"""


def validate_traces(wd, cf, traces, tag):
    """-> (accepted tids, rejected tids)"""
    import re
    f = os.path.join(wd, f"traces-{tag}.json")
    json.dump(traces, open(f, "w"))
    open(os.path.join(wd, "SolverTraceMC.tla"), "w").write(trace_module(cf, True))
    r = C.run_tlc(wd, "SolverTraceMC", TRACE_CFG.replace("%PYEQ%", "FALSE"), env={"TRACE_FILE": f}, want_records=False)
    acc = {int(m.group(1)) for m in re.finditer(r'<<"ACCEPT", (\d+)>>', r.stdout)}
    rej = [i for i in range(1, len(traces) + 1) if i not in acc]
    return acc, rej, r


def random_plans(rnd, alpha, n, maxcalls, maxlen):
    out = []
    for _ in range(n):
        k = rnd.randint(2, maxcalls)
        out.append([[rnd.choice(alpha) for _ in range(rnd.randint(0, maxlen))] for _ in range(k)])
    return out


def run(replay=None):
    V = C.Verdicts(PID, "model_checking")
    if replay:
        body = json.load(open(replay))
        s = body["scenario"]
        st, det = replay_history((s["config"], s["plan"], s.get("outs", [])))
        print(f"replay {replay}: {st} {det}")
        if st == "violation":
            print(f"VIOLATION property={PID} replay={replay}")
            return 1
        return 0
    wd = C.workdir(PID)
    t = C.tier()
    rnd = C.rng(2)
    states = trans = 0
    ntraces = 0
    jobs = []
    sens = {}
    per_config = {}
    for name, cf in CONFIGS.items():
        alpha = cf["alpha_q"] if t == "quick" else cf["alpha_t"]
        maxlen = 3
        ncalls = 2
        # 1a. the repaired algorithm: all histories
        open(os.path.join(wd, "SolverHistMC.tla"), "w").write(mc_module(cf, maxlen, ncalls, True, alpha))
        r = C.run_tlc(wd, "SolverHistMC", MC_CFG.replace("%PYEQ%", pyeq()).format(emit="INVARIANT EmitInv"))
        if r.violated:
            V.notes.append(f"TLC[{name}]: {r.violated} violated on the spec of the current algorithm: {r.cex[:600]}")
        states += r.distinct; trans += r.generated
        per_config[name] = {"states": r.distinct, "histories": len(r.records)}
        for rec in r.records:
            jobs.append((name, rec["plan"], rec["outs"]))
        # 1b. sensitivity: without the reset the spec must yield a counterexample
        open(os.path.join(wd, "SolverHistMC.tla"), "w").write(mc_module(cf, 2, 2, False, cf["alpha_q"]))
        r0 = C.run_tlc(wd, "SolverHistMC", MC_CFG.replace("%PYEQ%", pyeq()).format(emit=""), want_records=False)
        sens[name] = r0.violated or "none"
    # the histories of the dispatch configuration once more with the atom given as a factory function that is interrupted by
    # a BaseException on the unknown token (fresh-instance oracle only: the token-level spec has no notion of either)
    njobs = len(jobs)
    for j in range(njobs):
        if jobs[j][0] == "dispatch":
            jobs.append(("factory", jobs[j][1], []))
    # deeper random histories (no spec outcome: fresh-instance oracle only)
    for name, cf in CONFIGS.items():
        for p in random_plans(rnd, cf["alpha_t"] + ["b", "f1(", "f2(", ",", "-"], 2000 if t == "quick" else 20000, 6, 6):
            jobs.append((name, p, []))
    long_bad = "+".join(["1"] * 400) + "+*"            # several hundred tokens, rejected at the very end
    long_ok = "+".join(["2"] * 700)
    # accumulation: the same nested failure many times, then nested valid expressions
    bad_nested = "((((foo))))+(((foo)))"
    # ... and deep ones: anything an instance accumulates per failed call (a counter, a stack, a budget) shows once
    # failures x nesting depth passes its limit
    deep = ["(" * d + "1+2" + ")" * d for d in (30, 60)] + ["sin(" * 25 + "1" + ")" * 25]
    probes_nested = ["(1+2)*3", "((((1))))", "sin(((2)))*((3))", "pow((2),((3)))"] + deep
    _PRISTINE.update(pristine_table([("default", e) for e in EDGE + [long_bad, long_ok, "1+2", bad_nested] + probes_nested]))
    for k in (6, 20, 60, 150):
        for pr in probes_nested:
            jobs.append(("default", [bad_nested] * k + [pr], []))
    for plan in ([long_bad, long_ok], [long_ok, long_ok, "1+2"], [long_bad, long_bad, long_ok, "1+2"], [long_bad, "1+2"]):
        jobs.append(("default", plan, []))
    for _ in range(600 if t == "quick" else 6000):
        jobs.append(("default", [rnd.choice(EDGE) for _ in range(rnd.randint(2, 4))], []))
    res = C.pmap(replay_history, jobs)
    nontrivial = set()
    for job, (st, det) in zip(jobs, res):
        if st == "violation":
            V.fail({"config": job[0], "plan": job[1], "outs": job[2]}, det["fresh"], det["reused"],
                   f"call {det['call']} ({det['text']!r}) on a reused instance differs from a fresh instance",
                   tags=[job[0]], failure="history-dependent")
        elif st == "drift":
            V.drift(json.dumps(det)[:300])
        else:
            V.ok()
        if len(job[1]) >= 2 and any(o == ["#err"] for o in job[2][:-1]):
            nontrivial.add(json.dumps(job[:2]))
    # 3. trace validation
    rejected = []
    for name, cf in CONFIGS.items():
        plans = [j[1] for j in jobs if j[0] == name and j[2]]
        plans = rnd.sample(plans, min(len(plans), 1500 if t == "quick" else 6000))
        # random longer histories; only tokens whose text the token-level model can represent for this
        # operator table (a token outside the table must not contain a symbol of the table)
        full = ["a", "b", "x", "+", "-", "*", "/", "**", "<", "==", "!", "&&", "||", "(", ")", "f1(", "logb(", "pow(", ","]
        talpha = {"default": full, "dispatch": full,
                  "muldiv": [x for x in full if x in ("*", "/", "(") or not any(c in x for c in "*/(")],
                  "addgt": [x for x in full if x in ("+", ">", "(") or not any(c in x for c in "+>(")] + [">"]}[name]
        plans += random_plans(rnd, talpha, 500 if t == "quick" else 4000, 4, 9)
        traces = record_traces(name, plans)
        acc, rej, r = validate_traces(wd, cf, traces, name)
        ntraces += len(acc)
        states += r.distinct; trans += r.generated
        for i in rej[:5]:
            rejected.append((name, plans[i - 1]))
        if rej:
            V.drift(f"{len(rej)} recorded trace(s) of config {name} are not behaviours of Solver.tla, e.g. plan {plans[rej[0]-1]}")
    # 4. the repository's own tests under the tracer (shape mode): every solver instance the suite creates
    from . import solver_suite_tracer as SS
    suite = SS.run(C, wd)
    ntraces += suite["accepted"]
    states += suite["states"]; trans += suite["transitions"]
    if suite.get("nrejected"):
        V.drift(f"{suite['nrejected']} solver instance histories recorded while running the repository's tests are not behaviours "
                f"of Solver.tla, e.g. {json.dumps(suite['rejected'][0])[:300]}")
    V.cov.update({
        "testsuite_solver_instances_validated": suite["accepted"], "testsuite_solver_configs": suite["configs"],
        "testsuite_solver_events": suite["events"], "testsuite_unsupported_instances": suite["unsupported"],
        "states": states, "transitions": trans, "traces_validated_against_impl": ntraces,
        "evaluations": len(jobs), "distinct_nontrivial": len(nontrivial),
        "rule": "all histories of 2 calls over every token string of length <= 3 of a per-configuration alphabet (TLC, exhaustive; "
                "most strings fail at some token position) for 3 solver configurations, plus random histories of <= 6 calls; each "
                "replayed on one real instance and compared call by call with a fresh instance; non-trivial = a history in which "
                "a call follows a failed call",
        "samples": [{"config": j[0], "plan": j[1], "spec_outcomes": j[2]} for j in jobs[500:503]],
        "exhaustive": True, "per_config": per_config,
        "spec_sensitivity_without_reset": sens,
        "trace_rejections": [{"config": c, "plan": p} for c, p in rejected],
    })
    V.assumptions += ["a fresh instance is the oracle (as the property states); the spec's outcome is used for conformance only",
                      "custom atom type exercised in trace validation (symbolic strict atom), subsets of operators and a custom step order as configurations"]
    C.cleanup(PID)
    return V.finish()
