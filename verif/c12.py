"""C12 - densities, volume and masses of matter are mutually consistent.

1. TLC (spec/Matter.tla) enumerates the scenario structures (Element with a proportion / Substance / Material in three
   modes; 1..K components; mass density or number density given; volume given or not; every combination of input units;
   single object | the same inputs written in standard and in other units) over a small rational model with units as exact
   powers of ten; it checks that the emitted obligations are theorems of the ideal, that the transcription of Matter._norm /
   data_matter satisfies them except under the named deviations of the pinned tree, and that mutations are noticed.
2. Every emitted scenario is built several times with the real classes (model values once, then seeded densities, volumes,
   proportions and substances) and the obligations are evaluated on mass_density, number_density, mass and
   data_matter(quantity=False) (rel 1e-9).
"""
import json, os, random
from . import common as C

PID = "C12"
MUTANTS = ["n_not_scaled", "volume_ignored", "rho_is_n", "stale_matter_norm", "n_unit_blind", "operand_aliased", "norm_cached_by_text"]
DEV_TAGS = {"mass_fraction_mode", "element_proportion", "number_density_dict_form"}


def cfg(maxk, pvals, mvals, dvals, vvals, emit, known, devs=None):
    devs = DEV_TAGS if devs is None else devs
    return f"""CONSTANTS
  MaxK = {maxk}
  PVals = {C.tla_str(set(pvals))}
  MVals = {C.tla_str(set(mvals))}
  DVals = {C.tla_str(set(dvals))}
  VVals = {C.tla_str(set(vvals))}
  Emit = {C.tla_str(emit)}
  Mutants = {C.tla_str(set(MUTANTS))}
  Deviations = {C.tla_str(set(devs))}
  KnownDevs = {C.tla_str(set(known))}
INIT Init
NEXT Next
INVARIANTS SoundIdeal SoundMachine Complete EmitRec
CHECK_DEADLOCK FALSE
"""


def known_devs():
    """Named deviations the machine keeps: those with an open finding.  VERIF_ASSUME_FIXED=tag,tag switches deviations
    off for a trial run against a patched copy (the findings file itself is never touched by a run)."""
    tags = set()
    for f in C.Findings(PID).open:
        tags |= set(f.get("tags", [])) & DEV_TAGS
    return tags - set(filter(None, os.environ.get("VERIF_ASSUME_FIXED", "").split(",")))


def concretisations(rec, nconc, rnd):
    from . import materials_adapter as A
    out = []
    k = rec["k"]
    for j in range(nconc):
        natural = rnd.random() < 0.5
        if rec["cls"] in ("substance", "element"):
            names = A.pick_species(rnd, natural, k)
        else:
            names = rnd.sample(A.FORMULA_POOL, k)
        # one regime of amounts per concretisation, for every composite of the scenario: the model's own values, whole
        # numbers, sub-unit amounts (alloys, non-stoichiometric compounds), or anything over four decades
        def draw():
            if regime == "int":
                return rnd.randint(1, 12)
            if regime == "fraction":
                return rnd.choice([0.2, 0.5, 0.8, 0.95, 1.0, round(rnd.uniform(0.05, 1.0), 3)])
            if rec["form"] == "text":
                return round(10 ** rnd.uniform(-2, 2), 4)
            return 10 ** rnd.uniform(-2, 2)
        regime = "model" if (j == 0 or not rec["pfree"]) else "int" if rec["pint"] else rnd.choice(["int", "fraction", "fraction", "wide"])
        if regime == "model" and rec["cls"] == "element":
            q = rec["ep"]                                  # the element's proportion is part of the scenario
            props = [q[0] // q[1] if q[0] % q[1] == 0 else q[0] / q[1]]
            props2 = props
        elif regime == "model":
            props = [int(x) if rec["pint"] else float(x) for x in rec["p"]]
            props2 = [x + 1 if rec["pint"] else x / 2 for x in props]
        else:
            props = [draw() for _ in range(k)]
            props2 = [draw() for _ in range(k)]
        if j == 0:
            d, v = float(rec["d"]), float(rec["v"])
        else:
            d = 10 ** rnd.uniform(-3, 1.5) if rec["given"] == "rho" else 10 ** rnd.uniform(18, 24)
            v = 10 ** rnd.uniform(-3, 4)
        # A's numbers are what is written in A's units
        inp = {"A.p.%d" % (i + 1): props[i] for i in range(k)}
        inp.update({"B.p.%d" % (i + 1): props2[i] for i in range(k)})      # a second composite of the same components
        inp["A.d"] = d
        inp["A.v"] = v
        # the amount a later add() tops an existing component up with
        inp["A.q"] = 2 if j == 0 else (rnd.randint(1, 9) if rec["pint"] else round(10 ** rnd.uniform(-2, 2), 4))
        out.append({"names": names, "natural": natural, "inp": inp})
    return out


def replay_case(case):
    from . import materials_adapter as A
    rec, conc = case
    try:
        return A.replay_objects(rec, conc, "matter")
    except Exception:
        import traceback
        return ("machinery", {"trace": traceback.format_exc()[-800:]})


def run(replay=None):
    V = C.Verdicts(PID, "exploration")
    if replay:
        body = json.load(open(replay))
        st, det = replay_case((body["scenario"]["rec"], body["scenario"]["conc"]))
        print(f"replay {replay}: {st} {json.dumps(det, default=str)[:600]}")
        if st == "fail" and C.Findings(PID).match(body.get("tags", []), body.get("failure")) is None:
            print(f"VIOLATION property={PID} replay={replay}")
            return 1
        return 0
    wd = C.workdir(PID)
    t, sd = C.tier(), C.seed()
    known = known_devs()
    # emission run: every NAMED deviation of the machine is excused, so that TLC enumerates the whole scenario space
    if t == "quick":
        model = (2, [1, 2], [1, 2], [3], [2])
        nconc = 2
    else:
        model = (3, [1, 2], [1, 2], [1, 3], [2])
        nconc = 5
    # the machine keeps exactly the deviations that still have an open finding; the emission run excuses them
    enabled = set(known)
    r = C.run_tlc(wd, "Matter", cfg(*model, True, enabled, known))
    states, trans = r.distinct, r.generated
    tlc_wall = r.wall
    if r.violated:
        V.notes.append("TLC: Sound violated on the rational model: " + r.cex[:800])
    # design-level run with only the OPEN findings excused: a deviation of the machine that no open finding covers is a
    # counterexample (it becomes a violation only if the code reproduces it, which the replay below decides)
    design_cex = None
    if enabled != known:
        rd = C.run_tlc(wd, "Matter", cfg(2, [1, 2], [1, 2], [3], [2], False, known, known), want_records=False)
        states += rd.distinct; trans += rd.generated
        design_cex = bool(rd.violated)
        if rd.violated:
            V.notes.append("TLC (open findings only): the machine spec deviates from the ideal: " + rd.cex[:300])
    # sensitivity of the design-level check: without any excuse TLC must find the known deviations (thorough)
    sens = None
    if t == "thorough":
        rs = C.run_tlc(wd, "Matter", cfg(2, [1, 2], [1, 2], [3], [2], False, set(), DEV_TAGS), want_records=False)
        sens = bool(rs.violated)
        states += rs.distinct; trans += rs.generated
    rnd = random.Random(sd * 350377 + 7)
    cases = []
    for rec in r.records:
        for conc in concretisations(rec, nconc, rnd):
            cases.append((rec, conc))
    res = C.pmap(replay_case, cases)
    nontrivial, kinds, nobl = set(), {}, 0
    mach_disagree = 0
    for (rec, conc), (st, det) in zip(cases, res):
        key = (rec["kind"], rec["j"], rec["cls"], rec["mode"], rec["form"], rec["k"], rec["given"], rec["vol"],
               tuple((o["ud"], o["uv"]) for o in rec["objects"]))
        kk = "/".join(map(str, key[:3]))
        kinds[kk] = kinds.get(kk, 0) + 1
        nobl += len(rec["obl"])
        raised = st == "fail" and det["failure"] == "rejected"
        if raised != rec["machine_raises"]:
            mach_disagree += 1
        if st == "ok":
            V.ok()
            nontrivial.add(key + (tuple(sorted(conc["inp"].items())), tuple(conc["names"])))
        elif st == "machinery":
            raise C.MachineryError(json.dumps(det)[:1500])
        else:
            V.fail({"rec": rec, "conc": conc}, det.get("expected"), det.get("observed"),
                   det["clause"] + " :: " + json.dumps(det.get("built"))[:300], tags=list(rec["tags"]), failure=det["failure"])
    if (r.violated or design_cex) and V.counts["violation"] == 0:
        V.drift("TLC counterexample on the rational model not reproduced by the code")
    if mach_disagree:
        V.drift(f"{mach_disagree} case(s): the machine spec and the code disagree on whether attaching the density raises")
    from . import materials_adapter as A
    V.cov.update({
        "states": states, "transitions": trans,
        "evaluations": len(cases),
        "obligations_evaluated": nobl,
        "distinct_nontrivial": len(nontrivial),
        "rule": "TLC enumerates class/mode x 1..K components x {rho, n given} x {volume or not} x every combination of input units "
                "(g/cm3 kg/m3 | cm-3 m-3 | cm3 l m3) x {single, standard-vs-other-units pair} and proves the obligations on the rational "
                "model; each emitted scenario is built %d times with the real classes (model values, then seeded densities over 4-6 decades, "
                "volumes over 7, proportions over 4, species from the isotope table / %d formulas, natural or most abundant); non-trivial = "
                "distinct (structure, inputs, substances) whose obligations all held" % (nconc, len(A.FORMULA_POOL)),
        "samples": [{"kind": c[0]["kind"], "cls": c[0]["cls"], "mode": c[0]["mode"], "given": c[0]["given"],
                     "units": [(o["ud"], o["uv"]) for o in c[0]["objects"]], "names": c[1]["names"], "inp": c[1]["inp"],
                     "obligations": [o["name"] for o in c[0]["obl"]][:10]} for c in cases[40:42] + cases[-2:]],
        "exhaustive": False,
        "scenario_kinds": kinds,
        "tlc_sound": "ok" if not r.violated else "counterexample", "tlc_wall_s": round(tlc_wall, 1),
        "tlc_mutants_noticed": MUTANTS,
        "tlc_sensitivity_counterexample_without_excuses": sens,
        "tlc_counterexample_with_open_findings_only": design_cex,
        "machine_vs_code_raise_disagreements": mach_disagree,
        "machine_deviations_enabled": sorted(enabled),
    })
    V.assumptions += ["component masses are taken as observed (component_mass); their correctness is C10",
                      "the unit table entry Da -> g is given (C03/C04); tolerance rel 1e-9",
                      "the 'avg' row and the N column are not covered",
                      "for a material given by mass fractions the amounts are p_i/m_i up to a common factor; the obligations of that mode do not depend on the factor"]
    C.cleanup(PID)
    return V.finish()
