"""Generate Tables.tla (literal TLA+ definitions of the live unit / prefix / system-unit tables and of
the code's table of logarithmic conversions) from the importable `scinumtools` on every run.

Nothing here decides anything: it is a printer of table rows.  Floats never reach TLC; a magnitude is
printed only when it is an exact power of ten (`m10`, used by the lattice model of the log units).
The prefix exponent `p10` is taken from the PUBLISHED prefix table (docs/_static/tables/prefixes.csv) when
that file lists the prefix, else from the row's own definition literal.
"""
import csv, os, re
from fractions import Fraction as PyFrac
from . import common as C

OPCH = "*/()"


def tla_s(s):
    return '"' + s.replace("\\", "\\\\").replace('"', '\\"') + '"'


def chars(s):
    return "<<" + ", ".join(tla_s(c) for c in s) + ">>"


def seq(items):
    return "<<" + ", ".join(items) + ">>"


def qpair(x):
    """int | (n, d) -> <<n, d>> in lowest terms with positive denominator"""
    f = PyFrac(x[0], x[1]) if isinstance(x, tuple) else PyFrac(x)
    return f"<<{f.numerator}, {f.denominator}>>"


def pow10_of(x):
    """exact power-of-ten exponent of a float, or None"""
    try:
        f = PyFrac(repr(float(x)))
    except Exception:
        return None
    if f <= 0:
        return None
    e = 0
    while f >= 10 and f.denominator == 1 and f.numerator % 10 == 0:
        f /= 10; e += 1
    while f < 1 and f.numerator == 1 and f.denominator % 10 == 0:
        f *= 10; e -= 1
    return e if f == 1 else None


def tokenise(defn):
    """definition string -> (shape tokens with atoms named a1.., atom texts)"""
    toks, atoms, buf = [], [], ""
    for ch in defn:
        if ch in OPCH:
            if buf:
                atoms.append(buf); toks.append(f"a{len(atoms)}"); buf = ""
            toks.append(ch)
        else:
            buf += ch
    if buf:
        atoms.append(buf); toks.append(f"a{len(atoms)}")
    return toks, atoms


def published_prefix_exponents():
    path = os.path.join(C.REPO, "docs", "source", "_static", "tables", "prefixes.csv")
    out = {}
    try:
        for row in list(csv.reader(open(path)))[1:]:
            m = re.search(r"10\^\{(-?\d+)\}", row[2])
            if m:
                out[row[0].strip()] = int(m.group(1))
    except Exception:
        pass
    return out


def live():
    """-> dict with the live tables as plain Python data (also used by the harness for tab(..) terms)"""
    from scinumtools.units import settings as S
    from scinumtools.units.unit_list import QUANTITY_UNITS
    from scinumtools.units import unit_types as T
    pub = published_prefix_exponents()
    prefixes = []
    for sym, row in S.UNIT_PREFIXES.items():
        e = pub.get(sym)
        src = "published"
        if e is None:
            e = pow10_of(float(row.definition)) if isinstance(row.definition, str) else pow10_of(row.magnitude)
            src = "definition"
        prefixes.append(dict(name=sym, p10=e, src=src, magnitude=float(row.magnitude)))
    pnames = [p["name"] for p in prefixes]
    units = []
    for sym, row in S.UNIT_STANDARD.items():
        d = row.definition
        if d is None:
            kind = "base"
        elif isinstance(d, str):
            kind = "std"
        elif d is T.TemperatureUnitType:
            kind = "temp"
        elif d is T.LogarithmicUnitType:
            kind = "log"
        else:
            kind = "custom"
        pf = row.prefixes
        if pf is True:
            mode, adm = "all", list(pnames)
        elif pf is False or pf is None:
            mode, adm = "none", []
        else:
            mode, adm = "list", [p for p in pf]
        toks, atoms = tokenise(d) if isinstance(d, str) else ([], [])
        units.append(dict(name=sym, dim=[x for x in row.dimensions], mode=mode, adm=adm, kind=kind,
                          hasdef=isinstance(d, str), deftoks=toks, defatoms=atoms,
                          definition=d if isinstance(d, str) else None, magnitude=float(row.magnitude),
                          m10=pow10_of(row.magnitude)))
    sysu = [dict(name=k, magnitude=float(v[0]), dim=list(v[1])) for k, v in QUANTITY_UNITS.items()]
    logt = []
    for key, val in T.LogarithmicUnitType.conversions.items():
        a, b = key.split("_")
        fn = val[0]
        if fn == "_convert_B_B":
            logt.append(dict(key=key, a=a, b=b, fn="BB", k=PyFrac(repr(float(val[1]))), conv=None))
        else:
            logt.append(dict(key=key, a=a, b=b, fn={"_convert_Ratio_B": "RB", "_convert_B_Ratio": "BR",
                                                     "_convert_Ratio_Np": "RN", "_convert_Np_Ratio": "NR"}.get(fn, fn),
                             k=PyFrac(repr(float(val[1]))), conv=PyFrac(repr(float(val[2])))))
    methods = sorted(m[len("_convert_"):] for m in dir(T.LogarithmicUnitType) if m.startswith("_convert_"))
    tmethods = sorted(m[len("_convert_"):] for m in dir(T.TemperatureUnitType) if m.startswith("_convert_"))
    return dict(prefixes=prefixes, units=units, sys=sysu, logtable=logt, logmethods=methods,
                tempmethods=tmethods, logprocess=list(T.LogarithmicUnitType.process),
                tempprocess=list(T.TemperatureUnitType.process),
                dimlist=list(S.DIMENSION_LIST), types=[t.__name__ for t in S.UNIT_TYPES])


def mant10(fr):
    """Fraction -> <<n, d, e>> with value n/d * 10^e, n/d free of factors of ten"""
    if fr == 0:
        return "<<0, 1, 0>>"
    e = 0
    n, d = fr.numerator, fr.denominator
    while n % 10 == 0:
        n //= 10; e += 1
    while d % 10 == 0:
        d //= 10; e -= 1
    return f"<<{n}, {d}, {e}>>"


def write(wd, data=None):
    data = data or live()
    P, U = data["prefixes"], data["units"]
    L = ["---- MODULE Tables ----",
         "\\* GENERATED from the live scinumtools tables by verif/units_a_tables.py - do not edit",
         "EXTENDS Integers, Sequences", ""]
    L.append("DimNames == " + seq(tla_s(d) for d in data["dimlist"]))
    L.append("TypeOrder == " + seq(tla_s(t) for t in data["types"]))
    L.append("Prefixes == <<")
    L.append(",\n".join(f'  [name |-> {tla_s(p["name"])}, sym |-> {chars(p["name"])}, p10 |-> {p["p10"] if p["p10"] is not None else 0}, '
                        f'exact |-> {"TRUE" if p["p10"] is not None else "FALSE"}]' for p in P))
    L.append(">>")
    L.append("Units == <<")
    rows = []
    for u in U:
        rows.append(
            f'  [name |-> {tla_s(u["name"])}, sym |-> {chars(u["name"])}, dim |-> {seq(qpair(x) for x in u["dim"])}, '
            f'mode |-> {tla_s(u["mode"])}, adm |-> {{{", ".join(tla_s(a) for a in u["adm"])}}}, kind |-> {tla_s(u["kind"])}, '
            f'hasdef |-> {"TRUE" if u["hasdef"] else "FALSE"}, deftoks |-> {seq(tla_s(t) for t in u["deftoks"])}, '
            f'defatoms |-> {seq(chars(a) for a in u["defatoms"])}, '
            f'm10 |-> {u["m10"] if u["m10"] is not None else 0}, m10ok |-> {"TRUE" if u["m10"] is not None else "FALSE"}]')
    L.append(",\n".join(rows))
    L.append(">>")
    L.append("SysUnits == <<")
    L.append(",\n".join(f'  [name |-> {tla_s(s["name"])}, sym |-> {chars(s["name"])}, dim |-> {seq(qpair(x) for x in s["dim"])}]'
                        for s in data["sys"]))
    L.append(">>")
    L.append("\\* the code's table LogarithmicUnitType.conversions: k = second tuple entry, conv = third as <<n, d, e>> = n/d*10^e")
    L.append("MLogTable == <<")
    L.append(",\n".join(
        f'  [a |-> {tla_s(t["a"])}, b |-> {tla_s(t["b"])}, fn |-> {tla_s(t["fn"])}, '
        f'k |-> <<{t["k"].numerator}, {t["k"].denominator}>>, conv |-> {mant10(t["conv"]) if t["conv"] is not None else "<<1, 1, 0>>"}]'
        for t in data["logtable"]))
    L.append(">>")
    L.append("MLogMethods == {" + ", ".join(tla_s(m) for m in data["logmethods"]) + "}")
    L.append("MTempMethods == {" + ", ".join(tla_s(m) for m in data["tempmethods"]) + "}")
    L.append("MLogProcess == {" + ", ".join(tla_s(m) for m in data["logprocess"]) + "}")
    L.append("MTempProcess == {" + ", ".join(tla_s(m) for m in data["tempprocess"]) + "}")
    L.append("====")
    with open(os.path.join(wd, "Tables.tla"), "w") as f:
        f.write("\n".join(L) + "\n")
    return data
