"""pytest plugin (loaded with -p verif_dip_tracer from a copy in the work dir): records every DIP.parse()
the repository's tests perform as a sequence of registered lines + the names of the resulting nodes."""
PLUGIN = r'''
import json, os
_TRACES = []
_STACK = []
def pytest_configure(config):
    from scinumtools.dip import dip as M
    from scinumtools.dip.lists import list_hierarchy as H, list_branching as B
    from scinumtools.dip.settings import STRING_SOURCE
    orig_parse = M.DIP.parse
    orig_reg = H.HierarchyList.register
    orig_case = B.BranchingList.solve_case
    def parse(self):
        tr = {"lines": [], "names": None, "ok": False, "supported": True, "name": self.name}
        env0 = self.env
        if env0 is not None and (len(env0.nodes) or env0.hierarchy.parents or env0.branching.state or env0.branching.cases):
            tr["supported"] = False           # parse on top of an existing environment: not the machine's initial state
        _STACK.append(tr)
        try:
            env = orig_parse(self)
            tr["ok"] = True
            tr["names"] = [n.name.split(".") for n in env.nodes]
            return env
        finally:
            _STACK.pop()
            _TRACES.append(tr)
    def register(self, node, excluded):
        raw = node.name
        orig_reg(self, node, excluded)
        if _STACK and raw is not None and node.keyword not in excluded:
            kw = node.keyword
            tr = _STACK[-1]
            if kw == "case":
                k = node.case_type if node.case_type in ("case", "else", "end") else "?"
                v = getattr(node.value, "value", node.value)
                try:
                    c = bool(v) if v is not None else False
                except Exception:
                    c = False; tr["supported"] = False
                tr["lines"].append({"k": k, "ind": int(node.indent), "nm": raw.split(".")[:-1], "c": c})
            else:
                if kw == "group": k = "grp"
                elif kw == "mod":
                    # a modification of an unknown node raises only for string sources; from files it defines
                    k = "mod" if str(node.source[0]).startswith(f"{tr['name']}_{STRING_SOURCE}") else "def"
                else: k = "def"
                tr["lines"].append({"k": k, "ind": int(node.indent), "nm": raw.split("."), "c": False})
    M.DIP.parse = parse
    H.HierarchyList.register = register
def pytest_sessionfinish(session):
    chars, ords = {}, {}
    out = []
    for tr in _TRACES:
        if not (tr["ok"] and tr["supported"] and tr["lines"]):
            continue
        for ln in tr["lines"]:
            for c in ln["nm"]:
                chars[c] = list(c)
                for ch in c: ords[ch] = ord(ch)
        out.append({"lines": tr["lines"], "names": tr["names"]})
    json.dump({"traces": out, "chars": chars or {"a": ["a"]}, "ords": ords or {"a": 97}, "total": len(_TRACES)}, open(os.environ["VERIF_DIP_TRACE"], "w"))
'''

CFG = """CONSTANTS
  NameChars <- TNameChars
  CharOrd <- TCharOrd
INIT Init
NEXT Next
INVARIANT Verdict
CHECK_DEADLOCK FALSE
"""


def trace_testsuite(C, wd, tests=("tests/dip",)):
    """Run the repository's DIP tests under the tracer and validate every recorded parse with TLC.
    -> (accepted, rejected traces (list of dict), tlc result, total parses seen)"""
    import json, os, re, subprocess
    open(os.path.join(wd, "verif_dip_tracer.py"), "w").write(PLUGIN)
    out = os.path.join(wd, "dip_traces.json")
    env = dict(os.environ, VERIF_DIP_TRACE=out, PYTHONPATH=wd + os.pathsep + os.environ.get("PYTHONPATH", ""), PYTHONWARNINGS="ignore")
    p = subprocess.run(["/venv/bin/python", "-m", "pytest", "-q", "-p", "no:cacheprovider", "-p", "verif_dip_tracer", *tests],
                       cwd=C.REPO, env=env, stdout=subprocess.PIPE, stderr=subprocess.STDOUT, text=True, timeout=900)
    if not os.path.exists(out):
        raise C.MachineryError("DIP tracer run produced no trace file:\n" + p.stdout[-2000:])
    data = json.load(open(out))
    if not data["traces"]:
        raise C.MachineryError("no DIP parse was recorded while running the repository's tests")
    r = C.run_tlc(wd, "DipTrace", CFG, env={"TRACE_FILE": out}, want_records=False)
    rows = re.findall(r'<<"T", (\d+), (TRUE|FALSE), (TRUE|FALSE), (TRUE|FALSE), "([a-z_]+)">>', r.stdout)
    res = []
    seen = set()
    for tid, expl, ideal, u, dev in rows:
        if tid in seen:
            continue
        seen.add(tid)
        res.append({"trace": data["traces"][int(tid) - 1], "explained": expl == "TRUE", "ideal": ideal == "TRUE", "u": u == "TRUE", "dev": dev})
    if len(res) != len(data["traces"]):
        raise C.MachineryError(f"TLC judged {len(res)} of {len(data['traces'])} recorded parses")
    return res, r, data["total"]


def judge_testsuite(C, V, wd):
    """Verdicts for the recorded parses of the repository's own DIP tests. -> (n judged, tlc result)"""
    import json
    res, r, total = trace_testsuite(C, wd)
    for x in res:
        if x["ideal"] or x["u"]:
            if not x["explained"]:
                V.drift("a parse of the test-suite agrees with the ideal but not with the machine: " + json.dumps(x["trace"])[:200])
            else:
                V.ok()
        else:
            V.fail({"testsuite_parse": x["trace"]}, "node paths of the ideal", x["trace"]["names"],
                   "a parse performed by the repository's tests yields node paths that differ from the indentation/clause meaning of its lines",
                   tags=["dev:" + x["dev"]] if x["explained"] else ["not-the-machine-deviation"], failure=x["dev"] if x["explained"] else "other")
    return len(res), r
