"""C15 - a node takes effect exactly when all enclosing case clauses are selected.

Spec: spec/DipTree.tla (ideal: block-structured clauses on an indentation stack; machine: transcription of
DIP.parse's loop, HierarchyList.register and BranchingList incl. the string comparison of case paths),
spec/DipTreeGen.tla (enumeration, Refines, emission).  Engine: verif/dip_tree.py.
"""
import json, os
from . import common as C
from . import dip_tree as T

PID = "C15"
P = T.proto
CORE = [P("case", c=True), P("case", c=False), P("else"), P("end"), P("def", ["a"])]
WIDE = CORE + [P("mod", ["a"]), P("grp", ["g"]), P("def", ["b"])]


def run(replay=None):
    V = C.Verdicts(PID, "model_checking")
    if replay:
        body = json.load(open(replay))
        st, det = T.replay_record(body["scenario"])
        print(f"replay {replay}: {st} {det}")
        if st == "violation" and not det.get("known"):
            print(f"VIOLATION property={PID} replay={replay}")
            return 1
        return 0
    wd = C.workdir(PID)
    t = C.tier()
    rnd = C.rng(15)
    known = T.open_devs(V)
    runs = []
    if t == "quick":
        runs.append(T.run_tlc(wd, CORE, known, 2, 4))
        runs.append(T.run_tlc(wd, WIDE, known, 2, 3))
        runs.append(T.run_tlc(wd, WIDE, known, 2, 0, texts=T.random_texts(rnd, WIDE, 2, 4000, 4, 8)))
        # long texts with many clause keywords (case ids run into two digits)
        runs.append(T.run_tlc(wd, WIDE, known, 2, 0, texts=T.block_texts(rnd, 300, 3, 6), stride=1000000))
    else:
        runs.append(T.run_tlc(wd, CORE, known, 2, 5))
        runs.append(T.run_tlc(wd, WIDE, known, 2, 4))
        runs.append(T.run_tlc(wd, WIDE + [P("grp", ["1"]), P("grp", ["-"])], known, 3, 0,
                              texts=T.random_texts(rnd, WIDE + [P("grp", ["1"]), P("grp", ["-"])], 3, 40000, 4, 10)))
        runs.append(T.run_tlc(wd, WIDE, known, 2, 0, texts=T.block_texts(rnd, 3000, 3, 8), stride=1000000))
    recs = []
    for r in runs:
        if r.violated:
            V.notes.append("TLC: Refines counterexample (machine vs ideal disagree outside the open deviation classes): " + r.cex[:500])
        recs += r.records
    T.judge(V, recs, C.seed())
    # code -> spec: every parse the repository's own DIP tests perform, validated against machine and ideal
    from . import dip_tracer as DT
    ntr, rtr = DT.judge_testsuite(C, V, wd)
    devs = {}
    nontrivial = set()
    for r in recs:
        devs[r["dev"]] = devs.get(r["dev"], 0) + 1
        ks = [ln["k"] for ln in r["text"]]
        if any(k in ("case", "else", "end") for k in ks) and any(k in ("def", "mod") for k in ks):
            nontrivial.add(json.dumps(r["text"]))
    V.cov.update({
        "states": sum(r.distinct for r in runs), "transitions": sum(r.generated for r in runs),
        "traces_validated_against_impl": len(recs) + ntr, "testsuite_parses_validated": ntr, "evaluations": len(recs) * 3,
        "distinct_nontrivial": len(nontrivial),
        "rule": "every text of <= 4/5 lines over {@case true, @case false, @else, @end, node} x indent 0..2 with consistent indentation, "
                "every text of <= 3/4 lines additionally with modifications, groups and a second node (TLC, exhaustive), plus random texts of "
                "4-10 lines classified by TLC; each parsed by the real DIP under 3 layouts (indent widths, blank/comment lines, conditions as "
                "expressions over an earlier node); non-trivial = texts with at least one clause and one node",
        "samples": [{"text": r["text"], "ideal": r["ideal"], "dev": r["dev"]} for r in recs[3000:3003]],
        "exhaustive": True, "deviation_classes_seen": devs,
    })
    V.assumptions += ["@case after @else in the same block, a second @else, and a line indented deeper than a directly preceding @end are undocumented and excluded",
                      "conditions are constants or comparisons of an earlier top-level node"]
    C.cleanup(PID)
    return V.finish()
