"""Regenerate MANIFEST.json from the table below (single source of truth for the interface)."""
import json, os
ROOT = os.path.dirname(os.path.dirname(os.path.abspath(__file__)))

CHECKS = {
 "C01": dict(level="model_checking", design="5 C01",
   technique="TLA+ machine spec (transcription of tokens.py/operators.py) model-checked against a TLA+ ideal grammar with TLC on all token strings up to a bound; TLC-emitted scenarios replayed into the real solver",
   text="TLC checks exhaustively (all token strings up to length 4/5 over two alphabets of 17 symbols, deep strings from a token-budget generator, plus grammar derivations up to 40 tokens with single-edit variants) that the transcribed machine computes the ideal tree and rejects the listed ill-formed classes; every string TLC visited is then solved by a fresh real ExpressionSolver under several concretisations (incl. near-equal number pools) and blank layouts and compared with the ideal value (verdict) and the machine outcome (conformance). Before any solver is built another instance is customised in place through its public attributes, so a default solver must carry the documented table whatever happened to other instances.",
   note="Trusted: Python/NumPy float primitives as the value of a tree; the rendering of token strings to text; the ideal grammar in spec/SolverIdeal.tla as the reading of the documented step table. Strings in the documented ambiguity band are excluded. Every solve runs under a wall-clock watchdog (20 s, repeated once with 120 s; the unchanged library needs under a millisecond): an expression that returns nothing inside both budgets is judged as no value returned."),
}
ALL = ["C%02d" % i for i in range(1, 21)]
_d = os.path.join(ROOT, "manifest.d")
if os.path.isdir(_d):
    for _f in sorted(os.listdir(_d)):
        # only checks the lead has integrated (listed in manifest.d/READY) are claimed
        _ready = open(os.path.join(_d, "READY")).read().split() if os.path.exists(os.path.join(_d, "READY")) else []
        if _f.endswith(".json") and _f[:-5] in _ready:
            CHECKS[_f[:-5]] = json.load(open(os.path.join(_d, _f)))

def main():
    checks = []
    for pid, c in CHECKS.items():
        checks.append({
            "property_id": pid,
            "quick_cmd": f"./check {pid} --tier quick",
            "thorough_cmd": f"./check {pid} --tier thorough",
            "evidence_file": f"/verif/evidence/{pid}.json",
            "replay_cmd_template": f"./check {pid} --replay {{path}}",
            "engine": "tlc+replay",
            "level_claimed": {"category": c["level"], "text": c["text"], "design_ref": c.get("design", "5 " + pid)},
            "level_note": c["note"],
            "technique": c["technique"],
        })
    m = {
        "version": 1,
        "setup_cmd": "./setup.sh",
        "hooks": {"guard": "SCINUMTOOLS_VERIF", "enable": "no in-repo hooks: tracers are installed from /verif by wrapping public classes at run time",
                  "baseline_off_cmd": "cd /repo && /venv/bin/python -m pytest -ra -q -p no:cacheprovider --timeout=900 --continue-on-collection-errors",
                  "source_commits": [], "add_only": True},
        "engines": [{"name": "tlc+replay", "path": "/verif/verif", "serves_properties": list(CHECKS),
                     "kind_free_text": "TLA+ specs in /verif/spec checked by TLC; scenarios emitted by TLC replayed into the real code; traces recorded from the real code validated by TLC"}],
        "checks": checks,
        "not_applicable": [{"property_id": p, "reason": "check not built yet (work in progress, see DESIGN.md section 11 for the order of work)"}
                           for p in ALL if p not in CHECKS],
        "notes": "All checks: ./check <id> --tier quick|thorough ; VERIF_SEED honoured; scratch in /verif/.work (removed after each run).",
    }
    with open(os.path.join(ROOT, "MANIFEST.json"), "w") as f:
        json.dump(m, f, indent=1)

if __name__ == "__main__":
    main()
