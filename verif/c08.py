"""C08 - measurement uncertainties propagate consistently and stay non-negative.

1. TLC enumerates (MagnitudeGen, Source="enum") all pairs (v1,e1,v2,e2), v in {-3,-1,2,5}, e in {None,0,1/10,1/2},
   exact factors {-3,-1/2,2}, exponents {-2,-1,2,1/2} under + - * / (object op object, object op number, number op
   object), negation, power, unit conversion and mixed-unit sums over exact-ratio units; for each it emits the
   obligations the property states for the result's absolute uncertainty (exact rational + term), the error the
   transcribed formulas of the code predict, and the named deviations; lemmas are checked on the rational model.
2. Every record is replayed on Magnitude objects and on Quantity objects (scalars, and arrays built from the
   records of one shape), conversions with .to(); a seeded sample of conversions / mixed-unit sums over arbitrary
   linear table units is annotated by TLC (terms over table factors) and replayed too.
Verdict: negative abse(); sum / scaling / first-order obligations not met; relative uncertainty changed by a linear
conversion; exact (+) exact not exact.
"""
import json, os, warnings
import numpy as np
from . import common as C
from . import units_b_terms as T
from . import units_b_adapter as A

PID = "C08"
DEVIATIONS = ["error_sign", "error_not_scaled"]      # named deviations of the spec; switched off when their findings are fixed

CFG = """CONSTANTS
  UInfo <- {uinfo}
  Source = "{source}"
  FixedDevs = {fixed}
  Emit = TRUE
SPECIFICATION Spec
INVARIANT EmitInv
{lemmas}
CHECK_DEADLOCK FALSE
"""


def _f(q):
    return q[0] / q[1]


def _mk(level, specs, unit):
    """specs: list of magnitude specs {v,e} (one: scalar).  level M: Magnitude, Q: Quantity in `unit`."""
    from scinumtools.units import Magnitude, Quantity
    vals = [_f(s["v"]) for s in specs]
    errs = None if not specs[0]["e"] else [_f(s["e"]) for s in specs]
    if len(specs) == 1:
        v, e = vals[0], (None if errs is None else errs[0])
    else:
        v, e = np.array(vals), (None if errs is None else np.array(errs))
    if level == "M":
        return Magnitude(v, abse=e) if e is not None else Magnitude(v)
    if e is not None:
        return Quantity(v, unit, abse=e) if unit else Quantity(v, abse=e)
    return Quantity(v, unit) if unit else Quantity(v)


def _plain(specs, num="py"):
    vals = [_f(s["v"]) for s in specs]
    if num == "np":
        return np.float64(vals[0]) if len(vals) == 1 else np.array(vals, dtype=float)
    return vals[0] if len(vals) == 1 else vals


def run_case(case):
    recs = case["recs"]
    r0 = recs[0]
    level = case["level"]
    tags = [r0["kind"], r0["op"], "side:" + r0["side"], "num:" + r0.get("num", "-"), "level:" + level] + sorted(set(t for r in recs for t in r["tags"]))
    if case.get("viaquery"):
        tags.append("after_value_query")
    if len(recs) > 1:
        tags.append("array")
    if r0["cls"] != "ok":
        return ("unspecified", None)
    kind, op, side = r0["kind"], r0["op"], r0["side"]
    ua = A.unit_text({r0["ua"]: 1}) if r0["ua"] not in ("-", "") else None
    ub = A.unit_text({r0["ub"]: 1}) if r0["ub"] not in ("-", "") else None
    try:
        with warnings.catch_warnings():
            warnings.simplefilter("ignore")
            if kind == "op":
                una, unb = ("m", "m") if op in ("add", "sub") else ("m", "s")
                a = _plain([r["a"] for r in recs], r0.get("num", "py")) if side == "nm" else _mk(level, [r["a"] for r in recs], una)
                if side == "self":
                    b = a                                   # the very same object on both sides
                elif op in ("add", "sub", "mul", "div"):
                    b = _plain([r["b"] for r in recs], r0.get("num", "py")) if side == "mn" else _mk(level, [r["b"] for r in recs], unb)
                if (side in ("nm", "mn")) and level == "Q" and op in ("add", "sub"):
                    # a plain number can only be added to a dimensionless quantity
                    if side == "nm":
                        b = _mk(level, [r["b"] for r in recs], None)
                    else:
                        a = _mk(level, [r["a"] for r in recs], None)
                if op == "add":
                    res = a + b
                elif op == "sub":
                    res = a - b
                elif op == "mul":
                    res = a * b
                elif op == "div":
                    res = a / b
                elif op == "neg":
                    res = -a
                elif op == "pow":
                    res = a ** _f(r0["p"]) if r0["p"][1] != 1 or case.get("floatexp") else a ** int(_f(r0["p"]))
            elif kind == "conv":
                res = _mk("Q", [r["a"] for r in recs], ua)
                if case.get("viaquery"):                    # look at the value in the target unit first (read-only)
                    res.value(ub)
                res.to(ub)
            elif kind == "query":
                res = _mk("Q", [r["a"] for r in recs], ua)
                res.value(ub)
                res.value(ub)
            elif kind == "rebase":
                res = _mk("Q", [r["a"] for r in recs], f"{ua}*{ub}")
                res.rebase()
            elif kind == "qcons":
                res = _mk("Q", [r["a"] for r in recs], f"{ua}/{ub}")
            elif kind == "qdiv":
                a = _mk("Q", [r["a"] for r in recs], ua)
                b = _mk("Q", [r["b"] for r in recs], ub)
                res = a / b
            elif kind == "qsum":
                a = _mk("Q", [r["a"] for r in recs], ua)
                b = _mk("Q", [r["b"] for r in recs], ub)
                res = a + b if op == "add" else a - b
            abse = res.abse()
            rele = None
            if any(o["lhs"] == "rele" for o in r0["obs"]) and abse is not None:
                rele = res.rele()
    except Exception as e:
        return ("fail", dict(clause="the operation is defined", failure="unexpected_exception", tags=tags,
                             expected="a result", observed=f"{type(e).__name__}: {e}"))
    oa = None if abse is None else np.asarray(abse, dtype=float)
    # does the observed uncertainty equal what the transcribed formulas of the code predict?  (a failure that the
    # transcription does not predict is a DIFFERENT defect than the recorded ones)
    as_tr = all(r.get("machknown") for r in recs)
    if as_tr:
        if any(r["mach"] == [] for r in recs):
            as_tr = oa is None and all(r["mach"] == [] for r in recs)
        else:
            mm = np.array([_f(r["mach"]) for r in recs], dtype=float)
            as_tr = oa is not None and T.close(oa, mm if len(recs) > 1 else mm[0], rel=1e-9)
    suffix = ":as_transcribed" if as_tr else ""
    # always: non-negative
    if oa is not None and np.any(oa < 0):
        return ("fail", dict(clause="the absolute uncertainty of a result is never negative", failure="negative_error" + suffix, tags=tags,
                             expected=">= 0", observed=oa.tolist()))
    for k, ob in enumerate(r0["obs"]):
        want = np.array([T.ev(r["obs"][k]["t"]) for r in recs], dtype=float)
        for r, w in zip(recs, want):
            q = r["obs"][k]["q"]
            if q and not T.close(w, _f(q), rel=1e-12):
                raise C.MachineryError(f"term evaluator disagrees with TLC's exact value: {w} vs {q}")
        if len(recs) == 1:
            want = want[0]
        got = oa if ob["lhs"] == "abse" else (None if rele is None else np.asarray(rele, dtype=float))
        if ob["rel"] == "none":
            if got is not None:
                return ("fail", dict(clause="operations on exact operands yield an exact result", failure="exact_result_has_error",
                                     tags=tags, expected=None, observed=got.tolist()))
            continue
        if got is None:
            return ("fail", dict(clause="an uncertain operand makes the result uncertain", failure="error_lost", tags=tags,
                                 expected=np.asarray(want).tolist(), observed=None))
        if ob["rel"] == "eq":
            if not T.close(got, want, rel=1e-9):
                cl = ("sum/difference carries the sum of the uncertainties; an exact factor scales by its absolute value; "
                      "a linear conversion scales the uncertainty like the value") if ob["lhs"] == "abse" else \
                    "a linear conversion leaves the relative uncertainty unchanged"
                return ("fail", dict(clause=cl, failure=("wrong_error" if ob["lhs"] == "abse" else "wrong_relative_error") + suffix, tags=tags,
                                     expected=np.asarray(want).tolist(), observed=got.tolist()))
        elif ob["rel"] == "ge":
            if np.any(got < want * (1 - 1e-9) - 1e-300):
                return ("fail", dict(clause="product/quotient of uncertain positive values carries at least the first-order uncertainty",
                                     failure="below_first_order", tags=tags, expected=np.asarray(want).tolist(), observed=got.tolist()))
    # conformance with the transcribed formulas (drift only)
    if len(recs) == 1 and r0.get("machknown") and (kind != "op" or level == "M"):
        m = r0["mach"]
        if (m == []) != (oa is None) or (m and not T.close(oa, _f(m), rel=1e-9)):
            return ("drift", f"{op} {r0['a']} {r0['b']} p={r0['p']}: code error {abse}, transcribed formula {m}")
    return ("ok", None)


def _safe_run(case):
    try:
        return run_case(case)
    except C.MachineryError:
        raise
    except Exception:
        import traceback
        return ("machinery", traceback.format_exc()[-1500:])


def shape_key(r):
    return json.dumps([r["kind"], r["op"], r["side"], r.get("num", "-"), r["p"], r["ua"], r["ub"], r["a"]["e"] == [], r["b"]["e"] == [],
                       [(o["lhs"], o["rel"]) for o in r["obs"]], r["cls"]])


def cases_from_records(recs, arrays=True):
    cases = []
    for r in recs:
        if r["kind"] == "op":
            cases.append(dict(recs=[r], level="M"))
            cases.append(dict(recs=[r], level="Q"))
            if r["op"] == "pow" and r["p"][1] == 1:
                cases.append(dict(recs=[r], level="Q", floatexp=True))
        else:
            cases.append(dict(recs=[r], level="Q"))
            if r["kind"] == "conv":
                cases.append(dict(recs=[r], level="Q", viaquery=True))
    if arrays:
        groups = {}
        for r in recs:
            if r["cls"] == "ok":
                groups.setdefault(shape_key(r), []).append(r)
        for g in groups.values():
            if len(g) >= 2:
                g = sorted(g, key=lambda r: json.dumps([r["a"], r["b"]]))
                if g[0]["kind"] == "op" and not (g[0].get("num") == "np" and g[0]["side"] == "nm"):
                    cases.append(dict(recs=g, level="M"))
                cases.append(dict(recs=g, level="Q"))
                if g[0]["kind"] == "conv":
                    cases.append(dict(recs=g, level="Q", viaquery=True))
    return cases


def table_scenarios(rnd, n):
    lin = A.linear_units()
    bydim = {}
    for uid, dims in lin:
        if any(dims):
            bydim.setdefault(tuple(dims), []).append(uid)
    classes = [v for v in bydim.values() if len(v) >= 2]
    dimof = dict(lin)

    def mag(unc=None):
        v = [rnd.choice([1, -1]) * rnd.randint(1, 4000), rnd.choice([1, 2, 4, 8, 16, 64])]
        if unc is None:
            unc = rnd.random() < 0.8
        e = [rnd.randint(0, 400), rnd.choice([1, 2, 4, 8, 16, 64, 1024])] if unc else []
        return {"v": v, "e": e}
    scen, used = [], set()
    for _ in range(n):
        cl = rnd.choice(classes)
        ua, ub = rnd.choice(cl), rnd.choice(cl)
        used |= {ua, ub}
        r = rnd.random()
        if r < 0.3:
            scen.append(dict(num="-", kind="conv", op="to", side="q", a=mag(), b={"v": [1, 1], "e": []}, p=[1, 1], ua=ua, ub=ub))
        elif r < 0.4:
            scen.append(dict(num="-", kind="query", op="value", side="q", a=mag(), b={"v": [1, 1], "e": []}, p=[1, 1], ua=ua, ub=ub))
        elif r < 0.44:
            scen.append(dict(num="-", kind="rebase", op="rebase", side="q", a=mag(), b={"v": [1, 1], "e": []}, p=[1, 1], ua=ua, ub=ub))
        elif r < 0.47:
            ang = rnd.choice(["rad", "m:rad"])
            used.add(ang)
            scen.append(dict(num="-", kind=rnd.choice(["conv", "query"]), op="to", side="q", a=mag(), b={"v": [1, 1], "e": []}, p=[1, 1],
                             ua="", ub=ang))
        elif r < 0.5:
            scen.append(dict(num="-", kind="qcons", op="ctor", side="q", a=mag(), b={"v": [1, 1], "e": []}, p=[1, 1], ua=ua, ub=ub))
        elif r < 0.7:
            # small rationals: TLC computes the first-order bound of the quotient exactly (32-bit integers)
            def small(sign=True):
                v = [(rnd.choice([1, -1]) if sign else 1) * rnd.randint(3, 60), rnd.choice([1, 2, 4])]
                e = [rnd.randint(0, 5), rnd.choice([1, 2, 4, 8])] if rnd.random() < 0.8 else []
                return {"v": v, "e": e}
            a_, b = small(), small()
            scen.append(dict(num="-", kind="qdiv", op="div", side="qq", a=a_, b=b, p=[1, 1], ua=ua, ub=ub))
        else:
            scen.append(dict(num="-", kind="qsum", op=rnd.choice(["add", "sub"]), side="qq", a=mag(), b=mag(), p=[1, 1], ua=ua, ub=ub))
    return {"units": {u: {"dim": list(dimof[u]), "fac": []} for u in sorted(used)}, "scenarios": scen}


def run(replay=None):
    V = C.Verdicts(PID, "exploration")
    if replay:
        body = json.load(open(replay))
        st, det = _safe_run(body["scenario"])
        print(f"replay {replay}: {st} {json.dumps(det, default=str)[:600] if det else ''}")
        if st == "fail":
            k = V.findings.match(det["tags"], det["failure"])
            if k is None:
                print(f"VIOLATION property={PID} replay={replay}")
                return 1
            print(f"(known finding {k})")
        return 0
    wd = C.workdir(PID)
    FIXED = C.tla_str(set(A.repaired_deviations(PID, DEVIATIONS)))
    t = C.tier()
    rnd = C.rng(8)
    r = C.run_tlc(wd, "MagnitudeGen", CFG.format(uinfo="ExactUnits", source="enum", lemmas="INVARIANT Lemmas\nINVARIANT GridLemma", fixed=FIXED))
    if r.violated:
        raise C.MachineryError(f"MagnitudeGen: {r.violated} violated on the rational model:\n{r.cex[:3000]}")
    recs = r.records
    if len(recs) < 5000:
        raise C.MachineryError(f"only {len(recs)} records from MagnitudeGen")
    nfile = 4000 if t == "quick" else 40000
    fin = os.path.join(wd, "magn_in.json")
    with open(fin, "w") as f:
        json.dump(table_scenarios(rnd, nfile), f)
    r2 = C.run_tlc(wd, "MagnitudeGen", CFG.format(uinfo="FileUnits", source="file", lemmas="", fixed=FIXED), env={"MAGN_IN": fin})
    if r2.violated or len(r2.records) != nfile:
        raise C.MachineryError(f"MagnitudeGen(file): {r2.violated} records={len(r2.records)}/{nfile}\n{r2.cex[:2000]}")
    cases = cases_from_records(recs) + cases_from_records(r2.records, arrays=False)
    res = C.pmap(_safe_run, cases)
    nontriv, failclasses, ndrift = set(), {}, 0
    for case, (st, det) in zip(cases, res):
        r0 = case["recs"][0]
        if st == "machinery":
            raise C.MachineryError("replay of a C08 case crashed:\n" + det)
        if st == "ok":
            V.ok()
        elif st == "unspecified":
            V.unspecified()
        elif st == "drift":
            V.drift(det)
        else:
            kind = V.fail(case, det["expected"], det["observed"], det["clause"], tags=det["tags"], failure=det["failure"])
            fk = kind + ":" + det["failure"] + ":" + ",".join(x for x in det["tags"] if not x.startswith(("level:", "side:")))
            failclasses[fk] = failclasses.get(fk, 0) + 1
        if st != "unspecified" and (r0["a"]["e"] or r0["b"]["e"]):
            nontriv.add(shape_key(r0) + json.dumps([r0["a"], r0["b"]]) + case["level"] + ("#arr" if len(case["recs"]) > 1 else ""))
    V.cov.update({
        "states": r.distinct + r2.distinct, "transitions": r.generated + r2.generated,
        "evaluations": len(cases), "distinct_nontrivial": len(nontriv),
        "scenarios_enumerated_by_tlc": len(recs), "scenarios_over_table_units": len(r2.records),
        "rule": "TLC enumerates all magnitude pairs (4 values x {None,0,1/10,1/2}, 3 exact factors) under + - * / in three operand "
                "spellings, negation, 4 exponents, 13 ordered unit pairs for conversion and mixed-unit sums (exhaustive) plus a seeded "
                "sample over linear table units; each replayed on Magnitude and Quantity objects, scalar and array; non-trivial = "
                "distinct (scenario, level) with at least one uncertain operand",
        "samples": [dict(kind=c["recs"][0]["kind"], op=c["recs"][0]["op"], side=c["recs"][0]["side"], a=c["recs"][0]["a"],
                         b=c["recs"][0]["b"], p=c["recs"][0]["p"], ua=c["recs"][0]["ua"], ub=c["recs"][0]["ub"],
                         obligations=[[o["lhs"], o["rel"], o["q"]] for o in c["recs"][0]["obs"]], level=c["level"],
                         n_elements=len(c["recs"])) for c in (cases[40], cases[len(cases) // 2], cases[-3])],
        "exhaustive": True, "failing_classes": failclasses,
        "lemmas_checked_by_tlc": "expected uncertainties non-negative; a+b and b+a agree; (a.k)/k restores e; the transcribed formulas "
                                 "leave the ideal only by the sign of the error (first-order bounds hold for them); conversion there "
                                 "and back restores e; relative uncertainty invariant; unscaled error off exactly when the factor is not 1",
    })
    V.assumptions += [
        "operands are constructed with an absolute uncertainty (abse=); construction from rele= of a negative value is outside the quantifier",
        "positive values = for a quotient (and a negative power) the divisor's / base's whole uncertainty interval is positive (|b| > db); quotients whose divisor interval reaches or crosses zero are unspecified (the quotient is unbounded there); products owe the first-order bound for any uncertainties (TLC proves it for the code's formula on a grid)",
        "power: only non-negativity is required (the statement gives no formula)",
        "tolerance rel 1e-9; table factors are the library's own",
    ]
    C.cleanup(PID)
    return V.finish()
