"""Shared machinery: TLC runner, evidence, known findings, replay files, process pool."""
import json, os, re, shutil, subprocess, sys, time, hashlib, random

ROOT = os.path.dirname(os.path.dirname(os.path.abspath(__file__)))
SPEC = os.path.join(ROOT, "spec")
WORK = os.path.join(ROOT, ".work")
EVID = os.environ.get("VERIF_EVIDENCE_DIR") or os.path.join(ROOT, "evidence")   # seed trials write elsewhere
REPLAYS = os.path.join(ROOT, "replays")
REPO = os.environ.get("VERIF_REPO", "/repo")
NCPU = int(os.environ.get("VERIF_WORKERS", os.cpu_count() or 4))


class MachineryError(Exception):
    """Something in the verification machinery failed (exit code 2), not the property."""


def tier():
    return os.environ.get("VERIF_TIER", "quick")


def seed():
    try:
        return int(os.environ.get("VERIF_SEED", "0"))
    except ValueError:
        return 0


def _wd(pid):
    # one directory per running process, so that two runs of the same check (a seed trial next to a
    # regular run) never empty each other's scratch
    return os.path.join(WORK, f"{pid}.{os.getpid()}")


def workdir(pid, clean=True):
    d = _wd(pid)
    if clean and os.path.isdir(d):
        shutil.rmtree(d, ignore_errors=True)
    os.makedirs(d, exist_ok=True)
    return d


def cleanup(pid):
    shutil.rmtree(_wd(pid), ignore_errors=True)


# --------------------------------------------------------------------------- TLC

class TLCResult:
    def __init__(self):
        self.stdout = ""
        self.generated = 0
        self.distinct = 0
        self.depth = 0
        self.records = []
        self.ok = False          # "No error has been found"
        self.violated = None     # name of violated invariant / property
        self.cex = ""            # counterexample text
        self.wall = 0.0
        self.coverage = {}       # action name -> (distinct, total) when -coverage was asked

    def __repr__(self):
        return f"TLC(ok={self.ok}, gen={self.generated}, distinct={self.distinct}, viol={self.violated})"


_JSON_LINE = re.compile(r'^"((?:[^"\\]|\\.)*)"$')


def tla_str(x):
    """Python value -> TLA+ expression text."""
    if isinstance(x, bool):
        return "TRUE" if x else "FALSE"
    if isinstance(x, int):
        return str(x)
    if isinstance(x, str):
        return json.dumps(x)
    if isinstance(x, (list, tuple)):
        return "<<" + ", ".join(tla_str(i) for i in x) + ">>"
    if isinstance(x, (set, frozenset)):
        return "{" + ", ".join(tla_str(i) for i in sorted(x, key=repr)) + "}"
    if isinstance(x, dict):
        if not x:
            return "<<>>"
        return "[" + ", ".join(f"{k} |-> {tla_str(v)}" for k, v in x.items()) + "]"
    raise TypeError(x)


def run_tlc(wd, module, cfg, *, workers=None, env=None, timeout=3600, simulate=None, depth=None,
            coverage=False, deque=False, extra=(), copy_specs=True, want_records=True, seed_=None):
    """Run TLC on `module`.tla inside directory wd with configuration text cfg."""
    if copy_specs:
        for f in os.listdir(SPEC):
            if f.endswith(".tla"):
                shutil.copy(os.path.join(SPEC, f), os.path.join(wd, f))
    cfgname = f"{module}.{hashlib.md5(cfg.encode()).hexdigest()[:8]}.cfg"
    with open(os.path.join(wd, cfgname), "w") as f:
        f.write(cfg)
    meta = os.path.join(wd, "meta-" + cfgname)
    cmd = ["tlc", "-workers", str(workers or NCPU), "-metadir", meta, "-noGenerateSpecTE",
           "-config", cfgname]
    if seed_ is not None:
        cmd += ["-seed", str(seed_)]
    if simulate:
        cmd += ["-simulate", simulate]
    if depth:
        cmd += ["-depth", str(depth)]
    if coverage:
        cmd += ["-coverage", "1"]
    cmd += list(extra) + [module + ".tla"]
    e = dict(os.environ)
    jopts = "-Xmx24g -Xss128m"       # deep recursion of folds over long inputs
    if deque:
        jopts += " -Dtlc2.tool.queue.IStateQueue=StateDeque"
    e["JAVA_TOOL_OPTIONS"] = jopts
    if env:
        e.update(env)
    t0 = time.time()
    try:
        p = subprocess.run(cmd, cwd=wd, env=e, stdout=subprocess.PIPE, stderr=subprocess.STDOUT,
                           timeout=timeout, text=True, errors="replace")
    except subprocess.TimeoutExpired as ex:
        subprocess.run(["pkill", "-f", "tlc2[.]TLC.*" + re.escape(cfgname)])
        raise MachineryError(f"TLC timed out after {timeout}s on {module}")
    r = TLCResult()
    r.wall = time.time() - t0
    r.stdout = p.stdout
    shutil.rmtree(meta, ignore_errors=True)
    out = p.stdout
    m = re.search(r"(\d+) states generated, (\d+) distinct states found", out)
    if m:
        r.generated, r.distinct = int(m.group(1)), int(m.group(2))
    m = re.search(r"depth of the complete state graph search is (\d+)", out)
    if m:
        r.depth = int(m.group(1))
    r.ok = "No error has been found" in out or (simulate is not None and "Error:" not in out and p.returncode == 0)
    m = re.search(r"Error: Invariant (\S+) is violated", out)
    if m:
        r.violated = m.group(1)
    elif re.search(r"Error: Action property (\S+) is violated", out):
        r.violated = re.search(r"Error: Action property (\S+) is violated", out).group(1)
    elif "Error: Temporal properties were violated" in out:
        r.violated = "temporal"
    elif "Error: Deadlock reached" in out:
        r.violated = "deadlock"
    if r.violated:
        i = out.find("Error:")
        r.cex = out[i:i + 20000]
    if want_records:
        for line in out.splitlines():
            if line.startswith('"{') or line.startswith('"['):
                mm = _JSON_LINE.match(line)
                if mm:
                    try:
                        r.records.append(json.loads(json.loads('"' + mm.group(1) + '"')))
                    except Exception:
                        pass
    if coverage:
        for mm in re.finditer(r"<(\w+) line \d+, col \d+ to line \d+, col \d+ of module (\w+)>: (\d+):(\d+)", out):
            r.coverage[mm.group(1)] = (int(mm.group(3)), int(mm.group(4)))
    if not r.ok and not r.violated:
        lines = [l for l in out.splitlines() if not l.startswith('"')]
        i = next((k for k, l in enumerate(lines) if "Error" in l or "Exception" in l), max(0, len(lines) - 30))
        raise MachineryError(f"TLC failed on {module} (rc={p.returncode}):\n" + "\n".join(l[:400] for l in lines[i:i + 30]))
    return r


# --------------------------------------------------------------------------- findings

def load_findings():
    p = os.path.join(ROOT, "known_findings.json")
    out = []
    if os.path.exists(p):
        with open(p) as f:
            out = json.load(f)["findings"]
    d = os.path.join(ROOT, "known_findings.d")          # per-property working fragments (merged by tools/merge_findings.py)
    byk = {(f["property"], f["key"]): f for f in out}
    if os.path.isdir(d):
        for fn in sorted(os.listdir(d)):
            if fn.endswith(".json"):
                with open(os.path.join(d, fn)) as f:
                    for x in json.load(f)["findings"]:
                        byk[(x["property"], x["key"])] = x
    out = list(byk.values())
    return out


class Findings:
    """Matcher for the committed known-findings list of one property.  Never writes."""

    def __init__(self, pid):
        self.pid = pid
        self.open = [f for f in load_findings() if f["property"] == pid and f["status"] == "open"]
        self.fixed = [f for f in load_findings() if f["property"] == pid and f["status"] == "fixed"]
        self.hits = {f["key"]: 0 for f in self.open}

    def match(self, tags, failure):
        """Return the key of the open finding that explains a failing case, or None."""
        tags = set(tags)
        for f in self.open:
            if set(f.get("tags", [])) <= tags and f.get("failure") in (None, failure):
                self.hits[f["key"]] += 1
                return f["key"]
        return None

    def report(self, out=sys.stdout):
        for f in self.open:
            n = self.hits[f["key"]]
            print(f"KNOWN-FINDING: property={self.pid} {f['key']}: {f['what']} "
                  f"(witness {f.get('witness')!r}; {n} explored case(s) fail this way)", file=out)


# --------------------------------------------------------------------------- replay files / verdict

def write_replay(pid, scenario, expected, observed, clause, extra=None):
    os.makedirs(os.path.join(REPLAYS, pid), exist_ok=True)
    body = {"property": pid, "scenario": scenario, "expected": expected, "observed": observed,
            "classification": "violation", "clause": clause}
    if extra:
        body.update(extra)
    h = hashlib.sha1(json.dumps(body, sort_keys=True, default=str).encode()).hexdigest()[:12]
    path = os.path.join(REPLAYS, pid, h + ".json")
    body["rerun"] = f"./check {pid} --replay {path}"
    with open(path, "w") as f:
        json.dump(body, f, indent=1, default=str)
    return path


class Verdicts:
    """Collects outcomes of one check run and turns them into output lines, evidence and exit code."""

    def __init__(self, pid, level):
        self.pid = pid
        self.level = level
        self.t0 = time.time()
        self.findings = Findings(pid)
        self.counts = {"ok": 0, "violation": 0, "known-finding": 0, "unspecified": 0, "drift": 0}
        self.violations = []      # replay paths
        self.cov = {"evaluations": 0, "distinct_nontrivial": 0, "rule": "", "samples": []}
        self.assumptions = []
        self.notes = []
        self._viol_printed = 0

    def ok(self, n=1):
        self.counts["ok"] += n

    def unspecified(self, n=1):
        self.counts["unspecified"] += n

    def drift(self, what):
        self.counts["drift"] += 1
        if len(self.notes) < 20:
            self.notes.append("DRIFT: " + what)

    def fail(self, scenario, expected, observed, clause, tags=(), failure=None):
        """A case where the real code contradicts the ideal.  Known finding or violation."""
        k = self.findings.match(tags, failure)
        if k is not None:
            self.counts["known-finding"] += 1
            return "known-finding"
        self.counts["violation"] += 1
        if len(self.violations) < 25:
            path = write_replay(self.pid, scenario, expected, observed, clause,
                                {"tags": sorted(tags), "failure": failure})
            self.violations.append(path)
            print(f"VIOLATION property={self.pid} replay={path}")
            print(f"  clause: {clause}\n  scenario: {json.dumps(scenario, default=str)[:400]}\n"
                  f"  expected: {json.dumps(expected, default=str)[:300]}\n  observed: {json.dumps(observed, default=str)[:300]}")
            sys.stdout.flush()
        return "violation"

    def finish(self):
        self.findings.report()
        ev = {
            "property_id": self.pid,
            "tier": tier() if tier() in ("quick", "thorough") else "quick",
            "seed": seed(),
            "level": self.level,
            "coverage": dict(self.cov, outcomes=self.counts, notes=self.notes),
            "assumptions": self.assumptions,
            "wall_s": round(time.time() - self.t0, 2),
            "violations": self.counts["violation"],
        }
        os.makedirs(EVID, exist_ok=True)
        with open(os.path.join(EVID, self.pid + ".json"), "w") as f:
            json.dump(ev, f, indent=1, default=str)
        print(f"[{self.pid}] tier={ev['tier']} seed={ev['seed']} outcomes={self.counts} "
              f"evaluations={self.cov.get('evaluations')} wall={ev['wall_s']}s")
        return 1 if self.counts["violation"] else 0


# --------------------------------------------------------------------------- process pool

def pmap(fn, items, chunk=None, procs=None):
    """Order-preserving parallel map over a list using fork (fn must be a module-level function)."""
    import multiprocessing as mp
    items = list(items)
    procs = procs or NCPU
    if len(items) < 64 or procs <= 1:
        return [fn(i) for i in items]
    ctx = mp.get_context("fork")
    chunk = chunk or max(1, len(items) // (procs * 8))
    with ctx.Pool(procs) as pool:
        return pool.map(fn, items, chunksize=chunk)


def rng(extra=0):
    return random.Random(seed() * 1000003 + extra)
