"""Rendering of abstract DipRefs programs to DIP text, execution on the real parser, normalised observation.

Nothing here knows what the result should be: values are printed, files are written, DIP is run and
env.data(Format.TUPLE) is turned into {path: [value, unit]}.  Comparison helpers are purely structural
(numbers with relative tolerance, nested lists element-wise)."""
import json, os, math

REL = 1e-9


# ----------------------------------------------------------------------------- rendering

def dotted(path):
    return ".".join(path)


def num_text(v, dtype, style):
    n, e = v["n"], v["e"]
    if e >= 0:
        s = str(n * 10 ** e)
        if dtype == "float" and style % 3 == 1:
            s += ".0"
        elif dtype == "float" and style % 3 == 2 and e > 0:
            s = f"{n}e{e}"
        return s
    if style % 2:
        return f"{n}e{e}"
    digits = str(abs(n)).rjust(-e + 1, "0")
    return ("-" if n < 0 else "") + digits[:e] + "." + digits[e:]


def value_text(val, dtype, shape, style):
    if dtype == "str":
        s = "".join(val)
        return [s, f'"{s}"', f"'{s}'"][style % 3 if s else 1 + style % 2]      # the empty string needs quotes
    if dtype == "bool":
        return "true" if val else "false"
    if shape:
        return json.dumps(val, separators=(",", ":"))
    return num_text(val, dtype, style)


def dims_text(shape):
    return "[" + ",".join(str(d) for d in shape) + "]" if shape else ""


def slice_text(sl):
    if not sl:
        return ""
    parts = []
    for lo, hi in sl:
        if lo == hi and lo >= 0:
            parts.append(str(lo))
        else:
            parts.append(f"{lo if lo >= 0 else ''}:{hi if hi >= 0 else ''}")
    return "[" + ",".join(parts) + "]"


def ref_text(ln):
    q = {"node": dotted(ln["q"]), "children": dotted(ln["q"]) + ".*", "all": "*"}[ln["qk"]]
    return "{" + ln["src"] + "?" + q + "}"


def unit_sfx(u):
    return " " + u if u else ""


def def_body(t, style):
    head = f"{t['dtype']}{dims_text(t['shape'])}"
    if not t["has"]:
        return head + unit_sfx(t["unit"])
    return f"{head} = {value_text(t['val'], t['dtype'], t['shape'], style)}{unit_sfx(t['unit'])}"


def render_lines(lines, style):
    """Abstract lines of one text -> DIP source.  style: layout/format variant (harness freedom):
    bit 0..: number format / string quoting; style//6 % 2: tree as indented groups or as dotted names."""
    nested = (style // 6) % 2 == 1
    out = []
    cur = None                  # path of the last tree line in nested layout
    for ln in lines:
        k = ln["k"]
        if k == "unit":                 # `$unit` definition at the top of a text
            out.append(f"$unit {ln['name']} = {ln['val']} {ln['unit']}")
            continue
        if k == "def":
            t = ln["t"]
            p = t["path"]
            if nested:
                c = 0
                if cur is not None:
                    while c < len(p) - 1 and c < len(cur) and cur[c] == p[c]:
                        c += 1
                for d in range(c, len(p) - 1):
                    out.append("  " * d + p[d])
                ind = "  " * (len(p) - 1)
                out.append(f"{ind}{p[-1]} {def_body(t, style)}")
                cur = p
            else:
                ind = ""
                out.append(f"{dotted(p)} {def_body(t, style)}")
            if t["const"]:
                out.append(ind + "  !constant")
            continue
        cur = None
        nested = False          # after the tree everything is written with full dotted names at indent 0
        if k == "mod":
            out.append(f"{dotted(ln['path'])} = {value_text(ln['val'], ln['dtype'], ln['shape'], style)}{unit_sfx(ln['unit'])}")
        elif k == "inj":
            rhs = f"{ref_text(ln)}{slice_text(ln['sl'])}{unit_sfx(ln['unit'])}"
            if ln["form"] == "def":
                out.append(f"{dotted(ln['host'])} {ln['dtype']}{dims_text(ln['shape'])} = {rhs}")
            else:
                out.append(f"{dotted(ln['host'])} = {rhs}")
        elif k == "cmp":
            out.append(f'{dotted(ln["host"])} bool = ("{{?{dotted(ln["l"])}}} {ln["op"]} {{?{dotted(ln["r"])}}}")')
        elif k == "imp":
            h = ln["host"]
            if ln["form"] == "inline":
                out.append(f"{dotted(h)} {ref_text(ln)}")
            else:
                for d, comp in enumerate(h):
                    out.append("  " * d + comp)
                out.append("  " * len(h) + ref_text(ln))
        else:
            raise ValueError(k)
    return "\n".join(out) + "\n"


def split_program(rec):
    prog = rec["prog"]
    for i, ln in enumerate(prog):
        if ln["k"] == "switch":
            return prog[:i], prog[i + 1:]
    return [], prog


# ----------------------------------------------------------------------------- observation

_FAST = [False]


def speedup():
    """DIP() / add_string() / add_file() call inspect.stack() only to record which script created them
    (several ms per call).  Give them a constant caller; nothing observable here depends on it."""
    if _FAST[0]:
        return
    import collections
    from scinumtools.dip import dip as M
    FI = collections.namedtuple("FI", "filename lineno")
    M.stack = lambda: [(None,), (None,)]
    M.getframeinfo = lambda frame: FI(__file__, 1)
    _FAST[0] = True


def _plain(v):
    import numpy as np
    if isinstance(v, np.ndarray):
        return v.tolist()
    if isinstance(v, np.generic):
        return v.item()
    if isinstance(v, (list, tuple)):
        return [_plain(x) for x in v]
    return v


def norm_data(d):
    out = {}
    for k, v in d.items():
        if isinstance(v, tuple):
            out[k] = [_plain(v[0]), v[1] or ""]
        else:
            out[k] = [_plain(v), ""]
    return out


def nodelist_data(nodes):
    """Same projection for a bare NodeList (the node list kept for a remote source)."""
    from scinumtools.dip.datatypes import NumberType
    d = {}
    for n in nodes:
        if isinstance(n.value, NumberType) and n.value.unit is not None:
            d[n.name] = (n.value.value, n.value.unit)
        else:
            d[n.name] = n.value.value
    return norm_data(d)


def env_data(env):
    from scinumtools.dip.settings import Format
    return norm_data(env.data(format=Format.TUPLE))


class Hang(BaseException):
    """The parse did not finish within the CPU-time budget (BaseException: no `except Exception` swallows it)."""


def _on_timer(signum, frame):
    raise Hang()


CPU_BUDGET = 4.0      # seconds of CPU time for one program (a parse takes milliseconds)


def run_program(rec, style, scratch):
    """run_program_ guarded by a CPU-time limit: a parse that never ends is an observation ("hang")."""
    import signal
    old = signal.signal(signal.SIGVTALRM, _on_timer)
    signal.setitimer(signal.ITIMER_VIRTUAL, CPU_BUDGET)
    try:
        try:
            return run_program_(rec, style, scratch)
        except Hang:
            # the budget is CPU time of the whole worker (garbage collection included): ask once more, generously
            signal.setitimer(signal.ITIMER_VIRTUAL, 10 * CPU_BUDGET)
            return run_program_(rec, style, scratch)
    except Hang:
        first, second = split_program(rec)
        return {"st": "hang", "data": None, "err": f"no result after {CPU_BUDGET} s and again after {10 * CPU_BUDGET} s of CPU time",
                "texts": [render_lines(x, style) for x in (first, second) if x], "side": None}
    finally:
        signal.setitimer(signal.ITIMER_VIRTUAL, 0)
        signal.signal(signal.SIGVTALRM, old)


def run_program_(rec, style, scratch):
    """Execute one abstract program on the real DIP.  -> observation dict
       {st: ok|rej|unreadable, data, err, texts, side: {before, after}}"""
    from scinumtools.dip import DIP
    speedup()
    first, second = split_program(rec)
    mode = rec["mode"]
    obs = {"st": "ok", "data": None, "err": None, "texts": [], "side": None}
    keep = []                                   # DIP objects stay alive: their default name is id(self)
    try:
        if mode == "local":
            text = render_lines(second, style)
            obs["texts"] = [text]
            p = DIP(); keep.append(p)
            p.add_string(text)
            env = p.parse()
        elif mode == "base":
            t1, t2 = render_lines(first, style), render_lines(second, style)
            obs["texts"] = [t1, t2]
            p1 = DIP(); keep.append(p1)
            p1.add_string(t1)
            env1 = p1.parse()
            before = env_data(env1)
            obs["side"] = {"before": before, "after": None}
            p2 = DIP(env1); keep.append(p2)
            p2.add_string(t2)
            try:
                env = p2.parse()
            finally:
                try:
                    obs["side"]["after"] = env_data(env1)
                except Exception as ex:
                    obs["side"]["after"] = {"#unreadable": [repr(ex)[:80], ""]}
        elif mode == "remote":
            os.makedirs(scratch, exist_ok=True)
            path = os.path.join(scratch, "s1.dip")
            t1 = render_lines(first, style)
            with open(path, "w") as f:
                f.write(t1)
            t2 = f"$source s1 = {path}\n" + render_lines(second, style)
            obs["texts"] = [t1, t2]
            try:                                 # the remote file on its own (what it holds "before")
                p0 = DIP(); keep.append(p0)
                p0.add_file(path)
                obs["side"] = {"before": env_data(p0.parse()), "after": None}
            except Exception:
                obs["side"] = None
            p = DIP(); keep.append(p)
            p.add_string(t2)
            env = p.parse()
            if obs["side"] is not None:
                try:
                    obs["side"]["after"] = nodelist_data(env.sources["s1"].nodes)
                except Exception as ex:
                    obs["side"]["after"] = {"#unreadable": [repr(ex)[:80], ""]}
        else:
            raise ValueError(mode)
    except Exception as ex:
        obs["st"] = "rej"
        obs["err"] = repr(ex)[:160]
        return obs
    try:
        obs["data"] = env_data(env)
    except Exception as ex:
        obs["st"] = "unreadable"
        obs["err"] = repr(ex)[:160]
    return obs


# ----------------------------------------------------------------------------- structural comparison

def expected_value(node):
    """Spec value -> plain python (numbers as floats computed from the exact n * 10^e)."""
    v, dt = node["val"], node["dtype"]
    if dt == "str":
        return "".join(v)
    if dt == "bool":
        return bool(v)
    if node["shape"]:
        return v
    n, e = v["n"], v["e"]
    return n * 10 ** e if e >= 0 else n / 10 ** (-e)


def expected_data(data):
    return {dotted(n["path"]): [expected_value(n), n["unit"]] for n in data}


def same_value(a, b):
    if isinstance(a, bool) or isinstance(b, bool):
        return isinstance(a, bool) and isinstance(b, bool) and a == b
    if isinstance(a, str) or isinstance(b, str):
        return isinstance(a, str) and isinstance(b, str) and a == b
    if isinstance(a, list) or isinstance(b, list):
        return (isinstance(a, list) and isinstance(b, list) and len(a) == len(b)
                and all(same_value(x, y) for x, y in zip(a, b)))
    try:
        return math.isclose(float(a), float(b), rel_tol=REL, abs_tol=0.0)
    except Exception:
        return False


def same_data(obs, exp):
    if obs is None or set(obs) != set(exp):
        return False
    return all(obs[k][1] == exp[k][1] and same_value(obs[k][0], exp[k][0]) for k in exp)


# ----------------------------------------------------------------------------- base-environment histories (DipBase)

SOURCE_NAMES = ("s1", "s2")


def render_base_text(lines, scratch):
    out, ind = [], ""
    for ln in lines:
        k = ln["k"]
        if k == "unit":
            out.append(f"{ind}$unit {ln['name']} = {ln['val']} m")
        elif k == "source":
            out.append(f"{ind}$source {ln['name']} = {os.path.join(scratch, 'src_' + ln['name'] + '.txt')}")
        elif k == "node":
            u = ln["unit"]
            out.append(f"{ind}{ln['name']} float = {ln['val']}" + (f" [{u}]" if u not in ("", "m") else unit_sfx(u)))
        elif k == "inj":
            out.append(f"{ind}{ln['name']} float = {{?*}}")
        elif k == "case":
            out.append(f"@case {'true' if ln['val'] else 'false'}")
            ind = "  "
        elif k == "end":
            out.append("@end")
            ind = ""
        else:
            raise ValueError(k)
    return "\n".join(out) + ("\n" if out else "")


def parse_on(base, text, name, keep):
    """DIP(base).parse() of text (DIP() when base is None).  -> ('ok', env) | ('rej', None)"""
    from scinumtools.dip import DIP
    speedup()
    for s in SOURCE_NAMES:
        m = "src_" + s + ".txt"
        for part in text.split():
            if part.endswith(m) and not os.path.exists(part):
                os.makedirs(os.path.dirname(part), exist_ok=True)
                with open(part, "w") as f:
                    f.write("content of " + s + "\n")
    try:
        p = DIP(base, name=name) if base is not None else DIP(name=name)
        keep.append(p)
        if text:
            p.add_string(text)
        return "ok", p.parse()
    except Exception:
        return "rej", None


def observe_env(env):
    try:
        nodes = env_data(env)
    except Exception as ex:
        nodes = {"#unreadable": [repr(ex)[:80], ""]}
    units = {}
    for k, v in env.units.items():
        try:
            units[k] = float(v["value"])
        except Exception:
            units[k] = repr(v)[:40]
    return {"nodes": nodes, "units": units, "sources": sorted(k for k in env.sources.keys() if k in SOURCE_NAMES)}


def expected_env(exp):
    unit = lambda u: u if u in ("", "m") else f"[{u}]"
    return {"nodes": {n["name"]: [n["val"], unit(n["unit"])] for n in exp["nodes"]},
            "units": {f"[{u['name']}]": float(u["val"]) for u in exp["units"]},
            "sources": sorted(s["name"] for s in exp["sources"])}


def same_env(obs, exp):
    return (same_data(obs["nodes"], exp["nodes"]) and obs["sources"] == exp["sources"]
            and set(obs["units"]) == set(exp["units"]) and all(same_value(obs["units"][k], exp["units"][k]) for k in exp["units"]))
