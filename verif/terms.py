"""Evaluator for the obligation term language of DESIGN 4.2 (as emitted by spec/MatTerms.tla).

Term (JSON array, prefix form):
  ["q", n, d] | ["p10", k] | ["obs", path] | ["inp", path] | ["tab", table, k1, k2] | ["ref", key, field]
  | ["mul", t, t] | ["div", t, t] | ["add", t, t] | ["sub", t, t] | ["sum", [t, ...]]

No library-specific formula lives here: which relation must hold in which scenario is decided by the
TLA+ specs; this module only turns a term into a float given
  obs  : dict path -> number measured on the real objects
  inp  : dict path -> number the harness chose as input
  tab  : callable (table, k1, k2) -> number from the live library tables
  ref  : callable (key, field) -> term emitted earlier by TLC (species records)
"""
import math

TOL = {"num": 1e-9, "exact": 1e-12}


class Missing(Exception):
    """A leaf the harness could not observe (reported as a failed obligation, never silently skipped)."""


class Env:
    def __init__(self, obs=None, inp=None, tab=None, ref=None):
        self.obs = obs if obs is not None else {}      # the caller keeps filling its own dict
        self.inp = inp if inp is not None else {}
        self.tab = tab
        self.ref = ref


def ev(t, env):
    op = t[0]
    if op == "q":
        return t[1] / t[2]
    if op == "p10":
        return 10.0 ** t[1]
    if op == "obs":
        try:
            return float(env.obs[t[1]])
        except KeyError:
            raise Missing("obs:" + t[1])
    if op == "inp":
        try:
            return float(env.inp[t[1]])
        except KeyError:
            raise Missing("inp:" + t[1])
    if op == "tab":
        return float(env.tab(t[1], t[2], t[3]))
    if op == "ref":
        return ev(env.ref(t[1], t[2]), env)
    if op == "mul":
        return ev(t[1], env) * ev(t[2], env)
    if op == "div":
        return ev(t[1], env) / ev(t[2], env)
    if op == "add":
        return ev(t[1], env) + ev(t[2], env)
    if op == "sub":
        return ev(t[1], env) - ev(t[2], env)
    if op == "sum":
        return math.fsum(ev(x, env) for x in t[1])
    raise ValueError("unknown term " + repr(op))


def check(ob, env):
    """-> (holds, lhs, rhs).  rel 'approx': |l-r| <= tol*max(|l|,|r|) + tiny absolute floor scaled by the operands."""
    try:
        l = ev(ob["lhs"], env)
        r = ev(ob["rhs"], env)
    except Missing as m:
        return False, "missing " + str(m), None
    except ZeroDivisionError:
        return False, "division by zero", None
    rel = TOL[ob.get("tol", "num")]
    if ob["rel"] == "approx":
        if not (math.isfinite(l) and math.isfinite(r)):
            return False, l, r
        scale = max(abs(l), abs(r))
        return abs(l - r) <= rel * scale + 1e-300, l, r
    if ob["rel"] == "ge":
        return l >= r - rel * max(abs(l), abs(r)), l, r
    raise ValueError("unknown relation " + repr(ob["rel"]))


def failing(obls, env, limit=4):
    """List of (name, lhs, rhs) of the obligations that do not hold."""
    out = []
    for ob in obls:
        ok, l, r = check(ob, env)
        if not ok:
            where = ob["lhs"][1] if ob["lhs"][0] == "obs" else ""
            out.append((ob["name"] + ("@" + where if where and not where.endswith(ob["name"]) else ""), l, r))
            if len(out) >= limit:
                break
    return out
