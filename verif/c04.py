"""C04 - linear unit conversion is exact, reversible and dimension-safe.

1. TLC (UnitConvGen, Source = "table") computes the complete decision table over all ordered pairs of live table
   units (and "no unit" as a source): the ideal rule (linear | inverse | nounit_rad | reject | affine | log:* |
   unspecified), the rule the transcription of the UNIT_TYPES dispatch chooses (machine), the value obligation as
   a term, feature tags; it checks the lemmas Symmetric, Composition (linear is an equivalence, inverse o inverse
   = linear, over all triples) and ValueModel (reversibility and path independence on the exact power-of-ten model).
2. Source = "compound": all pairs of sides with <= 2 entries over a sub-table, exponents {-1, 1, 2}, <= 3 entries.
3. Source = "file": prefixed / exponentiated variants chosen by the harness so that every admissible
   (prefix, unit) pair is converted at least once.
4. Every record is replayed: Quantity(x,a).value(b) and .to(b) on fresh objects for the magnitudes of the property
   (0, 1, -3, 2.5e-7, 1e30) and an array; round trips; triples for path independence; a refused conversion must
   raise from both entry points and leave the quantity exactly as it was.
"""
import json, os, itertools
import numpy as np
from . import common as C
from . import units_a_tables as T
from . import units_a_adapter as A

PID = "C04"
DEV_TAGS = {"nounit_to_rad_power", "offset_dim_mismatch", "log_dim_mismatch"}
SUB_Q = [("", "m"), ("k", "m"), ("", "s"), ("", "K"), ("", "Cel"), ("", "rad"), ("", "Hz"), ("", "W"), ("d", "Bm"), ("", "%")]
SUB_T = [("", "m"), ("k", "m"), ("", "s"), ("", "g"), ("", "K"), ("", "Cel"), ("", "rad"), ("", "Hz"), ("", "J"), ("", "W"),
         ("d", "B"), ("d", "Bm"), ("", "%")]
C04_RULES = ("linear", "inverse", "nounit_rad", "reject")


def known_devs():
    devs = set()
    for f in C.Findings(PID).open:
        devs |= set(f.get("tags", [])) & DEV_TAGS
    # trial switch: VERIF_C04_FIXED=tag,tag treats these deviations as repaired (machine follows)
    return devs - set(os.environ.get("VERIF_C04_FIXED", "").split(","))


def write_mc(wd, sub):
    with open(os.path.join(wd, "UnitConvMC.tla"), "w") as f:
        f.write("---- MODULE UnitConvMC ----\nEXTENDS UnitConvGen\nMCSub == <<" +
                ", ".join(f'[p |-> "{p}", u |-> "{u}"]' for p, u in sub) +
                ">>\nMCExps == {<<1, 1>>, <<-1, 1>>, <<2, 1>>}\n====\n")


def strip_lemmas(cfg_text):
    return "\n".join(l for l in cfg_text.splitlines() if not (l.startswith("INVARIANT") and "Emit" not in l)) + "\n"


def cfg(source, devs, lemmas=True):
    inv = "INVARIANT Refines\nINVARIANT Symmetric\n" + ("INVARIANT Composition\nINVARIANT ValueModel\n" if lemmas else "")
    return f"""CONSTANTS
  OneChar = TRUE
  Source = "{source}"
  Sub <- MCSub
  Exps <- MCExps
  KnownDevs = {C.tla_str(devs)}
  ConvDevs = {C.tla_str(devs)}
  Emit = TRUE
INIT Init
NEXT Next
{inv}INVARIANT EmitInv
INVARIANT EmitHeader
CHECK_DEADLOCK FALSE
"""


# ------------------------------------------------------------------ replay

REL = 1e-9


def usable(rec, x, tabs):
    """the magnitudes the property decides: intermediate and result inside a double (0 allowed)"""
    with np.errstate(all="ignore"):
        inter = np.asarray(A.ev(rec["inter"], tabs, x), dtype=float)
        exp = np.asarray(A.ev(rec["expect"], tabs, x), dtype=float)
    ok = np.all(np.isfinite(inter)) and np.all(np.isfinite(exp)) and np.all(np.abs(inter) < 1e300) and np.all(np.abs(exp) < 1e300)
    small = np.all((np.abs(inter) > 1e-300) | (inter == 0)) and np.all((np.abs(exp) > 1e-300) | (exp == 0))
    return bool(ok and small), exp


def replay_conv(job):
    """job = (record, list of magnitudes (float or list)) -> (status, failure, detail, nobs)"""
    rec, xs = job[0], job[1]
    extra = job[2] if len(job) > 2 else {"tm": [], "unc": []}
    tabs = replay_conv.tabs
    rule = rec["rule"]
    ua = rec["a"] or None
    ub = rec["b"]
    nobs = 0
    if rule not in C04_RULES:
        return ("unspecified", None, None, 0)
    st, failure, det = "ok", None, None
    accepted_any = False
    for k, x in enumerate(xs):
        xv = A.mag_float(x)
        if rule == "reject":
            # the first magnitude through both entry points, the others through one of them in turn
            alt = (k + len(rec["a"]) + len(rec["b"])) % 2          # which entry point takes the k-th further magnitude
            r1 = A.conv_value(x, ua, ub) if k == 0 or alt == 1 else ("err", "", True)
            r2 = A.conv_to(x, ua, ub) if k == 0 or alt == 0 else ("err", "", True)
            nobs += (2 if k == 0 else 1)
            if r1[0] == "val" or r2[0] == "val":
                accepted_any = True
                return ("violation", "accepted_mismatch",
                        {"expected": "an exception", "observed": {"value()": r1[:2], "to()": r2[:2]}, "x": x,
                         "clause": "different dimensions (neither equal nor exactly reciprocal) => refused with an error, whatever the magnitude"}, nobs)
            if not r1[2] or not r2[2]:
                return ("violation", "changed_by_refusal",
                        {"expected": "quantity unchanged", "observed": {"value() unchanged": r1[2], "to() unchanged": r2[2]}, "x": x,
                         "clause": "a refused conversion leaves the quantity as it was"}, nobs)
            continue
        if rule == "inverse" and np.any(np.asarray(xv) == 0):
            continue                                             # reciprocal of zero: not in the quantifier
        okx, exp = usable(rec, xv, tabs)
        if not okx:
            continue
        r1 = A.conv_value(x, ua, ub); r2 = A.conv_to(x, ua, ub); nobs += 2
        if r1[0] != "val" or r2[0] != "val":
            return ("violation", "refused_valid", {"expected": np.asarray(exp).tolist(), "observed": {"value()": r1[:2], "to()": r2[:2]}, "x": x,
                                                   "clause": f"{rule}: the conversion is performed (magnitude kind {A.mag_kind(x)}, after conversions of other kinds to the same target)"}, nobs)
        if not A.close(r1[1], exp, REL) or not A.close(r2[1], exp, REL):
            return ("violation", "wrong_value", {"expected": np.asarray(exp).tolist(), "observed": {"value()": r1[1], "to()": r2[1]}, "x": x,
                                                 "clause": f"{rule}: value = " + ("x*F(a)/F(b)" if rule != "inverse" else "1/(x*F(a))/F(b)") + " (rel 1e-9)"}, nobs)
        if r1[3] != A.mag_kind(x) or r2[4] != A.mag_kind(x):
            return ("violation", "result_kind", {"expected": A.mag_kind(x), "observed": {"value()": r1[3], "to()": r2[4]}, "x": x,
                                                 "clause": "a float converts to a float, an array element-wise to an array, a Decimal to a Decimal - whatever was converted before"}, nobs)
        if not r1[2]:
            return ("violation", "value_mutates", {"expected": "value() does not alter the quantity", "observed": "changed", "x": x,
                                                   "clause": "value(unit) is out-of-place"}, nobs)
        if not r2[3]:
            return ("violation", "to_not_inplace", {"expected": "after to() the quantity itself carries the converted value and units", "observed": "it does not", "x": x,
                                                    "clause": "to(unit) converts in place"}, nobs)
        # reverse conversion returns x
        # ("converting back": only where the spec's rule for the reverse pair is a linear or reciprocal conversion -
        #  a source the constructor folded to a bare number is not the text it was written with)
        if ua is not None and rule != "nounit_rad" and rec.get("back") in ("linear", "inverse"):
            from scinumtools.units import Quantity
            try:
                q = Quantity(A.mag_in(x), ua)
                back = np.array(A.as_float(q.to(ub).to(ua).magnitude.value), dtype=float); nobs += 1
                if not A.close(back, xv, REL):
                    return ("violation", "round_trip", {"expected": x, "observed": back.tolist(), "x": x, "clause": "converting back returns x (rel 1e-9)"}, nobs)
            except Exception as e:
                return ("violation", "round_trip", {"expected": x, "observed": repr(e)[:200], "x": x, "clause": "converting back returns x"}, nobs)
    # ---- the target given as a quantity  m v
    xq = next((x for x in xs if isinstance(x, float) and x != 0 and np.isfinite(x) and abs(x) < 1e10), None)
    if xq is not None and extra["tm"]:
        for m in extra["tm"]:
            r = A.conv_to_quantity(xq, ua, m, ub); nobs += 1
            if rule == "reject":
                if r[0] == "val":
                    return ("violation", "accepted_mismatch", {"expected": "an exception", "observed": r[:2], "x": xq, "target": [m, ub],
                                                              "clause": "different dimensions => refused, also when the target is a quantity"}, nobs)
                if not r[2] or not r[3]:
                    return ("violation", "changed_by_refusal", {"expected": "source and target unchanged", "observed": {"source unchanged": r[2], "target unchanged": r[3]},
                                                                "x": xq, "target": [m, ub], "clause": "a refused conversion to a quantity target leaves the quantity (and the target) as it was"}, nobs)
            else:
                okx, _ = usable(rec, xq, tabs)
                if not okx:
                    continue
                with np.errstate(all="ignore"):
                    exp = float(A.ev(rec["expect_qt"], tabs, np.float64(xq), np.float64(m)))
                if r[0] != "val":
                    return ("violation", "refused_valid", {"expected": exp, "observed": r[:2], "x": xq, "target": [m, ub],
                                                           "clause": f"{rule}: to(Quantity(m, v)) is performed"}, nobs)
                if not A.close(r[1], exp, REL) or not r[3] or not r[4]:
                    return ("violation", "wrong_value", {"expected": exp, "observed": r[1:], "x": xq, "target": [m, ub],
                                                         "clause": f"{rule}: to(Quantity(m, v)) = (conversion to v) / m, in place, target untouched"}, nobs)
    # ---- a source that carries an uncertainty: the converted VALUE is the conversion of the exact value
    if xq is not None and rule != "reject":
        for kind, amount in extra["unc"]:
            for x in (xq, [xq, 2.0 * xq, -0.5 * xq]):
                okx, exp = usable(rec, A.mag_float(x), tabs)
                if not okx:
                    continue
                r = A.conv_uncertain(x, ua, ub, kind, amount); nobs += 2
                if r[0] != "val" or not A.close(r[1], exp, REL) or not A.close(r[2], exp, REL):
                    return ("violation", "value_depends_on_error", {"expected": np.asarray(exp).tolist(), "observed": r[1:], "x": x, "uncertainty": [kind, amount],
                                                                    "clause": f"{rule}: the value converted from a quantity with an uncertainty is the conversion of the exact value"}, nobs)
    if st == "ok" and nobs:
        # conformance of the dispatch transcription
        mach_rej = rec["mrule"] == "reject"
        if mach_rej != (rule == "reject"):
            return ("drift", None, {"a": rec["a"], "b": rec["b"], "machine": rec["mrule"], "ideal": rule}, nobs)
    return (("ok" if nobs else "unspecified"), None, None, nobs)


def replay_triple(job):
    """(u, w, v, expect-record of (u,v), x) : to(w).to(v) = direct"""
    u, w, v, rec, x = job
    tabs = replay_conv.tabs
    from scinumtools.units import Quantity
    okx, exp = usable(rec, float(x), tabs)
    if not okx:
        return ("unspecified", None, None, 0)
    try:
        got = float(Quantity(x, u).to(w).to(v).magnitude.value)
    except Exception as e:
        return ("violation", "path", {"expected": float(exp), "observed": repr(e)[:200], "x": x, "clause": f"{u} -> {w} -> {v} is possible whenever both steps are"}, 1)
    if not np.isfinite(got):
        return ("unspecified", None, None, 1)
    if not A.close(got, exp, REL):
        return ("violation", "path", {"expected": float(exp), "observed": got, "x": x, "clause": f"{u} -> {w} -> {v} equals the direct conversion (rel 1e-9)"}, 1)
    return ("ok", None, None, 1)


# ------------------------------------------------------------------ main

def run(replay=None):
    V = C.Verdicts(PID, "model_checking")
    data = T.live()
    tabs = A.tabs_of(data)
    replay_conv.tabs = tabs
    if replay:
        body = json.load(open(replay))
        s = body["scenario"]
        if s.get("_kind") == "triple":
            res = replay_triple((s["u"], s["w"], s["v"], s["rec"], s["x"]))
        else:
            res = replay_conv((s, s["_xs"], s.get("_extra", {"tm": [], "unc": []})))
        print(f"replay {replay}: {res[:3]}")
        if res[0] == "violation" and C.Findings(PID).match(s.get("tags", []), res[1]) is None:
            print(f"VIOLATION property={PID} replay={replay}")
            return 1
        return 0
    wd = C.workdir(PID)
    T.write(wd, data)
    tier = C.tier()
    rnd = C.rng(4)
    devs = known_devs()
    states = trans = 0
    notes = []
    # 1. the whole table
    write_mc(wd, SUB_Q if tier == "quick" else SUB_T)
    r1 = C.run_tlc(wd, "UnitConvMC", cfg("table", devs))
    states += r1.distinct; trans += r1.generated
    if r1.violated:
        V.notes.append(f"TLC: {r1.violated} fails on the decision table: " + r1.cex[:500])
        r1.records = C.run_tlc(wd, "UnitConvMC", strip_lemmas(cfg("table", devs))).records
    header = [x for x in r1.records if "magnitudes" in x]
    table = [x for x in r1.records if "rule" in x]
    if not header:
        raise C.MachineryError("UnitConvGen emitted no header record")
    mags = [float(A.ev(t, tabs)) for t in header[0]["magnitudes"]]
    arr = [float(A.ev(t, tabs)) for t in header[0]["array"]]
    # 2. compound sides
    r2 = C.run_tlc(wd, "UnitConvMC", cfg("compound", devs, lemmas=False))
    states += r2.distinct; trans += r2.generated
    if r2.violated:
        V.notes.append(f"TLC: {r2.violated} fails on compound sides: " + r2.cex[:500])
        r2.records = C.run_tlc(wd, "UnitConvMC", strip_lemmas(cfg("compound", devs))).records
    compound = [x for x in r2.records if "rule" in x]
    # 3. prefixed / exponentiated variants (harness chooses, TLC decides)
    U = {u["name"]: i + 1 for i, u in enumerate(data["units"])}
    P = {p["name"]: i + 1 for i, p in enumerate(data["prefixes"])}
    partners = {}
    for x in table:
        if x["rule"] in ("linear", "inverse") and x["a"]:
            partners.setdefault(x["a"], []).append(x["b"])
    # unit texts with a two-letter prefix are mis-read by the atom parser (open finding of C03): not used here while it is open
    c03_open = any("prefix_two_letter" in f.get("tags", []) for f in C.Findings("C03").open)
    def adm(u):
        return [""] + [a for a in data["units"][U[u] - 1]["adm"] if a in P and not (c03_open and len(a) > 1)]
    cases = []
    def side(p, u, e):
        return [{"k": "u", "p": P.get(p, 0), "u": U[u], "en": e[0], "ed": e[1]}]
    for u in data["units"]:
        for p in adm(u["name"]):
            ps = partners.get(u["name"])
            if not ps:
                continue
            for rep in range(1 if tier == "quick" else 3):
                v = rnd.choice(ps)
                pv = rnd.choice(adm(v))
                e = rnd.choice([(1, 1), (1, 1), (2, 1), (-1, 1), (1, 2), (-3, 2)])
                cases.append({"a": side(p, u["name"], e), "b": side(pv, v, e)})
                cases.append({"a": side(pv, v, e), "b": side(p, u["name"], e)})
            # and one mismatching partner: must be refused
            w = rnd.choice(data["units"])["name"]
            cases.append({"a": side(p, u["name"], (1, 1)), "b": side(rnd.choice(adm(w)), w, rnd.choice([(1, 1), (2, 1)]))})
    fin = os.path.join(wd, "ccases.json")
    json.dump(cases, open(fin, "w"))
    r3 = C.run_tlc(wd, "UnitConvMC", cfg("file", devs, lemmas=False), env={"UCONV_IN": fin})
    states += r3.distinct; trans += r3.generated
    if r3.violated:
        V.notes.append(f"TLC: {r3.violated} fails on prefixed variants: " + r3.cex[:500])
        r3.records = C.run_tlc(wd, "UnitConvMC", strip_lemmas(cfg("file", devs)), env={"UCONV_IN": fin}).records
    variants = [x for x in r3.records if "rule" in x]
    if len(variants) != len(cases):
        raise C.MachineryError(f"TLC annotated {len(variants)} of {len(cases)} variant cases")

    # 4. replay
    jobs = []
    zeros = [float(A.ev(t, tabs)) for t in header[0]["zeros"]]
    zarr = [float(A.ev(t, tabs)) for t in header[0]["zeroarray"]]
    decs = [{"dec": "1"}, {"dec": "-3"}, {"dec": "2.5e-7"}] if "decimal" in header[0]["kinds"] else []
    tmags = [float(A.ev(t, tabs)) for t in header[0]["target_mags"]]
    uncs = [(k, float(A.ev(t, tabs))) for k, t in header[0]["uncertainties"]]
    def extra_for(rec, full):
        if rec["rule"] == "reject":
            return {"tm": [rnd.choice(tmags[1:])] + ([tmags[0]] if full else []), "unc": []}
        if rec["rule"] in C04_RULES:
            return {"tm": tmags if full else [tmags[0], rnd.choice(tmags[1:])], "unc": uncs if full else [rnd.choice(uncs)]}
        return {"tm": [], "unc": []}
    def xs_for(rec, full):
        if rec["rule"] == "reject":
            # a refusal does not depend on the magnitude: a non-zero value, zero, negative zero, an all-zero array
            # (quick: the non-zero value and one of the three zero magnitudes per pair, all three spread over the pairs)
            return [rnd.choice(mags[1:4])] + (zeros + [zarr] + [arr] if full else [rnd.choice(zeros + [zarr])])
        if rec["rule"] in C04_RULES:
            # all magnitude kinds through the same target in a seeded order, then float and array once more:
            # the result of a conversion must not depend on the kinds converted before (history)
            seq = (mags + [arr] + decs) if full else [rnd.choice(mags), rnd.choice(mags[1:4]), arr, rnd.choice(decs)]
            seq = list(seq); rnd.shuffle(seq)
            return seq + [mags[1], arr]
        return []
    for rec in table:
        full = True if rec["rule"] != "reject" else tier != "quick"
        jobs.append((dict(rec, _src="table"), xs_for(rec, full), extra_for(rec, full)))
    comp = compound
    if tier == "quick":
        keep = [x for x in compound if x["rule"] != "reject" or x["mrule"] != "reject"]
        rest = [x for x in compound if x["rule"] == "reject" and x["mrule"] == "reject"]
        comp = keep + rnd.sample(rest, min(len(rest), 4000))
    for rec in comp:
        jobs.append((dict(rec, _src="compound"), xs_for(rec, rec["rule"] != "reject"), extra_for(rec, rec["rule"] != "reject" and tier != "quick")))
    for rec in variants:
        jobs.append((dict(rec, _src="variant"), xs_for(rec, tier != "quick"), extra_for(rec, tier != "quick")))
    res = C.pmap(replay_conv, jobs)
    nobs = 0
    classes = {}
    nontrivial = set()
    samples = []
    for (rec, xs, extra), r in zip(jobs, res):
        st, failure, det, n = r
        nobs += n
        key = rec["_src"] + ":" + rec["rule"].split(":")[0]
        classes[key] = classes.get(key, 0) + 1
        if rec["rule"] in ("linear", "inverse", "nounit_rad") and rec["a"] != rec["b"]:
            nontrivial.add((rec["a"], rec["b"]))
        elif rec["rule"] == "reject" and rec["tags"]:
            nontrivial.add((rec["a"], rec["b"]))
        if st == "violation":
            scen = dict(rec, _xs=[det.get("x")] if det.get("x") is not None and "target" not in det and "uncertainty" not in det else xs, _extra=extra)
            V.fail(scen, det.get("expected"), det.get("observed"), det["clause"] + f" :: Quantity(x, {rec['a'] or None!r}) -> {rec['b']!r}",
                   tags=list(rec["tags"]), failure=failure)
        elif st == "drift":
            V.drift(json.dumps(det)[:300])
        elif st == "unspecified":
            V.unspecified()
        else:
            V.ok()
    samples += [{k: x[k] for k in ("a", "b", "rule", "mrule", "expect", "tags")} for x in
                [y for y in table if y["rule"] == "linear" and y["a"] != y["b"]][:2] + [y for y in table if y["rule"] == "inverse"][:1]
                + [y for y in compound if y["rule"] == "reject" and y["tags"]][:1] + variants[:1]]
    # triples: path independence inside the classes the table lemma covers
    exp_of = {(x["a"], x["b"]): x for x in table if x["rule"] in ("linear", "inverse") and x["a"]}
    nbr = {}
    for (u, v) in exp_of:
        nbr.setdefault(u, []).append(v)
    tjobs = []
    for u, vs in nbr.items():
        trip = [(w, v) for w in vs for v in vs if w != u and (w, v) in exp_of and (u, v) in exp_of]
        if tier == "quick" or len(vs) > 12:
            trip = rnd.sample(trip, min(len(trip), 12 if tier == "quick" else 150))
        for w, v in trip:
            tjobs.append((u, w, v, exp_of[(u, v)], rnd.choice(mags[1:4])))
    tres = C.pmap(replay_triple, tjobs)
    for (u, w, v, rec, x), r in zip(tjobs, tres):
        st, failure, det, n = r
        nobs += n
        if st == "violation":
            V.fail({"_kind": "triple", "u": u, "w": w, "v": v, "rec": rec, "x": x, "tags": rec["tags"]}, det["expected"], det["observed"],
                   det["clause"], tags=list(rec["tags"]) + ["path"], failure=failure)
        elif st == "unspecified":
            V.unspecified()
        else:
            V.ok()
    samples.append({"triple": list(tjobs[0][:3]), "x": tjobs[0][4]} if tjobs else {})
    # the tables are the CURRENT ones: the same custom symbol registered with different factor / dimension in
    # consecutive unit environments (left through close() and through `with`); inside each the tables are read
    # again, TLC decides the same pairs, and they are replayed there
    try:
        from scinumtools.units import UnitEnvironment
        sym = "vfq"
        rows = [({"magnitude": 3.0, "dimensions": [1, 0, -2, 0, 0, 0, 0, 0], "prefixes": ["k", "m"]}, "Gal"),
                ({"magnitude": 0.25, "dimensions": [2, 1, -2, 0, 0, 0, 0, 0], "prefixes": ["k", "m"]}, "J"),
                ({"magnitude": 40.0, "dimensions": [1, 0, -2, 0, 0, 0, 0, 0], "prefixes": ["k", "m"]}, "Gal")]
        saved_tabs = replay_conv.tabs
        for k, (row, partner) in enumerate(rows):
            env = UnitEnvironment({sym: dict(row, dimensions=list(row["dimensions"]), prefixes=list(row["prefixes"]))})
            try:
                data2 = T.live()
                wd2 = os.path.join(wd, f"env{k}"); os.makedirs(wd2, exist_ok=True)
                T.write(wd2, data2)
                write_mc(wd2, SUB_Q)
                U2 = {u["name"]: i + 1 for i, u in enumerate(data2["units"])}
                def sd(p_, u_, e_=(1, 1)):
                    return [{"k": "u", "p": P.get(p_, 0), "u": U2[u_], "en": e_[0], "ed": e_[1]}]
                ecases = []
                for p_ in ("", "k", "m"):
                    for other in ("Gal", "J", "erg", "m"):
                        ecases.append({"a": sd(p_, sym), "b": sd("", other)})
                        ecases.append({"a": sd("", other), "b": sd(p_, sym)})
                    ecases.append({"a": sd(p_, sym, (2, 1)), "b": sd("", partner, (2, 1))})
                fin2 = os.path.join(wd2, "ccases.json")
                json.dump(ecases, open(fin2, "w"))
                r5 = C.run_tlc(wd2, "UnitConvMC", strip_lemmas(cfg("file", devs)), env={"UCONV_IN": fin2})
                states += r5.distinct; trans += r5.generated
                replay_conv.tabs = A.tabs_of(data2)
                for rec in [x for x in r5.records if "rule" in x]:
                    rec = dict(rec, _src="custom_env", tags=list(rec["tags"]) + ["custom_unit_environment"])
                    xs = [mags[1], mags[2], arr]
                    ex = {"tm": [tmags[1]], "unc": []}
                    st, failure, det, n = replay_conv((rec, xs, ex))
                    nobs += n
                    classes["custom_env:" + rec["rule"]] = classes.get("custom_env:" + rec["rule"], 0) + 1
                    if st == "violation":
                        V.fail(dict(rec, _xs=xs, _extra=ex), det.get("expected"), det.get("observed"),
                               det["clause"] + f" :: Quantity(x, {rec['a']!r}) -> {rec['b']!r} in unit environment {k + 1} ({sym} = {row['magnitude']} {row['dimensions']})",
                               tags=list(rec["tags"]), failure=failure)
                    elif st == "drift":
                        V.drift(json.dumps(det)[:300])
                    else:
                        V.ok()
            finally:
                replay_conv.tabs = saved_tabs
                if k % 2 == 0:
                    env.close()
                else:
                    env.__exit__(None, None, None)       # what leaving a `with` block does
    except C.MachineryError:
        raise
    except Exception as e:
        V.notes.append("custom unit environments could not be exercised: " + repr(e)[:160])
    unref = [x for x in table + compound + variants if x["rule"] in C04_RULES and not x["agrees"] and not x["known"]]
    if unref:
        V.notes.append(f"TLC: dispatch transcription differs from the ideal rule on {len(unref)} pair(s) outside the known deviations, e.g. {unref[0]['a']!r} -> {unref[0]['b']!r}")
    if (r1.violated or r2.violated or r3.violated or unref) and V.counts["violation"] == 0:
        V.drift("a TLC lemma / machine-vs-ideal counterexample was not reproduced by the code")
    V.cov.update({
        "states": states, "transitions": trans,
        "traces_validated_against_impl": len(jobs) + len(tjobs),
        "evaluations": nobs, "distinct_nontrivial": len(nontrivial),
        "rule": f"decision table over all ordered pairs of the {len(data['units'])} live table units plus 'no unit' as source (TLC, exhaustive, "
                "with the lemmas Symmetric / Composition over all triples / ValueModel); all pairs of sides with <= 2 entries over a "
                f"{len(SUB_Q if tier == 'quick' else SUB_T)}-unit sub-table with exponents -1, 1, 2 (<= 3 entries); prefixed and exponentiated variants so that every "
                "admissible (prefix, unit) pair is converted; each replayed through value() and to() on fresh objects for the magnitudes "
                "0, 1, -3, 2.5e-7, 1e30, an array and Decimal values in a seeded order through the same target (the result and its kind must "
                "not depend on what was converted before), refused pairs also with 0, -0.0 and an all-zero array, targets given as a quantity m v with "
                "m = 1 and m != 1 (accepted: result / m; refused: source and target unchanged), sources carrying abse / rele (value = conversion "
                "of the exact value), round trips, triples; finally the same custom symbol registered with three different rows in consecutive "
                "unit environments, the same pairs decided and replayed inside each; non-trivial = distinct ordered pairs with different sides that convert, "
                "or refused pairs carrying a feature tag",
        "samples": samples, "exhaustive": True, "classes": classes, "triples": len(tjobs),
        "magnitudes": mags, "array": arr,
        "tlc": {"table": [r1.distinct, r1.violated or "ok"], "compound": [r2.distinct, r2.violated or "ok"], "variants": [r3.distinct, r3.violated or "ok"]},
    })
    if c03_open:
        V.assumptions.append("unit texts with the two-letter prefix `da` are not used as long as the C03 finding prefix-two-letter is open")
    V.assumptions += ["magnitudes whose intermediate x*F(a) or result leaves 1e-300..1e300 are not decided; the reciprocal rule is not applied to x = 0",
                      "pairs whose rule is affine (temperature) or logarithmic belong to C05 and are counted unspecified here",
                      "an offset unit with an exponent other than 1 and equal or reciprocal dimensions (Cel2 -> K2) is unspecified",
                      "unit factors are the live table entries (tab terms); prefix factors come from the published prefix table"]
    C.cleanup(PID)
    return V.finish()
