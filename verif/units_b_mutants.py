"""Mutation matrix for C06 / C07 / C08 (self-test of the binding, not a registered check).

    /venv/bin/python -m verif.units_b_mutants [C06|C07|C08] [name-substring]

Each mutant is one textual replacement in a scratch copy of /repo/src (under /var/tmp/snt-ub-mut-*, removed afterwards);
the property's quick check is run with PYTHONPATH pointing at the copy and must exit 1 with at least one VIOLATION.
Nothing in /repo is touched."""
import os, shutil, subprocess, sys, tempfile

U = "scinumtools/units/"
MUTANTS = [
    # ---- C06
    ("C06", "rsub_swapped", U + "quantity.py",
     "    def __rsub__(self, other):\n        if not isinstance(other, Quantity):\n            other = Quantity(other)\n        return self._sub(other, self)",
     "    def __rsub__(self, other):\n        if not isinstance(other, Quantity):\n            other = Quantity(other)\n        return self._sub(self, other)"),
    ("C06", "product_subtracts_exponents", U + "quantity.py",
     "        magnitude = left.magnitude * right.magnitude\n        baseunits = left.baseunits + right.baseunits",
     "        magnitude = left.magnitude * right.magnitude\n        baseunits = left.baseunits - right.baseunits"),
    ("C06", "sum_in_right_operands_unit", U + "unit_types.py",
     "        return unit1.magnitude + unit2._convert(unit2.magnitude, unit2.baseunits, unit1.baseunits)\n\n    def sub",
     "        return unit1.to(unit2.baseunits).magnitude + unit2.magnitude\n\n    def sub"),
    ("C06", "cancelled_factor_not_folded", U + "quantity.py",
     "                    self.magnitude *= base.magnitude",
     "                    pass"),
    ("C06", "rtruediv_swapped", U + "quantity.py",
     "        return self._truediv(other, self)",
     "        return self._truediv(self, other)"),
    ("C06", "pair_exponent_inverted", U + "fraction.py",
     "            return Fraction(self.num*other[0], self.den*other[1])",
     "            return Fraction(self.num*other[1], self.den*other[0])"),
    ("C06", "dimension_check_dropped_for_inverse", U + "unit_types.py",
     "        if self.baseunits1.dimensions!=self.baseunits2.dimensions:\n            raise Exception('Only units with the same dimension can added together', unit1, unit2)\n        return unit1.magnitude + ",
     "        return unit1.magnitude + "),
    ("C06", "float_branch_exact_type_only", U + "fraction.py",      # seed C06-3 rebased onto 4f06f50
     "            return Fraction(self.num*other[0], self.den*other[1])\n        elif isinstance(other, (float, np.floating)) and not float(other).is_integer():",
     "            return Fraction(self.num*other[0], self.den*other[1])\n        elif type(other) is float and not float(other).is_integer():"),
    # ---- C07
    ("C07", "mul_shares_left_exponent_dict", U + "base_units.py",
     "    def __add__(self, other):\n        baseunits = dict(self.baseunits)",
     "    def __add__(self, other):\n        baseunits = self.baseunits"),
    ("C07", "value_converts_self_in_place", U + "quantity.py",
     "            value = self._convert(self.magnitude, self.baseunits, BaseUnits(expression)).value",
     "            value = self.to(expression).magnitude.value"),
    ("C07", "neg_negates_in_place", U + "quantity.py",
     "        return Quantity(-self.magnitude, self.baseunits)",
     "        self.magnitude.value = -self.magnitude.value\n        return Quantity(self.magnitude, self.baseunits)"),
    ("C07", "ufunc_result_shares_magnitude", U + "quantity.py",
     "        else:\n            return Quantity(ufunc(inputs[0].magnitude.value), inputs[0].baseunits)",
     "        else:\n            inputs[0].magnitude.value = ufunc(inputs[0].magnitude.value)\n            return Quantity(inputs[0].magnitude, inputs[0].baseunits)"),
    ("C07", "mul_converts_right_operand", U + "quantity.py",
     "        magnitude = left.magnitude * right.magnitude\n",
     "        if right.baseunits.dimensions == left.baseunits.dimensions and not left.baseunits.nodim:\n            right.to(left.baseunits)\n        magnitude = left.magnitude * right.magnitude\n"),
    ("C07", "to_mutates_magnitude_cell", U + "quantity.py",
     "            self.magnitude = self._convert(self.magnitude, self.baseunits, baseunits)\n        self.baseunits = baseunits",
     "            m = self._convert(self.magnitude, self.baseunits, baseunits)\n            self.magnitude.value, self.magnitude.error = m.value, m.error\n        self.baseunits = baseunits"),
    # ---- C08
    ("C08", "sum_error_takes_max", U + "magnitude.py",
     "        else:\n            error = left.error + right.error\n        return Magnitude(value, error)\n        \n    def __add__",
     "        else:\n            error = np.maximum(left.error, right.error)\n        return Magnitude(value, error)\n        \n    def __add__"),
    ("C08", "division_uses_product_formula", U + "magnitude.py",
     "            maxerror = np.abs((left.value+left.error)/(right.value-right.error) - value)\n            minerror = np.abs((left.value-left.error)/(right.value+right.error) - value)",
     "            maxerror = np.abs((left.value+left.error)*(right.value+right.error) - left.value*right.value)/right.value**2/100\n            minerror = maxerror"),
    ("C08", "neg_drops_error", U + "magnitude.py",
     "        return Magnitude(-self.value, self.error)",
     "        return Magnitude(-self.value)"),
    ("C08", "difference_subtracts_errors", U + "magnitude.py",
     "        else:\n            error = left.error + right.error\n        return Magnitude(value, error)\n        \n    def __sub__",
     "        else:\n            error = np.abs(left.error - right.error)\n        return Magnitude(value, error)\n        \n    def __sub__"),
    ("C08", "convert_scales_error_inversely", U + "unit_types.py",
     "            ratio = self.baseunits1.magnitude / self.baseunits2.magnitude",
     "            ratio = self.baseunits2.magnitude / self.baseunits1.magnitude"),
    ("C08", "mul_error_of_negative_values_signed", U + "magnitude.py",
     "            minerror = np.abs((left.value-left.error)*(right.value-right.error) - value)\n            error = np.max([maxerror,minerror])",
     "            minerror = (left.value-left.error)*(right.value-right.error) - value\n            error = np.max([maxerror,minerror]) if np.all(value > 0) else np.min([maxerror,minerror])"),
    ("C08", "exact_plus_exact_gets_zero_error", U + "magnitude.py",
     "        if left.error is None and right.error is None:\n            error = None\n        elif left.error is None and right.error is not None:\n            error = right.error * np.abs(left.value)",
     "        if left.error is None and right.error is None:\n            error = 0.0\n        elif left.error is None and right.error is not None:\n            error = right.error * np.abs(left.value)"),
]


def run_mutant(pid, name, rel, old, new, tests=False):
    scratch = tempfile.mkdtemp(prefix="snt-ub-mut-", dir="/var/tmp")
    try:
        shutil.copytree("/repo/src", os.path.join(scratch, "src"))
        path = os.path.join(scratch, "src", rel)
        text = open(path).read()
        if text.count(old) != 1:
            return f"{pid} {name}: pattern occurs {text.count(old)} times - mutant not applied"
        open(path, "w").write(text.replace(old, new))
        env = dict(os.environ, PYTHONPATH=os.path.join(scratch, "src"), VERIF_TIER="quick")
        chk = subprocess.run([sys.executable, "-c", "import scinumtools; print(scinumtools.__file__)"], env=env, capture_output=True, text=True)
        assert scratch in chk.stdout, chk.stdout + chk.stderr
        p = subprocess.run(["/verif/check", pid, "--tier", "quick"], env=env, capture_output=True, text=True, cwd="/verif")
        nviol = p.stdout.count("VIOLATION property=")
        line = [l for l in p.stdout.splitlines() if l.startswith(f"[{pid}]")]
        out = f"{pid} {name}: exit={p.returncode} VIOLATION lines={nviol} {'CAUGHT' if p.returncode == 1 and nviol else 'MISSED'}  {line[-1] if line else p.stderr[-300:]}"
        if tests:
            shutil.copytree("/repo/tests", os.path.join(scratch, "tests"))
            t = subprocess.run(["/venv/bin/python", "-m", "pytest", "-q", "-x", "tests/units", "-p", "no:cacheprovider"], env=env,
                               capture_output=True, text=True, cwd=scratch)
            out += "  | units tests: " + (t.stdout.strip().splitlines() or ["?"])[-1]
        return out
    finally:
        shutil.rmtree(scratch, ignore_errors=True)


if __name__ == "__main__":
    args = [a for a in sys.argv[1:] if not a.startswith("--")]
    want = args[0] if args else ""
    sub = args[1] if len(args) > 1 else ""
    for pid, name, rel, old, new in MUTANTS:
        if want and pid != want:
            continue
        if sub and sub not in name:
            continue
        print(run_mutant(pid, name, rel, old, new, tests="--tests" in sys.argv), flush=True)
    # the evidence files written by mutant runs are not evidence of the pinned tree
    print("note: re-run ./check for the touched properties to restore evidence/*.json and replays/")
