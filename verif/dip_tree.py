"""Shared engine for the line-level DIP specs (DipTree.tla / DipTreeGen.tla): used by C13 and C15.

TLC enumerates texts, evaluates the ideal and the machine transcription on each and emits a record;
the harness renders every record under several layouts, parses it with the real DIP and compares.

Verdict for one record (obs = what the real parser did):
  obs = ideal                                  -> ok
  text in the undocumented band                -> unspecified
  obs != ideal, obs = machine, dev class open  -> known finding (the code does exactly what the named
                                                  deviation of the machine predicts on this input)
  otherwise                                    -> VIOLATION
  obs = ideal != machine                       -> drift (the transcription is not the code any more)
"""
import json, os, random
from . import common as C
from . import dip_adapter as D


def proto(k, nm=(), c=False):
    return {"k": k, "nm": list(nm), "c": c}


def tla_proto(p):
    return f'[k |-> "{p["k"]}", nm |-> {C.tla_str(list(p["nm"]))}, c |-> {C.tla_str(bool(p["c"]))}]'


def mc_module(protos, known):
    return f"""---- MODULE DipTreeMC ----
EXTENDS DipTreeGen
MCProtos == {{{", ".join(tla_proto(p) for p in protos)}}}
MCKnown == {C.tla_str(set(known))}
====
"""


def cfg(maxind, maxlines, source, stride=64):
    return f"""CONSTANTS
  Stride = {stride}
  Protos <- MCProtos
  KnownDevs <- MCKnown
  MaxInd = {maxind}
  MaxLines = {maxlines}
  Emit = TRUE
  Source = "{source}"
  NameChars <- GenNameChars
  CharOrd <- GenCharOrd
INIT Init
NEXT Next
INVARIANT Refines
CHECK_DEADLOCK FALSE
"""


def run_tlc(wd, protos, known, maxind, maxlines, texts=None, stride=64):
    open(os.path.join(wd, "DipTreeMC.tla"), "w").write(mc_module(protos, known))
    if texts is None:
        return C.run_tlc(wd, "DipTreeMC", cfg(maxind, maxlines, "enum"), extra=["-continue"])
    f = os.path.join(wd, "texts.json")
    json.dump(texts, open(f, "w"))
    return C.run_tlc(wd, "DipTreeMC", cfg(maxind, 0, "file", stride), env={"DIP_IN": f}, extra=["-continue"])


def random_texts(rnd, protos, maxind, n, minlen, maxlen):
    out = []
    for _ in range(n):
        L = rnd.randint(minlen, maxlen)
        text, prev = [], -1
        for j in range(L):
            p = rnd.choice(protos)
            ind = rnd.randint(0, min(maxind, prev + 1))
            text.append({"k": p["k"], "ind": ind, "nm": list(p["nm"]), "v": j + 1, "c": bool(p["c"])})
            prev = ind
        out.append(text)
    return out


def block_texts(rnd, n, minblocks, maxblocks):
    """Long, mostly legal texts: a sequence of complete blocks (@case / nodes / [@case ..] / [@else ..] / @end), some nested
    one level, with nodes between the blocks.  Clause keywords run into two-digit case ids."""
    out = []
    for _ in range(n):
        text = []

        def add(k, ind, nm=(), c=False):
            text.append({"k": k, "ind": ind, "nm": list(nm), "v": len(text) + 1, "c": c})

        def block(ind, depth):
            add("case", ind, c=rnd.random() < 0.5)
            add("def", ind + 1, [rnd.choice("ab")])
            if depth < 1 and rnd.random() < 0.3:
                block(ind + 1, depth + 1)
            for _ in range(rnd.choice([0, 0, 1, 2])):
                add("case", ind, c=rnd.random() < 0.5)
                add(rnd.choice(["def", "mod"]), ind + 1, ["a"])
            if rnd.random() < 0.6:
                add("else", ind)
                add("def", ind + 1, [rnd.choice("ab")])
            if rnd.random() < 0.8:
                add("end", ind)
            else:
                add("def", ind, ["b"])          # closed by indentation
        add("def", 0, ["a"])
        for _ in range(rnd.randint(minblocks, maxblocks)):
            if len(text) > 34:          # TLC's recursion depth (JVM stack) bounds the text length
                break
            block(0, 0)
            if rnd.random() < 0.5:
                add(rnd.choice(["def", "mod"]), 0, [rnd.choice("ab")])
        out.append(text)
    return out


def observe(text, layout, seed, cond_expr):
    rnd = random.Random(seed)
    s = D.render_lines(text, rnd, layout, cond_expr)
    # every second rendering in per-parent widths is handed over in several add_string calls
    pieces = D.split_pieces(s, rnd) if layout == 4 and seed % 2 == 0 else None
    r = D.parse_dip(s, pieces=pieces)
    if pieces:
        s = "\n--- next add_string ---\n".join(pieces)
    if r[0] == "ok":
        try:
            return {"ok": True, "nodes": D.observe_nodes(r[1])}, s
        except Exception as e:
            return {"ok": False, "nodes": [], "err": "data(): " + type(e).__name__}, s
    return {"ok": False, "nodes": [], "err": r[1]}, s


def agrees(obs, exp):
    return obs["ok"] == exp["ok"] and (not exp["ok"] or D.same_nodes(obs["nodes"], exp["nodes"]))


def replay_record(rec):
    """-> (status, detail)"""
    layouts = rec.get("_layouts", [(0, False), (4, False), (1, True), (2, "ref")])
    first = None
    for k, (layout, cexpr) in enumerate(layouts):
        obs, s = observe(rec["text"], layout, rec["_seed"] + k, cexpr)
        if first is None:
            first = obs
        elif (obs["ok"], obs["nodes"]) != (first["ok"], first["nodes"]) and not rec["u"]:
            return ("violation", {"clause": "layout (indent width, blank lines, comments, condition as expression) changes the result",
                                  "text": s, "observed": obs, "expected": first, "known": False})
        if agrees(obs, rec["ideal"]):
            if not agrees(obs, rec["mach"]):
                return ("drift", {"text": s, "machine": rec["mach"], "observed": obs})
            continue
        if rec["u"]:
            return ("unspecified", None)
        return ("violation", {"clause": "result differs from the block-structured / indentation meaning of the text",
                              "text": s, "observed": obs, "expected": rec["ideal"],
                              "known": agrees(obs, rec["mach"]) and rec["dev"] != "none"})
    # the same text reached through `$source` + import inside a selected / an unselected clause of an outer block:
    # selected -> exactly the nodes of the text (or its failure), unselected -> nothing of it takes effect
    if rec.get("_sourced") and not rec["u"]:
        for selected in (True, False):
            obs, s = observe_sourced(rec["text"], selected)
            exp = rec["ideal"] if selected else {"ok": True, "nodes": []}
            if not agrees(obs, exp):
                return ("violation", {"clause": "a text sourced and imported inside a%s clause %s" % (" selected" if selected else "n unselected",
                                                "takes effect exactly as written" if selected else "has no effect"),
                                      "text": s, "observed": obs, "expected": exp, "known": False})
    return ("unspecified" if rec["u"] else "ok", None)


def observe_sourced(text, selected):
    os.makedirs(C.WORK, exist_ok=True)
    path = os.path.join(C.WORK, f"sourced.{os.getpid()}.dip")
    with open(path, "w") as f:
        f.write(D.render_lines(text, None, 0, False))
    s = f"@case {'true' if selected else 'false'}\n  $source s = {path}\n  {{s?*}}\n@end\n"
    r = D.parse_dip(s)
    try:
        os.remove(path)
    except OSError:
        pass
    if r[0] == "ok":
        try:
            return {"ok": True, "nodes": D.observe_nodes(r[1])}, s + "--- " + path + ":\n" + D.render_lines(text, None, 0, False)
        except Exception as e:
            return {"ok": False, "nodes": [], "err": "data(): " + type(e).__name__}, s
    return {"ok": False, "nodes": [], "err": r[1]}, s


def judge(V, recs, seed):
    for i, r in enumerate(recs):
        r["_seed"] = seed * 104729 + i
        r["_sourced"] = (i + seed) % 3 == 0 and len(r["text"]) >= 2
    res = C.pmap(replay_record, recs)
    for rec, (st, det) in zip(recs, res):
        if st == "violation":
            tags = ["dev:" + rec["dev"]] if det["known"] else ["not-the-machine-deviation"]
            scen = {k: rec[k] for k in ("text", "ideal", "mach", "dev", "u", "_seed")}
            V.fail(scen, det["expected"], det["observed"], det["clause"] + " :: " + det["text"].replace("\n", " | "),
                   tags=tags, failure=rec["dev"] if det["known"] else "other")
        elif st == "drift":
            V.drift(json.dumps(det)[:300])
        elif st == "unspecified":
            V.unspecified()
        else:
            V.ok()
    return res


def open_devs(V):
    devs = set()
    for f in V.findings.open:
        for t in f.get("tags", []):
            if t.startswith("dev:"):
                devs.add(t[4:])
    return devs
