"""C05 - temperature and logarithmic conversions follow their formulas and invert.

1. TLC (TemperatureGen): all ordered pairs of {K, kK, mK, Cel, degF, degR} x a grid of 40 rational inputs; the ideal
   (affine maps through kelvin, exact rationals) satisfies Identity / Inverse / Composition; the transcription of the
   ten pairwise formulas of TemperatureUnitType (machine) computes the same rational wherever a method exists.
2. TLC (LogUnitsGen): per documented bel-type unit the code's conversion table (generated into Tables.MLogTable),
   evaluated exactly on the lattice x = ref * 10^n, gives level k*n bels and back; dB <-> dB offsets of the table
   equal the offsets derived from the reference levels; every documented pair of sides (all admissible prefixes on
   the log side, none/m/u/k on the linear side, fraction form) gets an obligation term, exact lattice points,
   tolerance; level sums in every bel-type unit.
3. Replay: value() and to() on fresh objects for every temperature pair x grid (exact rational expectation), every
   log pair on and off the lattice (obligation terms with log10/ln/exp evaluated by the harness), arrays, round
   trips, u -> u identity for every unit of both families, level addition / subtraction.
"""
import json, os, random, zlib
import numpy as np
from . import common as C
from . import units_a_tables as T
from . import units_a_adapter as A

PID = "C05"
GRID = [(0, 1), (1, 1), (-40, 1), (25, 1), (37, 1), (100, 1), (212, 1), (300, 1), (451, 1), (1000, 1), (5000, 1), (20000, 1),
        (1, 2), (5, 2), (-1, 2), (27315, 100), (-27315, 100), (45967, 100), (-45967, 100), (49167, 100), (-1777, 100),
        (986, 10), (3, 1), (10, 1), (-10, 1), (-100, 1), (-200, 1), (-273, 1), (2, 1), (7, 3), (100, 3), (-50, 3),
        (273, 1), (274, 1), (32, 1), (-32, 1), (4, 1), (77, 1), (1234, 10), (99999, 100)]
TUNITS_Q = [("K", 0), ("K", 3), ("K", -3), ("Cel", 0), ("degF", 0), ("degR", 0)]
TUNITS_T = TUNITS_Q + [("K", 2), ("K", -2), ("K", -1)]
RESTS = [("", "Hz", -1), ("k", "Hz", -1), ("", "m", -2), ("c", "m", -2), ("", "min", -1)]
RESTS_T = RESTS + [("M", "Hz", -1), ("", "s", -1), ("m", "s", -1), ("", "sr", -1), ("k", "m", -2), ("", "h", -1)]
# inputs over the physically meaningful range: thermal noise is -174 dBm, attenuations / gains of 1e-18 .. 1e18
LEVELS_B = [-20.0, -17.4, -3.0, -0.35, 0.0, 0.602, 1.7, 3.9, 9.0, 15.0]         # levels in bels (harness-chosen inputs)
LINEARS = [1e-18, 4.0e-21, 2.2e-16, 1e-3, 0.5, 1.0, 7.389, 110.0, 1000.0, 1e15]   # positive linear magnitudes
LEVELS_B_T = LEVELS_B + [-12.0, -1.234, 0.05, 2.2, 6.66, 13.0]
LINEARS_T = LINEARS + [1e-9, 2.5e-7, 3.16228, 20e-6, 1e6, 4.2e9]
SUM_PAIRS = []      # level pairs of the spec (LogUnitsGen header), decibels: (a, b, difference defined?)
SUMS_DB = [(1, 2), (87, 83), (20, 23), (0, 0), (-10, -3), (30, 30), (6.5, 6.4), (-174, -171), (120, 118), (3, 3)]


def composite_devs():
    """open findings -> the composite tags the specs understand"""
    out = set()
    for f in C.Findings(PID).open:
        tg = set(f.get("tags", []))
        for head in ("identity", "same_unit"):
            if head in tg:
                for other in tg - {head}:
                    out.add(f"{head}:{other}")
        if "log_fraction_scaled" in tg:
            out.add("log_fraction_scaled")
    return out


def temp_mc(wd, grid):
    units = ", ".join(f'TU("{n}", {p})' for n, p in (TUNITS_Q if C.tier() == "quick" else TUNITS_T))
    with open(os.path.join(wd, "TempMC.tla"), "w") as f:
        f.write(f"---- MODULE TempMC ----\nEXTENDS TemperatureGen\nMCUnits == << {units} >>\nMCGrid == {{" +
                ", ".join(f"<<{n}, {d}>>" for n, d in grid) + "}\n====\n")


def strip_lemmas(cfg):
    """the same configuration with only the emission invariant: used to obtain ALL records when a lemma fails"""
    return "\n".join(l for l in cfg.splitlines() if not (l.startswith("INVARIANT") and "Emit" not in l)) + "\n"


def temp_cfg(devs):
    return f"""CONSTANTS
  OneChar = TRUE
  TUnits <- MCUnits
  Grid <- MCGrid
  KnownDevs = {C.tla_str(devs)}
  Emit = TRUE
INIT Init
NEXT Next
INVARIANT Identity
INVARIANT Inverse
INVARIANT Composition
INVARIANT StaysMeaningful
INVARIANT MachineRefines
INVARIANT EmitInv
CHECK_DEADLOCK FALSE
"""


def log_mc(wd):
    with open(os.path.join(wd, "LogMC.tla"), "w") as f:
        f.write("---- MODULE LogMC ----\nEXTENDS LogUnitsGen\nMCRests == << " +
                ", ".join(f'[p |-> "{p}", u |-> "{u}", e |-> {e}]' for p, u, e in (RESTS if C.tier() == "quick" else RESTS_T)) + " >>\n====\n")


def conv_devs():
    from . import c04
    return c04.known_devs()


def log_cfg(devs):
    return f"""CONSTANTS
  OneChar = TRUE
  ConvDevs = {C.tla_str(conv_devs())}
  KnownDevs = {C.tla_str(devs)}
  Emit = TRUE
  LatMax = 20
  LinPrefixes = {'{"m", "u", "k"}' if C.tier() == "quick" else '{"m", "u", "k", "M", "n", "c"}'}
  Rests <- MCRests
INIT Init
NEXT Next
INVARIANT LatticeOK
INVARIANT OffsetsOK
INVARIANT PairRefines
INVARIANT EmitInv
CHECK_DEADLOCK FALSE
"""


# ------------------------------------------------------------------ replay

UNCERT = []          # scenario class of the spec (LogUnitsGen header): [(kind, amount)]


def check_uncertain(u, v, xs, exps, rel, abs_):
    """a source that carries abse / rele: the converted VALUE is the conversion of the exact value"""
    nobs = 0
    for kind, amount in UNCERT:
        for x, e in list(zip(xs, exps))[:4] + ([(list(xs[:4]), list(exps[:4]))] if len(xs) > 1 else []):
            r = A.conv_uncertain(x, u, v, kind, amount); nobs += 2
            if r[0] != "val" or not A.close(r[1], e, rel, abs_) or not A.close(r[2], e, rel, abs_):
                return ("violation", "value_depends_on_error", {"expected": e, "observed": r[1:], "x": x, "uncertainty": [kind, amount],
                                                                "clause": "the value converted from a quantity with an uncertainty is the conversion of the exact value"}, nobs)
    return ("ok", None, None, nobs)


def check_pair(u, v, xs, exps, rel, abs_, optional=False):
    """value() and to() for each x (scalars), then one array; -> (status, failure, detail, nobs)"""
    nobs = 0
    for x, e in list(zip(xs, exps)) + ([(list(xs), list(exps))] if len(xs) > 1 else []):
        r1 = A.conv_value(x, u, v); r2 = A.conv_to(x, u, v); nobs += 2
        if r1[0] != "val" or r2[0] != "val":
            if optional and r1[0] != "val" and r2[0] != "val":
                return ("unspecified", None, None, nobs)
            return ("violation", "refused_valid", {"expected": e, "observed": {"value()": r1[:2], "to()": r2[:2]}, "x": x,
                                                   "clause": "the conversion is performed"}, nobs)
        if not A.close(r1[1], e, rel, abs_) or not A.close(r2[1], e, rel, abs_):
            return ("violation", "wrong_value", {"expected": e, "observed": {"value()": r1[1], "to()": r2[1]}, "x": x,
                                                 "clause": f"value follows the formula (rel {rel:g}, abs {abs_:g})"}, nobs)
        if not r1[2] or not r2[3]:
            return ("violation", "aliasing", {"expected": "value() leaves the quantity, to() converts it in place", "observed": [r1[2], r2[3]], "x": x,
                                              "clause": "value() out of place, to() in place"}, nobs)
    return ("ok", None, None, nobs)


_UNIT = None


def accessor_path(u, v, xs, exps, rel, abs_):
    """The documented second way of building a quantity: x * Unit().<symbol> on ONE accessor object per process,
    with an in-place .to(v) on the bare attribute in between (a legal use) - the quantities built before and
    after must convert alike.  -> (status, failure, detail, nobs)"""
    global _UNIT
    from scinumtools.units import Unit
    if not u.isidentifier():
        return ("ok", None, None, 0)
    if _UNIT is None:
        _UNIT = Unit()
    nobs = 0
    for phase in ("fresh accessor attribute", "after .to() on the bare attribute"):
        for x, e in zip(xs, exps):
            try:
                q = x * getattr(_UNIT, u)
                unit0 = q.baseunits.expression
                got = float(q.value(v)); nobs += 1
            except Exception as ex:
                return ("violation", "refused_valid", {"expected": e, "observed": repr(ex)[:160], "x": x,
                                                       "clause": f"x * Unit().{u} is the quantity x {u} ({phase})"}, nobs + 1)
            if unit0 != u or not A.close(got, e, rel, abs_):
                return ("violation", "wrong_value", {"expected": [e, u], "observed": [got, unit0], "x": x,
                                                     "clause": f"x * Unit().{u} is the quantity x {u} and converts by the formula ({phase})"}, nobs)
        try:
            getattr(_UNIT, u).to(v)
        except Exception:
            pass
    return ("ok", None, None, nobs)


def round_trip(u, v, xs, rel, abs_):
    from scinumtools.units import Quantity
    for x in xs:
        try:
            q = Quantity(x, u).to(v)
        except Exception as e:
            return ("skip", None)
        try:
            back = float(q.to(u).magnitude.value)
        except Exception as e:
            return ("violation", {"expected": x, "observed": repr(e)[:160], "x": x, "clause": f"{u} -> {v} is converted, so the reverse {v} -> {u} is and returns the original value"})
        if np.isfinite(back) and not A.close(back, x, rel, abs_):
            return ("violation", {"expected": x, "observed": back, "x": x, "clause": f"{u} -> {v} -> {u} returns the original value"})
    return ("ok", None)


def replay_temp(job):
    """job = (u, v, [records of this pair])"""
    u, v, recs = job
    xs = [r["x"][0] / r["x"][1] for r in recs]
    exps = [r["expect"][0] / r["expect"][1] for r in recs]
    st, failure, det, nobs = check_pair(u, v, xs, exps, 1e-9, 1e-9)
    if st == "ok" and all(r["mach_ok"] for r in recs):
        st, failure, det, n2 = accessor_path(u, v, xs[:3], exps[:3], 1e-9, 1e-9); nobs += n2
    if st == "ok" and all(r["mach_ok"] for r in recs):
        k = len(xs) // 2
        st, failure, det, n2 = check_uncertain(u, v, xs[k:k + 4], exps[k:k + 4], 1e-9, 1e-9); nobs += n2
    if st == "ok":
        rt = round_trip(u, v, xs, 1e-9, 1e-9); nobs += len(xs)
        if rt[0] == "violation":
            st, failure, det = "violation", "round_trip", rt[1]
    if st == "ok" and not all(r["mach_ok"] for r in recs):
        st, det = "drift", {"u": u, "v": v, "machine": "no conversion method", "observed": "converted"}
    return (st, failure, det, nobs)


def replay_log(rec):
    tabs = replay_log.tabs
    u, v, kind = rec["a"], rec["b"], rec["kind"]
    rel, abs_ = 10.0 ** rec["tol"][0], 10.0 ** rec["tol"][1]
    xs, exps = [], []
    for pt in rec["lattice"]:
        xs.append(float(A.ev(pt["x"], tabs))); exps.append(float(A.ev(pt["y"], tabs)))
    scale = float(A.ev(rec["scale"], tabs))
    thorough = C.tier() != "quick"
    if rec["positive"]:
        off = list(LINEARS_T if thorough else LINEARS)
    else:
        off = [L / scale for L in (LEVELS_B_T if thorough else LEVELS_B)]
        if kind in ("log_ratio",) and u.endswith("Np"):
            off = [L / scale for L in (-20.0, -1.0, -0.115, 0.0, 0.5, 1.0, 3.0, 20.0)]
    # seeded inputs on top of the fixed ones
    rnd = random.Random(C.seed() * 7919 + zlib.crc32((u + ">" + v).encode()))
    for _ in range(2 if not thorough else 6):
        off.append(10.0 ** rnd.uniform(-20, 20) if rec["positive"] else rnd.uniform(-20.0, 20.0) / scale)
    for x in off:
        with np.errstate(all="ignore"):
            e = float(A.ev(rec["expect"], tabs, np.float64(x)))
        if np.isfinite(e) and abs(e) < 1e300:
            xs.append(float(x)); exps.append(e)
    st, failure, det, nobs = check_pair(u, v, xs, exps, rel, abs_, optional=rec["optional"])
    if st == "ok" and not rec["optional"]:
        st, failure, det, n2 = accessor_path(u, v, xs[:3], exps[:3], rel, abs_); nobs += n2
    if st == "ok" and not rec["optional"]:
        k = len(rec["lattice"])                     # two lattice points and two off-lattice inputs
        st, failure, det, n2 = check_uncertain(u, v, xs[max(0, k - 2):k + 2], exps[max(0, k - 2):k + 2], rel, abs_); nobs += n2
    if st == "ok":
        # a linear magnitude must come back relatively exact (it may be 1e-20); a level may be 0
        rt = round_trip(u, v, xs, max(rel, 1e-9), 0.0 if rec["positive"] else 1e-9); nobs += len(xs)
        if rt[0] == "violation":
            st, failure, det = "violation", "round_trip", rt[1]
    if st == "ok" and rec["mach"] == "reject":
        st, det = "drift", {"a": u, "b": v, "machine": "reject", "observed": "converted"}
    return (st, failure, det, nobs)


def replay_sum(rec):
    tabs = replay_log.tabs
    from scinumtools.units import Quantity
    u = rec["a"]
    scale = float(A.ev(rec["scale"], tabs))
    alias = rec.get("alias", "distinct")
    nobs = 0
    pairs = list(SUM_PAIRS)
    if C.tier() == "quick":            # every difference with two seeded base levels; thorough: all pairs
        rs = random.Random(C.seed() * 31 + zlib.crc32((u + str(rec["sign"]) + alias).encode()))
        keep = set(rs.sample(sorted({p[0] if p[0] >= p[1] else p[1] for p in pairs}), 2))
        pairs = [p for p in pairs if max(p[0], p[1]) in keep]
    for a_db, b_db, subok in pairs + [(a, b, a > b) for a, b in SUMS_DB] + [(b, a, b > a) for a, b in SUMS_DB]:
        if rec["sign"] < 0 and not subok:
            continue
        x, y = a_db / 10.0 / scale, b_db / 10.0 / scale
        try:
            if alias == "same_object":            # one quantity on both sides of the operator
                q0 = Quantity(x, u)
                q = q0 + q0
                args = (x, x)
            elif alias == "sum_of_sum":           # the result of a level sum added to itself
                s0 = Quantity(x, u) + Quantity(y, u)
                sv = float(s0.magnitude.value)
                q = s0 + s0
                args = (sv, sv)
            else:
                qa, qb = Quantity(x, u), Quantity(y, u)
                q = (qa + qb) if rec["sign"] > 0 else (qa - qb)
                # the operands are quantities like any other: the same two objects combine to the same level again
                q_again = (qa + qb) if rec["sign"] > 0 else (qa - qb)
                if not A.close(float(q_again.magnitude.value), float(q.magnitude.value), 1e-12, 1e-12) and np.isfinite(float(q.magnitude.value)):
                    return ("violation", "wrong_value", {"expected": float(q.magnitude.value), "observed": float(q_again.magnitude.value), "x": [x, y], "operands": "used twice",
                                                         "clause": "a (+-) b of the same two operands gives the same level the second time"}, nobs + 2)
                args = (x, y)
            got = float(q.magnitude.value); unit = q.baseunits.expression; nobs += 1
        except Exception as ex:
            return ("violation", "refused_valid", {"expected": "a level", "observed": repr(ex)[:200], "x": [x, y], "clause": "levels in the same bel-type unit can be added / subtracted"}, nobs + 1)
        with np.errstate(all="ignore"):
            e = float(A.ev(rec["expect"], tabs, np.float64(args[0]), np.float64(args[1])))
        if not np.isfinite(e):
            continue
        if not A.close(got, e, 1e-9, 1e-9) or unit != u:
            return ("violation", "wrong_value", {"expected": [e, u], "observed": [got, unit], "x": list(args), "operands": alias,
                                                 "clause": "a (+-) b = 10 log10(10^(a/10) +- 10^(b/10)) dB, in the unit of the operands"}, nobs)
    return ("ok", None, None, nobs)


# ------------------------------------------------------------------ main

def run(replay=None):
    V = C.Verdicts(PID, "model_checking")
    data = T.live()
    replay_log.tabs = A.tabs_of(data)
    if replay:
        body = json.load(open(replay))
        s = body["scenario"]
        k = s.get("_kind")
        res = replay_temp((s["u"], s["v"], s["recs"])) if k == "temp" else replay_sum(s) if k == "sum" else replay_log(s)
        print(f"replay {replay}: {res[:3]}")
        if res[0] == "violation" and C.Findings(PID).match(s.get("tags", []), res[1]) is None:
            print(f"VIOLATION property={PID} replay={replay}")
            return 1
        return 0
    wd = C.workdir(PID)
    T.write(wd, data)
    tier = C.tier()
    devs = composite_devs()
    states = trans = 0
    nobs = 0
    classes = {}
    nontrivial = set()
    samples = []
    # 1. temperature
    rnd = C.rng(5)
    grid = list(GRID) + [(rnd.randint(-3000, 30000), rnd.choice([1, 2, 4, 5, 10, 100])) for _ in range(8 if tier == "quick" else 24)]
    temp_mc(wd, grid)
    r1 = C.run_tlc(wd, "TempMC", temp_cfg(devs))
    states += r1.distinct; trans += r1.generated
    if r1.violated:
        V.notes.append(f"TLC: {r1.violated} fails on the temperature model: " + r1.cex[:500])
        r1e = C.run_tlc(wd, "TempMC", strip_lemmas(temp_cfg(devs)))          # all records, lemmas aside
        r1.records = r1e.records
    # 2. logarithmic units
    log_mc(wd)
    r2 = C.run_tlc(wd, "LogMC", log_cfg(devs))
    states += r2.distinct; trans += r2.generated
    if r2.violated:
        V.notes.append(f"TLC: {r2.violated} fails on the logarithmic-unit model (code table vs documented definitions): " + r2.cex[:700])
        # the lattice lemma failing means the code's table contradicts the documented definitions; the replay
        # below shows it through the API on the same pairs (all records, lemmas aside)
        r2e = C.run_tlc(wd, "LogMC", strip_lemmas(log_cfg(devs)))
        r2.records = r2e.records
    hdr = [x for x in r2.records if x.get("st") == "header"]
    if not hdr:
        raise C.MachineryError("LogUnitsGen emitted no header record")
    UNCERT[:] = [(k, float(A.ev(t, replay_log.tabs))) for k, t in hdr[0]["uncertainties"]]
    SUM_PAIRS[:] = [(p["a"][0] / p["a"][1], p["b"][0] / p["b"][1], bool(p["sub"])) for p in hdr[0]["sum_pairs"]]
    # history: a unit environment that declares custom units with the BUILT-IN conversion types was opened and
    # closed earlier in this process; the built-in conversions below must still be the ones of the property
    try:
        from scinumtools.units import UnitEnvironment
        from scinumtools.units.unit_types import TemperatureUnitType, LogarithmicUnitType
        with UnitEnvironment({"vfyT": {"magnitude": 1, "dimensions": [0, 0, 0, 1, 0, 0, 0, 0], "definition": TemperatureUnitType},
                              "vfyL": {"magnitude": 1, "dimensions": [0, 0, 0, 0, 0, 0, 0, 0], "definition": LogarithmicUnitType}}):
            pass
        V.assumptions.append("a UnitEnvironment with custom units of TemperatureUnitType / LogarithmicUnitType was opened and closed before the replay")
    except Exception as e:
        V.notes.append("unit environment with built-in conversion types could not be opened: " + repr(e)[:120])
    pairs = {}
    for x in r1.records:
        pairs.setdefault((x["u"], x["v"]), []).append(x)
    tjobs = [(u, v, recs) for (u, v), recs in sorted(pairs.items())]
    tres = [replay_temp(j) for j in tjobs] if len(tjobs) < 64 else C.pmap(replay_temp, tjobs)
    for (u, v, recs), r in zip(tjobs, tres):
        st, failure, det, n = r
        nobs += n
        classes["temp"] = classes.get("temp", 0) + len(recs)
        for x in recs:
            if u != v:
                nontrivial.add(("temp", u, v, tuple(x["x"])))
        if st == "violation":
            V.fail({"_kind": "temp", "u": u, "v": v, "recs": recs, "tags": recs[0]["tags"]}, det.get("expected"), det.get("observed"),
                   det["clause"] + f" :: Quantity({det.get('x')}, {u!r}) -> {v!r}", tags=list(recs[0]["tags"]), failure=failure)
        elif st == "drift":
            V.drift(json.dumps(det)[:300])
        else:
            V.ok(len(recs))
    samples += [{k: x[k] for k in ("u", "v", "x", "expect", "tags")} for x in r1.records[40:42]]
    precs = [x for x in r2.records if x.get("st") in ("pair", "frac")]
    srecs = [x for x in r2.records if x.get("st") == "sum"]
    res = C.pmap(replay_log, precs)
    for rec, r in zip(precs, res):
        st, failure, det, n = r
        nobs += n
        classes["log:" + rec["kind"]] = classes.get("log:" + rec["kind"], 0) + 1
        if rec["a"] != rec["b"]:
            nontrivial.add(("log", rec["a"], rec["b"]))
        if st == "violation":
            V.fail(dict(rec, _kind="log"), det.get("expected"), det.get("observed"),
                   det["clause"] + f" :: Quantity({det.get('x')}, {rec['a']!r}) -> {rec['b']!r} [{rec['kind']}]", tags=list(rec["tags"]), failure=failure)
        elif st == "drift":
            V.drift(json.dumps(det)[:300])
        elif st == "unspecified":
            V.unspecified()
        else:
            V.ok()
    sres = [replay_sum(x) for x in srecs]
    for rec, r in zip(srecs, sres):
        st, failure, det, n = r
        nobs += n
        classes["sum"] = classes.get("sum", 0) + 1
        nontrivial.add(("sum", rec["a"], rec["sign"]))
        if st == "violation":
            V.fail(dict(rec, _kind="sum"), det.get("expected"), det.get("observed"), det["clause"] + f" :: {rec['a']} {det.get('x')}",
                   tags=list(rec["tags"]), failure=failure)
        else:
            V.ok()
    samples += [{k: x[k] for k in ("a", "b", "kind", "expect", "lattice", "tol", "tags")} for x in
                [y for y in precs if y["kind"] == "log_lin"][:1] + [y for y in precs if y["st"] == "frac"][:1]]
    samples += [{k: x[k] for k in ("a", "sign", "alias", "expect")} for x in srecs[:1]]
    unref = [x for x in precs if x["mach"] == "reject" and not x["optional"] and not x["known"]]
    if unref:
        V.notes.append(f"TLC: the code's table has no conversion for {len(unref)} documented pair(s), e.g. {unref[0]['a']} -> {unref[0]['b']}")
    if (r1.violated or r2.violated or unref) and V.counts["violation"] == 0:
        V.drift("a TLC lemma / machine-vs-ideal counterexample was not reproduced by the code")
    V.cov.update({
        "states": states, "transitions": trans,
        "traces_validated_against_impl": len(r1.records) + len(precs) + len(srecs),
        "evaluations": nobs, "distinct_nontrivial": len(nontrivial),
        "rule": f"temperature: all ordered pairs of {len(TUNITS_Q if tier == 'quick' else TUNITS_T)} temperature units (K with prefixes, Cel, degF, degR) x {len(grid)} rational inputs (40 fixed + seeded) at or above absolute zero (TLC, exact "
                "rationals, exhaustive); logarithmic: every documented bel-type unit on the lattice ref*10^n, n in -20..20 (TLC, exact), every "
                "documented pair of sides with all admissible prefixes on the log side and none/m/u/k on the linear side (levels -200..+150 dB, linear magnitudes 1e-21..1e20), fraction forms with "
                f"{len(RESTS if tier == 'quick' else RESTS_T)} denominators, same-unit and derived dB<->dB pairs, on 9 lattice points and 10-12 off-lattice inputs each, level "
                "sums and differences in every bel-type unit over level pairs whose difference spans 0..200 dB in both orders, also of a quantity with itself and of a sum with itself; single-symbol sources also built as "
                "x * Unit().<symbol> on one accessor object per process, before and after an in-place .to() on the bare attribute; non-trivial = distinct (pair, input) with different units / distinct log pairs / sums",
        "samples": samples, "exhaustive": True, "classes": classes,
        "tlc": {"temperature": [r1.distinct, r1.violated or "ok"], "log": [r2.distinct, r2.violated or "ok"]},
    })
    V.assumptions += ["reference levels of the dB-type units are the documented / standard ones (1 mW, 1 W, 1 V, 1 uV, 1 A, 1 uA, 1 Ohm, 20 uPa, 1e-12 W/m2, 1e-12 W)",
                      "the direct B <-> Np constant is compared with relative tolerance 1e-4 (the documentation pins four digits; the code's 1.151277918 differs from ln(10)/2 by 1.3e-5)",
                      "inputs below absolute zero and non-positive linear levels are not generated",
                      "dB <-> dB conversions between units with a common counterpart that the library refuses (dBA <-> dBuA, dBSWL <-> dBW) are unspecified; where it converts, the derived offset must hold",
                      "NumPy log10/log/exp/power evaluate the obligation terms (rel 1e-9, abs 1e-9)"]
    C.cleanup(PID)
    return V.finish()
