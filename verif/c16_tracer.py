"""C16, code -> spec: the repository's own DIP tests run under a tracer; TLC judges every returned environment.

PLUGIN is a pytest plugin (copied into the work directory, loaded with `-p verif_c16_tracer`; nothing in /repo is
touched).  It wraps DIP.parse at run time and records
  * for every parse that RETURNS: the nodes of the returned environment with the attributes the property talks
    about (type, final value, unit, declared options with their units, condition, format, dimension bounds,
    constant flag, declared-without-value flag), as plain text / numbers,
  * for every parse that RAISES: the exception class.
project() turns the raw records into the literals of spec/DipConstraints.tla (exact rationals, the condition
expression as comparison atoms, the pattern/value relation according to Python's re) or marks what the spec
cannot represent with a reason.  spec/DipConstraintsTrace.tla - TLC, not Python - says whether each returned
environment satisfies every declared constraint.
"""
import json, math, os, re, subprocess
from fractions import Fraction
from decimal import Decimal

PLUGIN = r'''
import json, os
_RECS = []
def _plain(v):
    try:
        import numpy as np
        if isinstance(v, np.generic):
            v = v.item()
        elif isinstance(v, np.ndarray):
            v = v.tolist()
    except Exception:
        pass
    return v
def _val(v):
    """final value -> JSON: numbers as repr text (exact), lists as their shape"""
    v = _plain(v)
    if v is None:
        return {"k": "none"}
    if isinstance(v, bool):
        return {"k": "bool", "b": v}
    if isinstance(v, (int, float)):
        return {"k": "num", "text": repr(v)}
    if isinstance(v, str):
        return {"k": "str", "s": v}
    if isinstance(v, (list, tuple)):
        import numpy as np
        try:
            return {"k": "arr", "shape": [int(x) for x in np.shape(v)]}
        except Exception:
            return {"k": "opaque", "why": "ragged array"}
    return {"k": "opaque", "why": type(v).__name__}
def _node(n):
    d = {"name": n.name, "kw": n.keyword, "units_raw": n.units_raw, "defined": bool(n.defined),
         "constant": bool(getattr(n, "constant", False)),
         "dimension": [[a, b] for a, b in n.dimension] if n.dimension else [],
         "condition": getattr(n, "condition", None), "format": getattr(n, "format", None),
         "hasvalue": n.value is not None, "options": []}
    if n.value is not None:
        d["value"] = _val(getattr(n.value, "value", n.value))
        d["value_unit"] = getattr(n.value, "unit", None)
    for o in (getattr(n, "options", None) or []):
        ov = getattr(o.value, "value", None)
        d["options"].append({"value_raw": o.value_raw if isinstance(o.value_raw, str) else repr(o.value_raw),
                             "raw_is_text": isinstance(o.value_raw, str),
                             "units_raw": o.units_raw, "value": _val(ov)})
    return d
def pytest_configure(config):
    from scinumtools.dip import dip as M
    orig = M.DIP.parse
    def parse(self):
        try:
            env = orig(self)
        except BaseException as e:
            _RECS.append({"raised": type(e).__name__})
            raise
        try:
            _RECS.append({"nodes": [_node(n) for n in env.nodes]})
        except Exception as e:                      # the projection must never disturb the test
            _RECS.append({"tracer_error": type(e).__name__ + ": " + str(e)[:200]})
        return env
    M.DIP.parse = parse
def pytest_sessionfinish(session):
    json.dump(_RECS, open(os.environ["VERIF_C16_TRACE_RAW"], "w"))
'''

NUM = re.compile(r'^[+-]?(\d+\.?\d*|\.\d+)([eE][+-]?\d+)?$')
LIM = 2 ** 31 - 1


# ----------------------------------------------------------------------------- raw record -> spec literals

def _frac(text):
    """Exact rational of a decimal text, or None."""
    if not isinstance(text, str) or not NUM.match(text.strip()):
        return None
    return Fraction(Decimal(text.strip()))


def _snap(text):
    """An observed float: its exact decimal; beyond 32 bits, the decimal with 9 significant digits
    (observations are compared by value with the relative tolerance 1e-9)."""
    f = _frac(text)
    if f is None:
        return None
    if abs(f.numerator) <= LIM and f.denominator <= LIM:
        return f
    d = Decimal(text.strip())
    q = +d.normalize(__import__("decimal").Context(prec=9))
    return Fraction(q)


def _numlit(f, unit):
    return {"t": "num", "n": [f.numerator, f.denominator], "u": unit or "", "k": 0}


def unit_table(specdir):
    """The unit factors the SPEC owns (read from DipConstraints.tla; used only for the overflow guard)."""
    src = open(os.path.join(specdir, "DipConstraints.tla")).read()
    row = re.search(r'^UnitF == \[(.*)\]$', src, re.M).group(1)
    return {m.group(1): Fraction(int(m.group(2)), int(m.group(3)))
            for m in re.finditer(r'(\w+) \|-> <<(\d+), (\d+)>>', row)}


def _fits(nums, factors):
    """Would TLC's 32-bit integers overflow while comparing these numbers?  nums: [(Fraction, unit, node unit)].
    Mirrors the products of Base / QEq / QLt / QSub / NearBases conservatively."""
    bases = []
    for f, u, nu in nums:
        if u and nu and u != nu and u in factors and nu in factors:
            if max(abs(f.numerator), f.denominator) * 1000 > LIM:
                return False
            f = f * factors[u] / factors[nu]
        bases.append(f)
    for x in bases:
        for y in bases:
            if max(abs(x.numerator * y.denominator), abs(y.numerator * x.denominator)) > LIM:      # QEq, QLt
                return False
            if x != y and x != 0 and y != 0:                                                       # QSub, NearBases
                d = x - y
                if max(x.denominator * y.denominator, abs(x.numerator * y.denominator - y.numerator * x.denominator),
                       abs(d.numerator) * 10000 * y.denominator, abs(y.numerator) * d.denominator) > LIM:
                    return False
    return True


ATOM = re.compile(r'^\s*(?:(\{\?\})\s*(==|!=|<=|>=|<|>)\s*(.+?)|(.+?)\s*(==|!=|<=|>=|<|>)\s*(\{\?\}))\s*$')


def _lit(text):
    """literal of a condition: number [unit] | 'str' | "str" | true | false"""
    t = text.strip()
    if t in ("true", "false"):
        return {"t": "bool", "b": t == "true"}
    if len(t) >= 2 and t[0] == t[-1] and t[0] in "'\"":
        return {"t": "str", "s": t[1:-1]}
    parts = t.split()
    if 1 <= len(parts) <= 2:
        f = _frac(parts[0])
        if f is not None and abs(f.numerator) <= LIM and f.denominator <= LIM:
            return _numlit(f, parts[1] if len(parts) == 2 else "")
    return None


def parse_condition(expr):
    """`{?} op lit`, `lit op {?}`, `{?}` joined by && only or || only -> the cond record of the spec."""
    if "(" in expr or ")" in expr or "{" in expr.replace("{?}", ""):
        return {"opaque": "parentheses or references to other nodes", "join": "one", "atoms": []}
    if "&&" in expr and "||" in expr:
        return {"opaque": "mixed && and ||", "join": "one", "atoms": []}
    join = "and" if "&&" in expr else "or" if "||" in expr else "one"
    parts = expr.split("&&") if join == "and" else expr.split("||") if join == "or" else [expr]
    atoms = []
    for part in parts:
        if part.strip() == "{?}":
            atoms.append({"op": "is", "left": "self", "lit": {"t": "bool", "b": True}})
            continue
        m = ATOM.match(part)
        if not m:
            return {"opaque": "not a comparison with {?}", "join": "one", "atoms": []}
        if m.group(1):
            op, left, lt = m.group(2), "self", m.group(3)
        else:
            op, left, lt = m.group(5), "lit", m.group(4)
        lit = _lit(lt)
        if lit is None or "{?}" in lt:
            return {"opaque": "literal is not a number, string or boolean", "join": "one", "atoms": []}
        atoms.append({"op": op, "left": left, "lit": lit})
    return {"opaque": "", "join": join, "atoms": atoms}


def fmt_class(pat, s):
    try:
        if re.fullmatch(pat, s):
            return "full"
        if re.match(pat, s):
            return "prefix"
        if re.search(pat, s):
            return "inner"
        return "none"
    except re.error:
        return "opaque"


def project_node(n, factors, why):
    """raw node -> node record of DipConstraintsTrace.tla; `why` collects reasons for opaque parts."""
    nu = n["units_raw"] or ""
    out = {"name": n["name"], "ty": n["kw"], "nu": nu, "declared": n["defined"], "hasvalue": n["hasvalue"],
           "constant": n["constant"], "u": "",
           "dims": [[-1 if a is None else a, -1 if b is None else b] for a, b in n["dimension"]],
           "val": {"t": "none"}, "opts": [], "conds": [], "fmts": []}
    nums = []
    if n["hasvalue"]:
        v = n["value"]
        if v["k"] == "num":
            f = _snap(v["text"])
            if f is None or abs(f.numerator) > LIM or f.denominator > LIM:
                out["val"] = {"t": "opaque"}; why["value is not a 32-bit decimal rational"] += 1
            elif (n.get("value_unit") or "") != nu:
                out["val"] = {"t": "opaque"}; why["value carries another unit than the node"] += 1
            else:
                out["val"] = _numlit(f, nu); nums.append((f, nu, nu))
        elif v["k"] == "str":
            out["val"] = {"t": "str", "s": v["s"]}
        elif v["k"] == "bool":
            out["val"] = {"t": "bool", "b": v["b"]}
        elif v["k"] == "arr":
            out["val"] = {"t": "arr", "shape": v["shape"], "dm": []}
        elif v["k"] == "none":
            out["val"] = {"t": "none"}
        else:
            out["val"] = {"t": "opaque"}; why["value: " + v.get("why", "?")] += 1
    for o in n["options"]:
        if o["value"]["k"] == "str":
            out["opts"].append({"t": "str", "s": o["value"]["s"]})
            continue
        f = _frac(o["value_raw"]) if o["raw_is_text"] else None
        if f is None or abs(f.numerator) > LIM or f.denominator > LIM:
            out["opts"].append({"t": "opaque"}); why["option is not written as a decimal literal"] += 1
        else:
            out["opts"].append(_numlit(f, o["units_raw"])); nums.append((f, o["units_raw"] or "", nu))
    if n["condition"]:
        c = parse_condition(n["condition"])
        if c["opaque"]:
            why["condition: " + c["opaque"]] += 1
        for a in c["atoms"]:
            if a["lit"]["t"] == "num":
                nums.append((Fraction(*a["lit"]["n"]), a["lit"]["u"], nu))
        out["conds"].append(c)
    if n["format"]:
        s = out["val"].get("s") if out["val"]["t"] == "str" else None
        out["fmts"].append({"pat": n["format"], "end": n["format"].endswith("$"),
                            "cls": fmt_class(n["format"], s) if s is not None else "opaque"})
    if len(nums) > 1 and not _fits(nums, factors):
        out["u"] = "numbers beyond the 32-bit rationals of TLC"
        why[out["u"]] += 1
    return out


# ----------------------------------------------------------------------------- run + judge

def run_testsuite(C, wd, tests=("tests/dip",)):
    """Run the tests under the tracer. -> raw records (list)"""
    with open(os.path.join(wd, "verif_c16_tracer.py"), "w") as f:
        f.write(PLUGIN)
    raw = os.path.join(wd, "c16_trace_raw.json")
    env = dict(os.environ, VERIF_C16_TRACE_RAW=raw, PYTHONWARNINGS="ignore",
               PYTHONPATH=wd + os.pathsep + os.environ.get("PYTHONPATH", ""))
    p = subprocess.run(["/venv/bin/python", "-m", "pytest", "-q", "-p", "no:cacheprovider", "-p", "verif_c16_tracer", *tests],
                       cwd=C.REPO, env=env, stdout=subprocess.PIPE, stderr=subprocess.STDOUT, text=True, timeout=900)
    if not os.path.exists(raw):
        raise C.MachineryError("C16 tracer run produced no trace file:\n" + p.stdout[-2000:])
    recs = json.load(open(raw))
    if not any("nodes" in r for r in recs):
        raise C.MachineryError("no returning DIP.parse was recorded while running the repository's tests")
    return recs, p.stdout.strip().splitlines()[-1] if p.stdout.strip() else ""


TRACE_CFG = """CONSTANTS
  Families <- TFamilies
  FmtTable <- TFmtTable
  FmtOrder <- TFmtOrder
  StrOrder <- TStrOrder
  Ks <- TKs
  Devs <- TDevs
  MaxMods = 0
  MaxCons = 0
  Rich = FALSE
  DoEmit = FALSE
INIT TInit
NEXT TNext
INVARIANT Judge
CHECK_DEADLOCK FALSE
"""

TRACE_MC = """---- MODULE DipConstraintsTraceMC ----
EXTENDS DipConstraintsTrace
TFamilies == {}
TFmtTable == <<>>
TFmtOrder == <<"a", "b", "c">>
TStrOrder == <<"a", "b", "c", "d", "e">>
TKs == {0}
TDevs == {}
====
"""


def judge(C, wd, recs):
    """-> (list of dict(env, verdict, nodes, tags) for returned environments, reasons Counter, TLC result)"""
    import collections
    factors = unit_table(C.SPEC)
    why = collections.Counter()
    envs = []
    for i, r in enumerate(recs):
        if "nodes" in r:
            envs.append({"id": i, "nodes": [project_node(n, factors, why) for n in r["nodes"]]})
    path = os.path.join(wd, "c16_trace.json")
    json.dump(envs, open(path, "w"))
    with open(os.path.join(wd, "DipConstraintsTraceMC.tla"), "w") as f:
        f.write(TRACE_MC)
    r = C.run_tlc(wd, "DipConstraintsTraceMC", TRACE_CFG, env={"C16_TRACE": path}, workers=2)
    if r.violated:
        raise C.MachineryError("DipConstraintsTrace: " + r.cex[:2000])
    byid = {x["id"]: x for x in r.records}
    if len(byid) != len(envs):
        raise C.MachineryError(f"TLC judged {len(byid)} of {len(envs)} recorded environments")
    out = [{"env": e, "verdict": byid[e["id"]]["verdict"], "nodes": byid[e["id"]]["nodes"], "tags": byid[e["id"]]["tags"]}
           for e in envs]
    return out, why, r
