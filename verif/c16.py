"""C16 - parse() returns only environments that satisfy every declared constraint.

1. TLC explores spec/DipConstraints.tla: every program (one node of type int|float|str|bool, defined or
   declared, 0-2 modifications in the node's or another unit, 0-3 constraint lines: options per line,
   !options lists, !condition with {?}, !format, array dimension bounds of rank 1-3 mixing exact / interval / half-open /
   free dimensions in every order; constraint lines after the definition or after a modification, with or
   without a second node in between; the node addressed directly or defined in a group / a $source file,
   imported by `{?group.*}` / `{src?*}` and modified as the imported copy) of the bounded pools,
   with final values on / next to / off every boundary.  For each program TLC computes the IDEAL verdict
   (accept / reject / unspecified, exact rationals, the 1e-6 precision on an integer ulp scale), the
   MACHINE's prediction (a transcription of the validation loop of DIP.parse with named deviations) and
   the deviations that decide the difference, checks that the machine WITHOUT its named deviations is
   the ideal (invariant DevsExplain - the deviation list is complete), and prints one record per program
   with the obligations to re-check on the returned data.
2. Every record is rendered to DIP text (names, nesting, quotes, comments, order of constraint kinds
   chosen by VERIF_SEED), parsed by the real `DIP().add_string(text); parse()`, and the observation
   (returns / raises, `env.data()`) is compared with the ideal (verdict) and the machine (drift).

3. Code -> spec: the repository's own DIP tests run under a tracer (verif/c16_tracer.py, a pytest plugin that
   wraps DIP.parse; nothing in /repo is touched); every environment a parse RETURNS is projected to the
   vocabulary of the spec (per node: type, final value, unit, declared options, condition, format, dimension
   bounds, declared flag) and TLC judges it with the same ideal operators (spec/DipConstraintsTrace.tla).
   A returned environment with a node that violates a declared constraint is a VIOLATION.

Verdict: observed != ideal is a VIOLATION unless the code behaves exactly as the machine predicts and an
open known finding's tags are among the record's deviation tags.  observed = ideal != machine is drift.
"""
import json, os, sys, collections
from . import common as C
from . import c16_adapter as A
from . import c16_tracer as T

PID = "C16"
ALL_DEVS = ["cond_skipped_str", "cond_skipped_bool", "bare_equality", "ne_exact", "int_literal_cast",
            "attach_last_appended", "last_condition_wins", "last_format_wins", "dims_each_assignment",
            "format_prefix_match"]


# deviations that only move a program inside the unspecified bands: always part of the machine
BAND_DEVS = ["last_condition_wins", "last_format_wins", "dims_each_assignment", "format_prefix_match"]


def machine_devs():
    """The machine transcribes the CURRENT tree: a named deviation is switched on while its finding is open
    (each finding of known_findings names its deviation); a finding marked fixed switches it off."""
    fixed = {f.get("deviation") for f in C.load_findings() if f["property"] == PID and f["status"] == "fixed"}
    # trying a proposed repair on a scratch copy: VERIF_C16_DEVS_OFF=dev1,dev2 switches further deviations off
    fixed |= set(filter(None, os.environ.get("VERIF_C16_DEVS_OFF", "").split(",")))
    return [d for d in ALL_DEVS if d not in fixed]


def families(tier):
    fam = [("float", "m", False), ("float", "", False), ("int", "m", False), ("int", "", False),
           ("str", "", False), ("bool", "", False),
           ("int", "", True), ("float", "m", True), ("str", "", True), ("bool", "", True)]
    if tier != "quick":
        fam += [("int", "km", False), ("float", "s", False), ("float", "km", False), ("int", "s", False), ("float", "", True), ("int", "m", True)]
    return fam


def family_groups(tier):
    """One TLC run per group (bounds the size of one batch of records)."""
    fam = families(tier)
    if tier == "quick":
        return [fam]
    return [fam[i:i + 3] for i in range(0, len(fam), 3)]


def mc_module(tier, fams=None):
    fams = ", ".join(f'[ty |-> "{t}", nu |-> "{u}", arr |-> {C.tla_str(a)}]' for t, u, a in (fams or families(tier)))
    rows = []
    for pat in A.FMT_PATTERNS:
        cls = " @@ ".join(f'({json.dumps(s)} :> "{A.fmt_class(pat, s)}")' for s in A.FMT_STRINGS)
        rows.append(f'({json.dumps(pat)} :> [end |-> {C.tla_str(pat.endswith("$"))}, cls |-> ({cls})])')
    ks = [-12, 0, 3, 9, 10, 12] if tier == "quick" else [-12, -11, -10, -9, -3, -1, 0, 1, 3, 9, 10, 11, 12]
    return f"""---- MODULE DipConstraintsMC ----
EXTENDS DipConstraints
MCFamilies == {{{fams}}}
MCFmtTable == {" @@ ".join(rows)}
MCFmtOrder == {C.tla_str(A.FMT_PATTERNS)}
MCStrOrder == {C.tla_str(A.FMT_STRINGS)}
MCKs == {C.tla_str(set(ks))}
MCDevs == {C.tla_str(set(machine_devs())) if machine_devs() else "{}"}
====
"""


def cfg(tier, emit=True, inv="DevsExplain"):
    return f"""CONSTANTS
  Families <- MCFamilies
  FmtTable <- MCFmtTable
  FmtOrder <- MCFmtOrder
  StrOrder <- MCStrOrder
  Ks <- MCKs
  Devs <- MCDevs
  MaxMods = {1 if tier == "quick" else 2}
  MaxCons = 3
  Rich = {C.tla_str(tier != "quick")}
  DoEmit = {C.tla_str(emit)}
SPECIFICATION Spec
INVARIANT {inv}
INVARIANT EmitInv
CHECK_DEADLOCK FALSE
"""


# ----------------------------------------------------------------------------- replay of one record

def replay_record(rec):
    """-> dict(status, ...) ; status in ok | violation | unspecified | drift"""
    p = rec["p"]
    r = A.render(p, rec["_seed"])
    kind, obs = A.observe(r["text"], r["files"], r["text2"])
    ideal, mach = rec["ideal"], rec["mach"]
    shown = r["text"] + "".join(f"--- file {fn}:\n{c}" for fn, c in r["files"].items())
    if r["text2"] is not None:
        shown += "--- second text, parsed by DIP(env) on the returned environment:\n" + r["text2"]
    out = {"text": shown, "observed": kind, "detail": obs if kind == "reject" else None}
    drift = mach in ("accept", "reject") and kind != mach
    if ideal == "unspec":
        out["status"] = "unspecified"
        out["drift"] = drift
        return out
    if kind != ideal:
        out["status"] = "violation"
        out["failure"] = "accepted_violating" if kind == "accept" else "rejected_satisfying"
        out["clause"] = ("a final value that violates a constraint (or a declared node without value) => parse() fails"
                         if kind == "accept" else "all constraints hold of the final value => parse() returns")
        out["as_machine"] = (kind == mach)
        if kind == "accept":
            out["data"] = obs
        return out
    if kind == "accept":
        bad = A.failing(rec["obl"], obs, r["path"])
        if not bad and p["by"]["t"] != "nil":
            bad = ["bystander: " + b for b in A.failing(_own_value(p, p["by"]), obs, r["bypath"])]
        if not bad and r["origpath"]:
            # the original of a local import stays in the environment with the value of its definition
            bad = ["original: " + b for b in A.failing(_own_value(p, p["def"]), obs, r["origpath"])]
        if bad:
            out["status"] = "violation"
            out["failure"] = "returned_data"
            out["clause"] = "the returned environment's data satisfy the constraints: " + "; ".join(bad[:3])
            out["as_machine"] = False
            out["data"] = obs
            return out
    out["status"] = "drift" if drift else "ok"
    return out


def _own_value(p, l):
    """Obligation 'the node holds the literal l' for a literal written in the node's own unit (bystander,
    original of an import): its base in node units is its mantissa."""
    if l["t"] == "num":
        return [{"o": "value", "b": l["n"], "k": l["k"], "unit": p["nu"]}]
    if l["t"] == "arr":
        return [{"o": "shape", "shape": l["shape"]}]
    return [{"o": "value", "lit": l}]


def testsuite_envs(C_, wd):
    recs, summary = T.run_testsuite(C_, wd)
    judged, why, rt = T.judge(C_, wd, recs)
    return judged, why, rt, recs, summary


def u_reason(n):
    """Label (statistics only) of a node TLC left unjudged."""
    if n["u"]:
        return n["u"]
    if any(c["opaque"] for c in n["conds"]):
        return "condition: " + next(c["opaque"] for c in n["conds"] if c["opaque"])
    if n["dims"] and n["val"].get("t") == "arr" and len(n["val"]["shape"]) > len(n["dims"]):
        return "value has more dimensions than declared"
    if n["val"].get("t") in ("opaque", "none"):
        return "final value none or not representable, with constraints"
    if any(o["t"] == "opaque" for o in n["opts"]):
        return "option that is not a decimal literal"
    return "inside an unspecified band (precision, prefix match, unit-less literal, foreign unit)"


def judge_testsuite(V, wd):
    """3. code -> spec.  -> coverage dict"""
    judged, why, rt, recs, summary = testsuite_envs(C, wd)
    reasons = collections.Counter()
    nodes = collections.Counter()
    kinds = collections.Counter()
    for x in judged:
        for n, v in zip(x["env"]["nodes"], x["nodes"]):
            nodes[v] += 1
            for a in ("opts", "conds", "fmts", "dims"):
                if n[a]:
                    kinds[a + ":" + v] += 1
            if n["declared"]:
                kinds["declared:" + v] += 1
            if v == "U":
                reasons[u_reason(n)] += 1
        if x["verdict"] == "T":
            V.ok()
        elif x["verdict"] == "U":
            V.unspecified()
        else:
            bad = [n for n, v in zip(x["env"]["nodes"], x["nodes"]) if v == "F"]
            V.fail({"testsuite_env": x["env"]}, "every node satisfies its declared constraints",
                   {"violating_nodes": bad},
                   "an environment returned by a parse of the repository's tests contains a node that violates a declared "
                   "constraint: " + json.dumps(bad)[:600], tags=x["tags"], failure="accepted_violating")
    raised = collections.Counter(r["raised"] for r in recs if "raised" in r)
    verd = collections.Counter(x["verdict"] for x in judged)
    return {"pytest": summary, "parses": len(recs), "returned": len(judged), "raised": dict(raised),
            "environments_validated": verd["T"], "environments_unspecified": verd["U"], "environments_violating": verd["F"],
            "nodes": dict(nodes), "constraint_kinds_judged": dict(kinds), "unspecified_nodes_by_reason": dict(reasons),
            "projection_gaps": dict(why), "tlc_states": rt.distinct}, rt


def run(replay=None):
    V = C.Verdicts(PID, "model_checking")
    t = C.tier()
    sd = C.seed()
    if replay:
        body = json.load(open(replay))
        rec = body["scenario"]
        if "testsuite_env" in rec:
            wd = C.workdir(PID)
            bad = [x for x in testsuite_envs(C, wd)[0] if x["verdict"] == "F"]
            C.cleanup(PID)
            print(f"replay {replay}: {len(bad)} returned environment(s) of the test-suite violate a declared constraint")
            if bad:
                print(f"VIOLATION property={PID} replay={replay}")
                return 1
            return 0
        res = replay_record(rec)
        print(f"replay {replay}: {res['status']} observed={res['observed']} ideal={rec['ideal']} machine={rec['mach']}\n{res['text']}")
        if res["status"] == "violation":
            print(f"VIOLATION property={PID} replay={replay}")
            return 1
        return 0
    wd = C.workdir(PID)
    stats = collections.Counter()
    devhits = collections.Counter()
    fam_counts = collections.Counter()
    drift_examples, samples = [], []
    amb = collections.Counter()
    nontrivial = states = trans = nrec = 0
    for fams in family_groups(t):
        with open(os.path.join(wd, "DipConstraintsMC.tla"), "w") as f:
            f.write(mc_module(t, fams))
        # 1. TLC: enumerate, check that the named deviations explain every machine/ideal difference, emit
        r1 = C.run_tlc(wd, "DipConstraintsMC", cfg(t))
        if r1.violated:
            raise C.MachineryError("DipConstraints: the machine without its named deviations differs from the ideal "
                                   "(the deviation list is incomplete or the spec is inconsistent):\n" + r1.cex[:3000])
        recs = r1.records
        r1.stdout = ""
        if not recs:
            raise C.MachineryError("TLC emitted no programs")
        states += r1.distinct
        trans += r1.generated
        for i, rec in enumerate(recs):
            rec["_seed"] = sd * 1000003 + nrec + i
        nrec += len(recs)
        # 2. replay
        res = C.pmap(replay_record, recs)
        for rec, o in zip(recs, res):
            p = rec["p"]
            fam_counts[f"{p['ty']}{'[]' if p['dims'] else ''}/{p['nu'] or '-'}"] += 1
            stats[(rec["ideal"], rec["mach"], o["observed"])] += 1
            if p["cons"] or p["dims"]:
                nontrivial += 1
            for tg in rec["tags"]:
                if tg in ALL_DEVS and tg not in BAND_DEVS:
                    devhits[tg] += 1
            scen = {"p": p, "ideal": rec["ideal"], "mach": rec["mach"], "tags": rec["tags"], "obl": rec["obl"],
                    "amb": rec["amb"], "_seed": rec["_seed"]}
            if o["status"] == "violation":
                tags = rec["tags"] if o.get("as_machine") else []
                V.fail(scen, rec["ideal"], {"verdict": o["observed"], "error": o.get("detail"), "data": o.get("data")},
                       o["clause"] + " :: " + o["text"], tags=tags, failure=o["failure"])
            elif o["status"] == "unspecified":
                V.unspecified()
                amb["+".join(sorted(rec["amb"])) or "?"] += 1
                if o.get("drift") and len(drift_examples) < 5:
                    drift_examples.append(o["text"])
            elif o["status"] == "drift":
                V.drift(f"machine predicts {rec['mach']}, code and ideal say {o['observed']}: {o['text']!r}")
            else:
                V.ok()
        step = max(1, len(recs) // 3)
        samples += [{"text": o["text"], "ideal": r["ideal"], "machine": r["mach"], "observed": o["observed"],
                     "tags": r["tags"]} for r, o in list(zip(recs, res))[step // 2:: step][:3]]
        del recs, res
    # 3. code -> spec: the repository's tests under the tracer, judged by TLC
    ts, rt = judge_testsuite(V, wd)
    states += rt.distinct
    trans += rt.generated
    # non-vacuity of the machine: every named deviation that can decide a verdict does so somewhere
    deciding = [d for d in machine_devs() if d not in BAND_DEVS]
    missing = [d for d in deciding if devhits[d] == 0]
    if missing:
        V.notes.append("deviations never decisive in this run: " + ", ".join(missing))
    V.cov.update({
        "states": states, "transitions": trans,
        "traces_validated_against_impl": nrec + ts["environments_validated"],
        "testsuite": ts,
        "evaluations": nrec + ts["returned"],
        "distinct_nontrivial": nontrivial,
        "rule": "every program TLC reaches in spec/DipConstraints.tla (node family x definition|declaration x <= "
                f"{1 if t == 'quick' else 2} modifications x <= 3 constraint lines x placement x bystander x direct|local import|source import, pools in the "
                "spec, exhaustive) is one distinct case; each is rendered once (spelling chosen by the seed) and parsed "
                "by the real DIP; non-trivial = the node carries at least one constraint line or dimension bound",
        "samples": samples[:8],
        "exhaustive": True,
        "families": dict(fam_counts),
        "ideal_machine_observed": {"/".join(k): v for k, v in sorted(stats.items())},
        "deviation_decides": dict(devhits),
        "unspecified_by_reason": dict(amb),
        "tlc_devs_explain": "ok",
        "machine_deviations_on": machine_devs(),
        "unspecified_where_code_differs_from_machine": drift_examples,
    })
    V.assumptions += [
        "Python's re module is the ground truth for how a pattern relates to a string (full / prefix / inner / no match)",
        "values are >= 1 in the node's unit (or exactly 0), so the absolute tolerance 1e-8 of numpy.isclose plays no role",
        "pool values differ by more than 1e-4 relative unless they are the same base with different ulp offsets",
        "not judged (unspecified): final value none; equality distance of 10-11 ulps (1e-7 relative); strict < > on exactly "
        "equal values when a unit conversion is involved; a pattern without `$` that matches only a prefix; several "
        "!condition / !format lines that disagree; a condition or dimension bound violated only by a non-final assignment",
        "options on bool nodes, !format on non-string nodes, constraints on array nodes, units on unitless nodes, "
        "conditions whose literal has no unit on a node with unit, and empty strings are outside the explored language",
        "test-suite direction: the projection of a returned environment (decimal text -> exact rational, observed floats "
        "beyond 32 bits snapped to 9 significant digits, the condition text split into comparison atoms) is trusted; "
        "parses that raise are counted, not judged",
        "the renderer's spelling choices (names, group nesting, quotes, comments, typed modifications, order of "
        "constraint kinds) do not matter to the property",
    ]
    C.cleanup(PID)
    return V.finish()
