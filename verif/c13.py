"""C13 - DIP node paths follow indentation and values are the literals written.

A. hierarchy: spec/DipTree.tla + DipTreeGen.tla over group lines and definitions (plain and dotted names,
   repeated names, de-indentation by several levels), engine verif/dip_tree.py.
B. literal notations: spec/DipLiteral.tla (the table of notations and what they denote) x hierarchy positions
   (spec/DipLitGen.tla); the harness renders, parses and compares type class, precision, sign, shape,
   elements and unit of every resulting parameter with what TLC printed.
C. table literals at top level and below a group.
"""
import json, os, random, math
from fractions import Fraction
from . import common as C
from . import dip_tree as T
from . import dip_adapter as D

PID = "C13"
P = T.proto
HIER = [P("grp", ["g"]), P("grp", ["h"]), P("def", ["a"]), P("def", ["b"]), P("def", ["g", "a"]), P("def", ["a", "b"])]

LIT_CFG = """CONSTANTS
  LitIds = {ids}
  MaxInd = {maxind}
  MaxLines = {maxlines}
  NameChars <- GenNameChars
  CharOrd <- GenCharOrd
INIT Init
NEXT Next
INVARIANT Refines
CHECK_DEADLOCK FALSE
"""

CLS = {"BooleanType": "bool", "IntegerType": "int", "FloatType": "float", "StringType": "str"}


def flatten(v):
    if isinstance(v, (list, tuple)):
        out = []
        for x in v:
            out += flatten(x)
        return out
    return [v]


def shape_of(v):
    s = []
    while isinstance(v, (list, tuple)):
        s.append(len(v))
        v = v[0] if v else None
    return s


def elem_ok(obs, e, cls):
    if e["t"] == "none":
        return obs is None
    if obs is None:
        return False
    if e["t"] == "b":
        return isinstance(obs, (bool,)) or type(obs).__name__ == "bool_" and bool(obs) == e["b"] if False else (bool(obs) == e["b"] and type(obs).__name__ in ("bool", "bool_"))
    if e["t"] == "s":
        return isinstance(obs, str) and obs == e["s"]
    if e["t"] == "i":
        return not isinstance(obs, (bool, str)) and int(obs) == int(e["s"]) and float(obs) == float(int(e["s"]))
    if e["t"] == "q":
        if isinstance(obs, (bool, str)):
            return False
        q = Fraction(e["n"], e["d"]) * (Fraction(10) ** e["e"])
        if e["neg"]:
            q = -q
        if cls == "int":
            return float(obs) == float(q) and int(obs) == q
        return math.isclose(float(obs), float(q), rel_tol=1e-15, abs_tol=0.0) or float(obs) == float(q)
    return False


def check_node(tv, lit):
    """tv: DIP type object from env.data(Format.TYPE); lit: expected descriptor. -> None or failed clause"""
    cls = CLS.get(type(tv).__name__)
    if cls != lit["cls"]:
        return f"data type class {cls} != {lit['cls']}"
    if cls in ("int", "float") and getattr(tv, "precision", None) != lit["prec"]:
        return f"precision {getattr(tv, 'precision', None)} != {lit['prec']}"
    if cls == "int" and bool(getattr(tv, "unsigned", False)) != lit["uns"]:
        return f"unsigned {getattr(tv, 'unsigned', None)} != {lit['uns']}"
    val = tv.value
    if hasattr(val, "tolist"):
        val = val.tolist()
    if lit["vals"] and lit["vals"][0]["t"] == "none" and not lit["shape"]:
        return None if val is None else f"value {val!r} is not none"
    if shape_of(val) != list(lit["shape"]):
        return f"shape {shape_of(val)} != {list(lit['shape'])}"
    fl = flatten(val)
    if len(fl) != len(lit["vals"]):
        return f"{len(fl)} elements != {len(lit['vals'])}"
    for k, (o, e) in enumerate(zip(fl, lit["vals"])):
        if not elem_ok(o, e, cls):
            return f"element {k}: {o!r} is not the literal written ({e})"
    if (tv.unit or "") != (lit["unit"] or ""):
        return f"unit {tv.unit!r} != {lit['unit']!r}"
    return None


def compare_env(env, expect):
    from scinumtools.dip.settings import Format
    try:
        data = env.data(Format.TYPE)
    except Exception as e:
        return "env.data() raises " + type(e).__name__
    keys = list(data.keys())
    want = [".".join(n["p"]) for n in expect]
    if keys != want:
        return f"parameters {keys} != {want} (paths / order / multiplicity)"
    for n in expect:
        c = check_node(data[".".join(n["p"])], n["lit"])
        if c:
            return ".".join(n["p"]) + ": " + c
    return None


def replay_lit(rec):
    rnd = random.Random(rec["_seed"])
    if rec["kind"] == "table":
        tab = rec["tab"]
        body = "\n".join(f"{c['name']} {c['decl']}" + (f" {c['unit']}" if c["unit"] else "") for c in tab["cols"]) + "\n\n" + "\n".join(tab["rows"])
        res = None
        for width in (2, 3):
            if rec["pos"] == "top":
                s = f'tb table = """\n{body}\n"""\n'
            else:
                s = f'g\n{" " * width}tb table = """\n{body}\n"""\n'
            r = D.parse_dip(s)
            if r[0] != "ok":
                return ("violation", {"clause": "valid table text rejected: " + r[1], "text": s})
            c = compare_env(r[1], rec["expect"])
            if c:
                return ("violation", {"clause": c, "text": s})
        return ("ok", None)
    text = rec["text"]
    for j, ln in enumerate(text):
        ln["_j"] = j
    for layout in (0, 3, 4):
        s = D.render_lines(text, rnd, layout, False, lits=rec["lits"])
        r = D.parse_dip(s)
        if r[0] != "ok":
            if rec["ideal"]["ok"]:
                return ("violation", {"clause": "valid text rejected: " + r[1] + " " + r[2], "text": s})
            continue
        if not rec["ideal"]["ok"]:
            return ("violation", {"clause": "invalid text accepted", "text": s})
        c = compare_env(r[1], rec["ideal"]["nodes"])
        if c:
            return ("violation", {"clause": c, "text": s})
    return ("ok", None)


def run(replay=None):
    V = C.Verdicts(PID, "model_checking")
    if replay:
        body = json.load(open(replay))
        sc = body["scenario"]
        st, det = (replay_lit(sc) if "kind" in sc else T.replay_record(sc))
        print(f"replay {replay}: {st} {det}")
        if st == "violation" and not (det or {}).get("known"):
            print(f"VIOLATION property={PID} replay={replay}")
            return 1
        return 0
    wd = C.workdir(PID)
    t = C.tier()
    rnd = C.rng(13)
    known = T.open_devs(V)
    # A. hierarchy
    runs = [T.run_tlc(wd, HIER, known, 3, 4 if t == "quick" else 5),
            T.run_tlc(wd, HIER, known, 3, 0, texts=T.random_texts(rnd, HIER, 3, 3000 if t == "quick" else 30000, 5, 9))]
    recs = []
    for r in runs:
        if r.violated:
            V.notes.append("TLC: Refines counterexample (hierarchy machine vs ideal): " + r.cex[:400])
        recs += r.records
    for r in recs:
        r["_layouts"] = [(0, False), (3, False), (4, False)]
    T.judge(V, recs, C.seed())
    # code -> spec: every parse the repository's own DIP tests perform, validated against machine and ideal
    from . import dip_tracer as DT
    ntr, rtr = DT.judge_testsuite(C, V, wd)
    # B/C. literals
    nl = 53
    lruns = [C.run_tlc(wd, "DipLitGen", LIT_CFG.format(ids="{" + ",".join(str(i) for i in range(1, nl + 1)) + "}", maxind=1, maxlines=2), extra=["-continue"]),
             C.run_tlc(wd, "DipLitGen", LIT_CFG.format(ids="{2, 4, 16, 25, 36, 39, 53}" if t == "quick" else "{2, 4, 8, 12, 16, 22, 25, 30, 36, 39, 40, 52, 53}",
                                                         maxind=2, maxlines=3), extra=["-continue"])]
    lrecs = []
    for r in lruns:
        if r.violated:
            V.notes.append("TLC: hierarchy machine vs ideal disagree on a literal text: " + r.cex[:300])
        lrecs += r.records
    seen = set()
    uniq = []
    for r in lrecs:
        key = json.dumps(r, sort_keys=True)
        if key not in seen:
            seen.add(key); uniq.append(r)
    for i, r in enumerate(uniq):
        r["_seed"] = C.seed() * 7 + i
    res = C.pmap(replay_lit, uniq)
    litforms = set()
    for rec, (st, det) in zip(uniq, res):
        if rec["kind"] == "text":
            for ln in rec["text"]:
                if ln["k"] == "def":
                    litforms.add(ln["v"])
        if st == "violation":
            V.fail({k: v for k, v in rec.items()}, rec.get("ideal", rec.get("expect")), det["clause"], det["clause"] + " :: " + det["text"].replace("\n", " | "),
                   tags=["literal"] + sorted({"lit:" + L["decl"] + ":" + L["txt"] for L in rec.get("lits", [])}), failure="literal")
        else:
            V.ok()
    nontrivial = {json.dumps(r["text"]) for r in recs if len(r["text"]) >= 3 and any(ln["ind"] > 0 for ln in r["text"])}
    V.cov.update({
        "states": sum(r.distinct for r in runs + lruns), "transitions": sum(r.generated for r in runs + lruns),
        "traces_validated_against_impl": len(recs) + ntr, "testsuite_parses_validated": ntr + len(uniq), "evaluations": 3 * (len(recs) + len(uniq)),
        "distinct_nontrivial": len(nontrivial) + len(litforms),
        "rule": "A: every text of <= 4/5 lines over {2 groups, 4 definitions incl. dotted names} x indent 0..3 with consistent indentation "
                "(TLC, exhaustive) + random texts of 5-9 lines, each parsed under 3 indent-width/comment layouts; B: every literal notation of "
                f"spec/DipLiteral.tla ({nl} forms) alone, below a group and next to every other notation, plus 3-line trees over a subset; "
                "C: table literals at top level and below a group; non-trivial = hierarchy texts of >= 3 lines with a nested line, plus literal forms exercised",
        "samples": [{"text": r["text"], "ideal": r["ideal"]} for r in recs[2000:2002]] + [{"literal_text": uniq[50]["text"], "expect": uniq[50]["ideal"]}],
        "exhaustive": True, "literal_forms": len(litforms),
    })
    V.assumptions += ["Python's float() of the exact rational is the value of a float literal",
                      "single-quoted elements inside array literals and the empty string literal are outside the checked notations (see known findings)",
                      "inner lines of block values are written at column 0"]
    C.cleanup(PID)
    return V.finish()
