"""Adapter between the abstract scenarios of the units-B specs (QuantityAlg, Magnitude, QuantityHeap) and the
real scinumtools.units objects: rendering of exponent maps, construction of operands, projection of results.
Nothing here decides what is correct."""
import math
from fractions import Fraction as PyFrac
import numpy as np


def _units():
    import scinumtools.units as U
    return U


# ---------------------------------------------------------------- exponent maps <-> library notation

def ex_to_map(ex):
    """spec exponent map [{u, e:[n,d]}] -> {unitid: PyFrac}"""
    return {r["u"]: PyFrac(r["e"][0], r["e"][1]) for r in ex}


def exp_text(fr):
    if fr.denominator == 1:
        return "" if fr == 1 else str(fr.numerator)
    return f"{fr.numerator}:{fr.denominator}"


def unit_text(ex):
    """exponent map -> unit expression string ('cm2*s-1'); None for the empty map"""
    m = ex if isinstance(ex, dict) else ex_to_map(ex)
    if not m:
        return None
    return "*".join(uid.replace(":", "") + exp_text(fr) for uid, fr in m.items())


def unit_dict(ex):
    """exponent map -> fresh dict in the documented {'k:g': 1, 'm': (1,2)} form"""
    m = ex if isinstance(ex, dict) else ex_to_map(ex)
    return {uid: (fr.numerator if fr.denominator == 1 else (fr.numerator, fr.denominator)) for uid, fr in m.items()}


def obs_exmap(q):
    """observed exponent map of a quantity -> {unitid: PyFrac} (through the public baseunits.value())"""
    out = {}
    for uid, e in q.baseunits.value().items():
        fr = PyFrac(e[0], e[1]) if isinstance(e, tuple) else PyFrac(e)
        if fr != 0:
            out[uid] = fr
    return out


def obs_dims(q):
    out = []
    for e in q.baseunits.dimensions.value():
        out.append(PyFrac(e[0], e[1]) if isinstance(e, tuple) else PyFrac(e))
    return out


def fmt_map(m):
    return {k: str(v) for k, v in m.items()}


def make_quantity(value, ex, style="text", **kw):
    """value: float | Decimal | list/ndarray ; ex: spec exponent map ; style: text | dict"""
    U = _units()
    m = ex_to_map(ex) if not isinstance(ex, dict) else ex
    if not m:
        return U.Quantity(value, **kw)
    if style == "dict":
        return U.Quantity(value, unit_dict(m), **kw)
    return U.Quantity(value, unit_text(m), **kw)


def text_is_faithful(ex):
    """Does the unit string denote the intended exponent map (guard for rendering only; C03 owns parsing)?"""
    U = _units()
    m = ex_to_map(ex) if not isinstance(ex, dict) else ex
    if not m:
        return True
    try:
        got = U.BaseUnits(unit_text(m)).value()
    except Exception:
        return False
    g = {k: (PyFrac(v[0], v[1]) if isinstance(v, tuple) else PyFrac(v)) for k, v in got.items()}
    return g == m


# ---------------------------------------------------------------- the live table: linear units

_LIN = None


def linear_units():
    """[(unitid, dims(list of 8 ints))] of table units (with admissible one-letter prefixes) that convert linearly:
    no offset temperature scales, no logarithmic units, integer dimension vectors, no quote symbols."""
    global _LIN
    if _LIN is not None:
        return _LIN
    from scinumtools.units.settings import UNIT_STANDARD, UNIT_PREFIXES
    from scinumtools.units.unit_types import LogarithmicUnitType
    out = []
    for sym, u in UNIT_STANDARD.items():
        if not isinstance(u.definition, (str, type(None))):
            continue
        if sym in LogarithmicUnitType.process or sym in ("Cel", "degF", "'", "''", "PR", "AR"):
            continue
        dims = list(u.dimensions)
        if not all(isinstance(d, int) for d in dims):
            continue
        out.append((sym, dims))
        if u.prefixes is True:
            prefs = [p for p in UNIT_PREFIXES.keys() if len(p) == 1]
        elif isinstance(u.prefixes, list):
            prefs = [p for p in u.prefixes if len(p) == 1]
        else:
            prefs = []
        for p in prefs:
            out.append((f"{p}:{sym}", dims))
    _LIN = out
    return out


def frac_float(n, d):
    return n / d


def repaired_deviations(pid, names):
    """Named deviations of a machine spec that are repaired in the tree: carried by a `fixed` entry of the known findings
    of the property and by no `open` one.  The machine spec then transcribes the repaired algorithm (DESIGN 4.5)."""
    from . import common as C
    f = C.Findings(pid)
    fixed = {t for e in f.fixed for t in e.get("tags", [])}
    still = {t for e in f.open for t in e.get("tags", [])}
    return sorted((set(names) & fixed) - still)
