"""Tracer for scinumtools.solver: records one event per machine action of spec/Solver.tla.

Installed from the harness by wrapping public classes (no change to /repo).  Wrappers are add-only,
log in `finally`, and project the post-state (Tokens.left / Tokens.right) after every step.
"""
import contextlib

NONE = {"k": "n", "s": "", "tr": [], "a": []}
PY = {"k": "p", "s": "", "tr": [], "a": []}


class SymAtom:
    """Strict symbolic atom (public customisation API): the value is the Polish tree of the
    computation, every operation touches both operands like a strict function would."""
    NAMES = {"a", "b", "c"}

    def __init__(self, value):
        if isinstance(value, str):
            v = value.strip()
            if v not in self.NAMES:
                raise ValueError("unknown atom " + repr(value))
            self.value = (v,)
        elif isinstance(value, tuple):
            self.value = value
        else:                      # e.g. tokens.atom(np.e) inside OperatorExp
            self.value = ("const",)

    def __repr__(self):
        return "Sym" + repr(self.value)

    def _bin(self, sym, other):
        return SymAtom((sym,) + self.value + other.value)

    def __add__(self, o): return self._bin("+", o)
    def __sub__(self, o): return self._bin("-", o)
    def __mul__(self, o): return self._bin("*", o)
    def __truediv__(self, o): return self._bin("/", o)
    def __neg__(self): return SymAtom(("neg",) + self.value)
    def __eq__(self, o): return self._bin("==", o)
    def __ne__(self, o): return self._bin("!=", o)
    def __le__(self, o): return self._bin("<=", o)
    def __ge__(self, o): return self._bin(">=", o)
    def __lt__(self, o): return self._bin("<", o)
    def __gt__(self, o): return self._bin(">", o)
    __hash__ = None
    def logical_and(self, o): return self._bin("&&", o)
    def logical_or(self, o): return self._bin("||", o)
    def logical_not(self): return SymAtom(("!",) + self.value)

    def __pow__(self, o):
        if self.value == ("const",):               # exp(x) is written atom(e)**x in the code
            return SymAtom(("f1",) + o.value)
        return self._bin("**", o)

    def _f1(self): return SymAtom(("f1",) + self.value)
    log = log10 = sqrt = sin = cos = tan = _f1


def open_tok(op):
    """model token of a parenthesis operator object/class"""
    if op.symbol == op.symbol_open:
        return "("
    if op.symbol in ("logb(", "pow("):
        return op.symbol
    return "f1(" if op.narg == 1 else "f2("


def model_tok(cls):
    """model token of an operator CLASS by lineage (shape mode: any subclass of a default operator), or None"""
    from scinumtools.solver import operators as O
    if issubclass(cls, O.OperatorPar):
        return open_tok(cls)
    for base, tok in ((O.OperatorPow, "**"), (O.OperatorMul, "*"), (O.OperatorTruediv, "/"), (O.OperatorAdd, "+"), (O.OperatorSub, "-"),
                      (O.OperatorEq, "=="), (O.OperatorNe, "!="), (O.OperatorLe, "<="), (O.OperatorGe, ">="), (O.OperatorLt, "<"),
                      (O.OperatorGt, ">"), (O.OperatorNot, "!"), (O.OperatorAnd, "&&"), (O.OperatorOr, "||")):
        if issubclass(cls, base):
            return tok
    return None


class Tracer:
    def __init__(self, atom_pred=None, shape=False):
        self.shape = shape
        self.traces = {}          # tid -> list of events
        self.meta = {}            # tid -> info
        self._ids = {}
        self._next = 0
        self.depth_op = 0
        self.active = set()       # ids of Tokens objects inside a traced solve
        self.atom_pred = atom_pred or (lambda x: hasattr(x, "value"))

    # ----- projection
    def item(self, x):
        from scinumtools.solver.operators import OperatorBase
        if x is None:
            return NONE
        if isinstance(x, OperatorBase):
            if x.args is not None:
                return {"k": "f", "s": open_tok(x), "tr": [], "a": [self.item(a) for a in x.args]}
            if self.shape:
                return {"k": "o", "s": model_tok(type(x)) or "?" + x.symbol, "tr": [], "a": []}
            return {"k": "o", "s": x.symbol, "tr": [], "a": []}
        if self.shape:
            return {"k": "t", "s": "", "tr": ["*"], "a": []}       # every other object is an atom of unknown value
        if self.atom_pred(x):
            v = x.value
            if isinstance(v, tuple):
                return {"k": "t", "s": "", "tr": [str(i) for i in v], "a": []}
            return {"k": "t", "s": "", "tr": ["*"], "a": []}
        return PY

    def lists(self, tokens):
        return {"l": [self.item(i) for i in tokens.left], "r": [self.item(i) for i in tokens.right]}

    def tid(self, solver):
        t = getattr(solver, "_verif_tid", None)
        if t is None:
            t = solver._verif_tid = self._next
            self._next += 1
            self.traces[t] = []
        return t

    def emit(self, tokens, ev, **kw):
        t = getattr(tokens, "_verif_tid", None)
        if t is None:
            return
        e = {"ev": ev}
        e.update(kw)
        self.traces[t].append(e)


@contextlib.contextmanager
def installed(tracer):
    """Wrap ExpressionSolver / Tokens / Operator* for the duration of the block."""
    from scinumtools.solver import solver as S, tokens as T, operators as O
    saved = []

    def patch(obj, name, new):
        saved.append((obj, name, obj.__dict__[name]))
        setattr(obj, name, new)

    orig_solve = S.ExpressionSolver.solve

    def solve(self, expr, _inp=None):
        t = tracer.tid(self)
        self.tokens._verif_tid = t
        self.tokens._verif_phase = "tok"
        if t not in tracer.meta:
            toks = {k: model_tok(c) for k, c in self.operators.items()}
            from scinumtools.solver.atom import AtomBase
            tracer.meta[t] = {"ops": sorted(x for x in toks.values() if x),
                              "steps": [[sorted({toks[o] for o in s["operators"] if o in toks and toks[o]}), s["otype"].name] for s in self.steps],
                              "supported": all(toks.values()) and all(o in toks or True for s in self.steps for o in s["operators"]),
                              "lenient": False}
        pre = tracer.lists(self.tokens)
        tracer.emit(self.tokens, "begin", inp=list(_inp) if _inp is not None else ["#unknown"],
                    l=pre["l"], r=pre["r"])
        ok = False
        try:
            res = orig_solve(self, expr)
            ok = True
            return res
        finally:
            post = tracer.lists(self.tokens)
            if ok:
                o = tracer.item(res)
                out = o["tr"] if o["k"] == "t" else ["#none"] if o["k"] == "n" else ["#py"] if o["k"] == "p" else ["#item"]
                tracer.emit(self.tokens, "end", out=out, l=post["l"], r=post["r"])
            else:
                tracer.emit(self.tokens, "raise", phase=self.tokens._verif_phase, l=post["l"], r=post["r"])
            self.tokens._verif_phase = "idle"

    patch(S.ExpressionSolver, "solve", solve)

    orig_append = T.Tokens.append

    def append(self, token):
        orig_append(self, token)
        tracer.emit(self, "append", item=tracer.item(token))
    patch(T.Tokens, "append", append)

    orig_operate = T.Tokens.operate

    def operate(self, operators, otype):
        if getattr(self, "_verif_phase", None) == "tok":
            tracer.emit(self, "tokend", **tracer.lists(self))
        self._verif_phase = "steps"
        tracer.emit(self, "step", ops=sorted({(model_tok(o) or "?") if tracer.shape else (open_tok(o) if hasattr(o, "narg") else o.symbol) for o in operators}),
                    otype=otype.name)
        orig_operate(self, operators, otype)
        tracer.emit(self, "stepend", **tracer.lists(self))
    patch(T.Tokens, "operate", operate)

    orig_put_left = T.Tokens.put_left

    def put_left(self, token):
        orig_put_left(self, token)
        if getattr(self, "_verif_depth", 0) == 0 and getattr(self, "_verif_phase", None) == "steps":
            tracer.emit(self, "disp", err=False, **tracer.lists(self))     # the else-branch of operate
    patch(T.Tokens, "put_left", put_left)

    def wrap_op(cls, name):
        orig = cls.__dict__[name]

        def w(self, tokens):
            # depth is kept per Tokens object: an operator of one solver may run a whole other solver inside
            tokens._verif_depth = getattr(tokens, "_verif_depth", 0) + 1
            err = True
            try:
                r = orig(self, tokens)
                err = False
                return r
            finally:
                tokens._verif_depth -= 1
                if tokens._verif_depth == 0:
                    tracer.emit(tokens, "disp", err=err, **tracer.lists(tokens))
        patch(cls, name, w)

    seen = set()
    stack = [O.OperatorBase]
    while stack:
        c = stack.pop()
        if c in seen:
            continue
        seen.add(c)
        stack.extend(c.__subclasses__())
        for name in ("operate_unary", "operate_binary", "operate_args"):
            if name in c.__dict__:
                wrap_op(c, name)
    try:
        yield tracer
    finally:
        for obj, name, old in reversed(saved):
            setattr(obj, name, old)
