"""Runs the repository's tests that use ExpressionSolver (default solver, unit solver, substance/material solver,
DIP numerical and logical solvers) under the solver tracer in SHAPE mode and validates every instance's history of
solve() calls against Solver.tla (spec SolverTrace!ASpec): every Tokens.left/right after every operator application,
the order and content of the steps, clean buffers at every call boundary."""
import json, os, re, subprocess

PLUGIN = r'''
import json, os, sys
def pytest_configure(config):
    sys.path.insert(0, "/verif")
    from verif import solver_tracer as ST
    # every module that defines operator classes must be loaded before the operators are wrapped
    import scinumtools.units, scinumtools.materials, scinumtools.dip
    import scinumtools.dip.solvers.numerical_solver, scinumtools.dip.solvers.logical_solver
    global _TR, _CM
    _TR = ST.Tracer(shape=True)
    _CM = ST.installed(_TR)
    _CM.__enter__()
def pytest_sessionfinish(session):
    _CM.__exit__(None, None, None)
    groups = {}
    for tid, events in _TR.traces.items():
        meta = _TR.meta.get(tid)
        if not meta or not events:
            continue
        key = json.dumps(meta, sort_keys=True)
        groups.setdefault(key, []).append(events)
    json.dump([{"meta": json.loads(k), "traces": v} for k, v in groups.items()], open(os.environ["VERIF_SOLVER_TRACE"], "w"))
'''

CFG = """CONSTANTS
  Atoms <- MCAtoms
  BadAtoms <- MCBad
  OpTable <- MCOpTable
  Steps <- MCSteps
  Exprs <- MCExprs
  Plans <- MCPlansT
  Probes <- MCProbes
  ResetOnBegin <- MCReset
  Lenient <- MCLenient
  PyEq = FALSE
SPECIFICATION ASpec
INVARIANT Accept
CHECK_DEADLOCK FALSE
"""


def mc_module(C, meta):
    steps = ", ".join(f'[ops |-> {C.tla_str(set(s[0]))}, otype |-> "{s[1]}"]' for s in meta["steps"])
    return f"""---- MODULE SolverTraceMC ----
EXTENDS SolverTrace
MCAtoms == {{"*"}}
MCBad == {{}}
MCOpTable == {C.tla_str(set(meta['ops']))}
MCSteps == <<{steps}>>
MCExprs == {{}}
MCPlansT == {{<<>>}}
MCProbes == {{}}
MCReset == TRUE
MCLenient == {C.tla_str(bool(meta['lenient']))}
====
"""


def run(C, wd, tests=("tests/solver", "tests/units", "tests/materials", "tests/dip/test_solver_numerical.py",
                      "tests/dip/test_solver_logical.py", "tests/dip/test_expressions.py")):
    """-> dict(accepted, rejected=[(meta, first events)], unsupported, states, transitions, events)"""
    open(os.path.join(wd, "verif_solver_suite.py"), "w").write(PLUGIN)
    out = os.path.join(wd, "solver_suite_traces.json")
    env = dict(os.environ, VERIF_SOLVER_TRACE=out, PYTHONPATH=wd + os.pathsep + os.environ.get("PYTHONPATH", ""), PYTHONWARNINGS="ignore")
    p = subprocess.run(["/venv/bin/python", "-m", "pytest", "-q", "-p", "no:cacheprovider", "-p", "verif_solver_suite", *tests],
                       cwd=C.REPO, env=env, stdout=subprocess.PIPE, stderr=subprocess.STDOUT, text=True, timeout=900)
    if not os.path.exists(out):
        raise C.MachineryError("solver tracer run produced no trace file:\n" + p.stdout[-2000:])
    groups = json.load(open(out))
    res = {"accepted": 0, "rejected": [], "unsupported": 0, "states": 0, "transitions": 0, "events": 0, "configs": 0}
    for g, grp in enumerate(groups):
        meta, traces = grp["meta"], grp["traces"]
        if not meta["supported"]:
            res["unsupported"] += len(traces)
            continue
        res["configs"] += 1
        res["events"] += sum(len(t) for t in traces)
        f = os.path.join(wd, f"suite-traces-{g}.json")
        json.dump(traces, open(f, "w"))
        open(os.path.join(wd, "SolverTraceMC.tla"), "w").write(mc_module(C, meta))
        r = C.run_tlc(wd, "SolverTraceMC", CFG, env={"TRACE_FILE": f}, want_records=False)
        acc = {int(m.group(1)) for m in re.finditer(r'<<"ACCEPT", (\d+)>>', r.stdout)}
        res["accepted"] += len(acc)
        res["states"] += r.distinct; res["transitions"] += r.generated
        for i in range(1, len(traces) + 1):
            if i not in acc and len(res["rejected"]) < 10:
                res["rejected"].append({"config": meta, "trace_head": traces[i - 1][:6]})
        res.setdefault("nrejected", 0)
        res["nrejected"] += len(traces) - len(acc)
    return res
