"""C16 adapter: abstract constraint programs (spec/DipConstraints.tla) <-> the real DIP parser.

render(p, rnd)      abstract program -> DIP text (+ the path of the node under test and of the bystander)
observe(text, ...)  DIP().add_string(text); parse(); data()  ->  ("accept", data) | ("reject", error)
failing(obl, ...)   evaluates the obligations TLC emitted for an accepted program on the returned data

Nothing here decides what must hold: the expected verdict, the machine's prediction, the tags and the
obligations all come from TLC.  The renderer only chooses a concrete spelling (names, blanks, quotes,
comments, nesting in a group, the order of constraint KINDS) - variations the property is blind to.
"""
import math, os, re, random
from fractions import Fraction

SCALE = 10 ** 7          # 1 ulp of the spec = 1e-7 relative


# ----------------------------------------------------------------------------- literals

def frac_to_decimal(fr):
    """Exact decimal text of a fraction whose denominator is 2^a*5^b (all literals of the spec are)."""
    fr = Fraction(fr)
    sign = "-" if fr < 0 else ""
    fr = abs(fr)
    num, den = fr.numerator, fr.denominator
    e = 0
    while den != 1:
        num *= 10
        e += 1
        g = math.gcd(num, den)
        num //= g
        den //= g
        if e > 60:
            raise ValueError("not a terminating decimal: %r" % fr)
    s = str(num)
    if e:
        s = s.rjust(e + 1, "0")
        s = s[:-e] + "." + s[-e:]
    return sign + s


def lit_fraction(l):
    """n*(1 + k*1e-7) of a numeric literal, in its own unit."""
    return Fraction(l["n"][0], l["n"][1]) * Fraction(SCALE + l["k"], SCALE)


def num_text(l, style):
    """style 'int': shortest text; 'float': integer values may be spelled 3 or 3.0"""
    t = frac_to_decimal(lit_fraction(l))
    if style == "float.0" and "." not in t:
        t += ".0"
    return t


def array_text(ty, shape, salt):
    """A JSON array of the given shape (any rank), tight notation; element values are irrelevant to the property."""
    def elem(i):
        if ty == "int":
            return str(1 + (i + salt) % 7)
        if ty == "float":
            return frac_to_decimal(Fraction(3 + 2 * ((i + salt) % 5), 2))
        if ty == "bool":
            return "true" if (i + salt) % 2 else "false"
        return '"' + "abcdefg"[(i + salt) % 7] + '"'
    counter = [0]

    def build(sh):
        if not sh:
            counter[0] += 1
            return elem(counter[0])
        return "[" + ",".join(build(sh[1:]) for _ in range(sh[0])) + "]"
    return build(list(shape))


def dims_text(dims):
    out = []
    for lo, hi in dims:
        if lo == hi and lo != -1:
            out.append(str(lo))
        else:
            out.append(("" if lo == -1 else str(lo)) + ":" + ("" if hi == -1 else str(hi)))
    return "[" + ",".join(out) + "]"


# ----------------------------------------------------------------------------- rendering

def _q(s, rnd, allow_bare=False):
    r = rnd.random()
    if allow_bare and r < 0.34:
        return s
    return ("'%s'" % s) if r < 0.67 else ('"%s"' % s)


def real_str(s):
    """`|` in a string of the spec stands for a line break."""
    return s.replace("|", "\n")


def value_text(p, l, rnd, salt=0):
    """Text of `value [unit]` for a definition / modification / bystander literal."""
    t = l["t"]
    if t == "none":
        return "none"
    if t == "num":
        style = "int" if p["ty"] == "int" else rnd.choice(["int", "float.0"])
        s = num_text(l, style)
        return s + (" " + l["u"] if l["u"] else "")
    if t == "str":
        if "|" in l["s"]:                       # several lines: a block value
            return '"""\n' + real_str(l["s"]) + '\n"""'
        return _q(l["s"], rnd, allow_bare=True)
    if t == "bool":
        return "true" if l["b"] else "false"
    if t == "arr":
        s = array_text(p["ty"], l["shape"], salt)
        if p["nu"] and rnd.random() < 0.5:
            s += " " + p["nu"]
        return s
    raise ValueError(t)


def typed_part(p, m, rnd):
    """` <type>[dims]` of a modification written as a typed redefinition ('' for a plain `name = value`)."""
    if p["dims"]:
        return " " + p["ty"] + dims_text(m["dm"]) if m.get("dm") else ""
    return " " + p["ty"] if rnd.random() < 0.25 else ""


REFNAME = "lim"


def ref_literal(p):
    """The definition of the reference node, if a condition of p compares {?} with it."""
    for c in p["cons"]:
        if c["c"] == "cond":
            for a in c["atoms"]:
                if a["lit"]["t"] == "ref":
                    return a["lit"]
    return None


def atom_text(p, a, outer_quote, rnd):
    lit = a["lit"]
    if lit["t"] == "ref":
        lt = "{?" + REFNAME + "}"                 # the value of the reference node
    elif lit["t"] == "num":
        # literals of a condition are cast with the node's dtype by the library: keep the shortest spelling
        lt = num_text(lit, "int") + (" " + lit["u"] if lit["u"] else "")
    elif lit["t"] == "str":
        q = "'" if outer_quote == '"' else '"'
        lt = q + lit["s"] + q
    else:
        lt = "true" if lit["b"] else "false"
    if a["op"] == "is":
        return "{?}"
    sp = rnd.choice([" ", " ", ""]) if lit["t"] not in ("num", "ref") else " "
    if a["left"] == "self":
        return "{?}" + sp + a["op"] + sp + lt
    return lt + sp + a["op"] + sp + "{?}"


def cons_lines(p, c, rnd):
    """The DIP lines (without indentation) of one constraint."""
    cm = lambda: rnd.choice(["", "", "  # note"])
    if c["c"] == "opts":
        if c["form"] == "lines":
            out = []
            for v in c["vals"]:
                out.append("= " + value_text(p, v, rnd) + cm())
            return out
        vals = c["vals"]
        if vals[0]["t"] == "str":
            body = "[" + ",".join('"%s"' % v["s"] for v in vals) + "]"
            unit = ""
        else:
            body = "[" + ",".join(num_text(v, "int") for v in vals) + "]"
            unit = vals[0]["u"]
        return ["!options " + body + (" " + unit if unit else "") + cm()]
    if c["c"] == "cond":
        oq = rnd.choice(['"', "'"])
        join = {"one": "", "and": " && ", "or": " || "}[c["join"]]
        expr = join.join(atom_text(p, a, oq, rnd) for a in c["atoms"])
        return ["!condition (" + oq + expr + oq + ")" + cm()]
    if c["c"] == "fmt":
        oq = rnd.choice(['"', "'"])
        return ["!format " + oq + c["pat"] + oq + cm()]
    raise ValueError(c["c"])


def kind_rank(c):
    if c["c"] == "opts":
        return 1 if c["form"] == "lines" else 2
    return 3 if c["c"] == "cond" else 4


SRCDIR = "@SRCDIR@"       # placeholder for the directory observe() writes source files to


def render_import(p, rnd):
    """The node is defined in a group (local) or in a source file (source), imported, and the copy modified."""
    name = rnd.choice(["x", "size", "val_1", "n0"])
    step = rnd.choice(["  ", "    "])
    cm = lambda: rnd.choice(["", "", "  # c"])
    salt = rnd.randrange(7)
    tyname = p["ty"] + (dims_text(p["dims"]) if p["dims"] else "")
    if p["def"]["t"] == "decl":
        ln = name + " " + tyname + (" " + p["nu"] if p["nu"] else "")
    elif p["def"]["t"] == "arr":
        ln = name + " " + tyname + " = " + array_text(p["ty"], p["def"]["shape"], salt) + (" " + p["nu"] if p["nu"] else "")
    elif p["def"]["t"] == "none":
        ln = name + " " + tyname + " = none" + (" " + p["nu"] if p["nu"] else "")
    else:
        ln = name + " " + tyname + " = " + value_text(p, p["def"], rnd)
    groups = {}
    for c in p["cons"]:
        groups.setdefault(kind_rank(c), []).append(c)
    order = list(groups)
    rnd.shuffle(order)
    clines = []
    for k in order:
        for c in groups[k]:
            clines += cons_lines(p, c, rnd)
    late = p.get("place", "def") == "mod"           # the constraint lines follow the last modification of the copy
    template = [ln + cm()] + ([] if late else [step + c for c in clines])
    extra = rnd.random() < 0.4                      # a second, unconstrained node beside it
    if extra:
        template.append("other_t int = 5")
    lines, files = [], {}
    if rnd.random() < 0.3:
        lines.append("w_pre int = 7")
    if p["via"] == "local":
        lines.append("tmpl")
        lines += ["  " + t for t in template]
        ref = "?tmpl."
        orig = "tmpl." + name
    else:
        files["tmpl.dip"] = "\n".join(template) + "\n"
        lines.append("$source src = " + SRCDIR + "/tmpl.dip")
        ref = "src?"
        orig = None
    form = rnd.choice(["all", "one", "bare", "nested"])
    if form == "all":
        lines.append("p {" + ref + "*}" + cm())
        path = "p." + name
    elif form == "one":
        lines.append("p {" + ref + name + "}" + cm())
        path = "p." + name
    elif form == "nested":
        lines.append("p")
        lines.append("  {" + ref + ("*" if rnd.random() < 0.5 else name) + "}")
        path = "p." + name
    else:
        lines.append("{" + ref + name + "}")
        path = name
    for j, m in enumerate(p["mods"]):
        lines.append(path + typed_part(p, m, rnd) + " = " + value_text(p, m, rnd, salt + j + 1) + cm())
    if late:
        lines += [step + c for c in clines]
    if rnd.random() < 0.3:
        lines.append("z_post int = 1")
    return {"text": "\n".join(lines) + "\n", "path": path, "bypath": None, "origpath": orig, "files": files, "text2": None}


def render(p, seed):
    """-> dict(text, path, bypath, origpath, files).  Deterministic in (p, seed)."""
    rnd = random.Random(seed)
    if p.get("via", "direct") != "direct":
        return render_import(p, rnd)
    name = rnd.choice(["x", "size", "val_1", "n0"])
    byname = rnd.choice(["y", "other", "ref_2"])
    grouped = rnd.random() < 0.3
    ind0 = "  " if grouped else ""
    step = rnd.choice(["  ", "    "])
    cm = lambda: rnd.choice(["", "", "  # c"])
    salt = rnd.randrange(7)
    lines = []
    if rnd.random() < 0.3:
        lines.append("w_pre int = 7")
    ref = ref_literal(p)
    if ref is not None:                               # the node the condition refers to, defined in front
        lines.append(REFNAME + " " + p["ty"] + " = " + num_text(ref, "int") + (" " + ref["u"] if ref["u"] else "") + cm())
    if grouped:
        lines.append("grp")
    tyname = p["ty"] + (dims_text(p["dims"]) if p["dims"] else "")
    # definition / declaration
    if p["def"]["t"] == "decl":
        ln = name + " " + tyname + (" " + p["nu"] if p["nu"] else "")
    elif p["def"]["t"] == "arr":
        ln = name + " " + tyname + " = " + array_text(p["ty"], p["def"]["shape"], salt) + (" " + p["nu"] if p["nu"] else "")
    elif p["def"]["t"] == "none":
        ln = name + " " + tyname + " = none" + (" " + p["nu"] if p["nu"] else "")
    else:
        ln = name + " " + tyname + " = " + value_text(p, p["def"], rnd)
    lines.append(ind0 + ln + cm())
    # constraint lines: kinds in a random order, the lines of one kind keep their order
    groups = {}
    for c in p["cons"]:
        groups.setdefault(kind_rank(c), []).append(c)
    order = list(groups)
    rnd.shuffle(order)
    clines = []
    for k in order:
        for c in groups[k]:
            clines += cons_lines(p, c, rnd)
    if p["place"] == "def":
        lines += [ind0 + step + c for c in clines]
    # bystander
    if p["by"]["t"] != "nil":
        lines.append(ind0 + byname + " " + p["ty"] + " = " + value_text(p, p["by"], rnd) + cm())
    # modifications: inside the group at the node's level, or from the top level by path
    inside = grouped and rnd.random() < 0.5
    mind = ind0 if inside else ""
    mname = name if (inside or not grouped) else "grp." + name
    if grouped and not inside and p["place"] == "def" and rnd.random() < 0.5:
        lines.append("z_mid bool = true")        # a further node; constraint lines that follow a modification
                                                 # get no neighbour the abstract program does not know about
    two = p.get("split", "one") == "two"
    if two:                                            # everything from here on is a second text, DIP(env)
        first, lines = lines, []
        mind, mname = "", ("grp." + name if grouped else name)
    for j, m in enumerate(p["mods"]):
        lines.append(mind + mname + typed_part(p, m, rnd) + " = " + value_text(p, m, rnd, salt + j + 1) + cm())
    if p["place"] == "mod":
        lines += [mind + step + c for c in clines]
    if p.get("refm", {"t": "nil"})["t"] != "nil":      # the reference node gets a new value
        r = p["refm"]
        lines.append(REFNAME + " = " + num_text(r, "int") + (" " + r["u"] if r["u"] else "") + cm())
    if rnd.random() < 0.3:
        lines.append(("" if two else (mind if inside else "")) + "z_post int = 1")
    path = ("grp." if grouped else "") + name
    bypath = ("grp." if grouped else "") + byname
    out = {"text": "\n".join(lines) + "\n", "path": path, "bypath": bypath, "origpath": None, "files": {}, "text2": None}
    if two:
        out["text"] = "\n".join(first) + "\n"
        out["text2"] = "\n".join(lines) + "\n" if lines else ""
    return out


# ----------------------------------------------------------------------------- observation

def _plain(v):
    import numpy as np
    if isinstance(v, np.generic):
        return v.item()
    if isinstance(v, np.ndarray):
        return v.tolist()
    return v


_FAST = [False]


def _speedup():
    """DIP() and add_string() call inspect.stack() only to record the file that created them (about 7 ms per
    call, most of a small parse).  Give them a constant caller; nothing the property talks about depends on it."""
    if _FAST[0]:
        return
    import collections, warnings
    warnings.filterwarnings("ignore")
    from scinumtools.dip import dip as M
    FI = collections.namedtuple("FI", "filename lineno")
    if hasattr(M, "stack") and hasattr(M, "getframeinfo"):
        M.stack = lambda: [(None,), (None,)]
        M.getframeinfo = lambda frame: FI(__file__, 1)
    _FAST[0] = True


def observe(text, files=None, text2=None):
    """-> ("accept", {path: [value, unit]}) | ("reject", "ExcType: message")
    files: {name: content} written to a scratch directory whose path replaces SRCDIR in the text."""
    if files:
        import tempfile, shutil
        d = tempfile.mkdtemp(prefix="snt-c16-src-", dir="/var/tmp")
        try:
            for fn, content in files.items():
                with open(os.path.join(d, fn), "w") as f:
                    f.write(content)
            return _observe(text.replace(SRCDIR, d), text2)
        finally:
            shutil.rmtree(d, ignore_errors=True)
    return _observe(text, text2)


def _observe(text, text2=None):
    """text2: a second text parsed on top of the environment the first parse returned, DIP(env)."""
    from scinumtools.dip import DIP
    from scinumtools.dip.settings import Format
    _speedup()
    if text2 is not None:
        try:
            with DIP() as d:
                d.add_string(text)
                env1 = d.parse()
            with DIP(env1) as d:
                d.add_string(text2)
                env = d.parse()
        except Exception as e:
            return "reject", type(e).__name__ + ": " + str(e)[:160]
        return _data(env)
    try:
        with DIP() as d:
            d.add_string(text)
            env = d.parse()
    except Exception as e:                         # the property: "otherwise parsing fails"
        return "reject", type(e).__name__ + ": " + str(e)[:160]
    return _data(env)


def _data(env):
    from scinumtools.dip.settings import Format
    try:
        raw = env.data(format=Format.TUPLE)
    except Exception as e:
        return "accept", {"#data_error": type(e).__name__ + ": " + str(e)[:160]}
    data = {}
    for k, v in raw.items():
        if isinstance(v, tuple):
            data[k] = [_plain(v[0]), v[1]]
        else:
            data[k] = [_plain(v), None]
    return "accept", data


# ----------------------------------------------------------------------------- obligations

PREC = 1e-6              # the documented EQUAL_PRECISION


def _bk(o):
    return float(Fraction(o["b"][0], o["b"][1]) * Fraction(SCALE + o["k"], SCALE))


def _close(a, b):
    return abs(a - b) <= PREC * max(abs(a), abs(b))


def _cmp(op, l, r):
    if op == "==":
        return _close(l, r)
    if op == "!=":
        return not _close(l, r)
    if op == "<=":
        return l < r or _close(l, r)
    if op == ">=":
        return l > r or _close(l, r)
    if op == "<":
        return l < r
    if op == ">":
        return l > r
    raise ValueError(op)


def _atom(a, val):
    if "b" in a:
        lit = _bk(a)
        v = float(val)
        return _cmp(a["op"], v, lit) if a["left"] == "self" else _cmp(a["op"], lit, v)
    lit = a["lit"]
    if a["op"] == "is":
        return bool(val) is True
    ref = lit["s"] if lit["t"] == "str" else lit["b"]
    same = (val == ref)
    return same if a["op"] == "==" else not same


def failing(obls, data, path):
    """Names of the obligations that the returned data do not fulfil (empty = all hold)."""
    if "#data_error" in data:
        return ["data(): " + data["#data_error"]]
    if path not in data:
        return ["node %s missing from data()" % path]
    val, unit = data[path]
    out = []
    for o in obls:
        k = o["o"]
        try:
            if k == "value":
                if "b" in o:
                    exp = _bk(o)
                    if val is None or isinstance(val, (list, str)) or abs(float(val) - exp) > 1e-9 * abs(exp) + 1e-12:
                        out.append("value %r != %r" % (val, exp))
                    if (unit or "") != o["unit"]:
                        out.append("unit %r != %r" % (unit, o["unit"]))
                else:
                    lit = o["lit"]
                    ref = real_str(lit["s"]) if lit["t"] == "str" else lit["b"]
                    if isinstance(ref, bool):
                        if not isinstance(val, bool) or val != ref:
                            out.append("value %r != %r" % (val, ref))
                    elif val != ref:
                        out.append("value %r != %r" % (val, ref))
            elif k == "one_of":
                ok = False
                for a in o["alts"]:
                    if "s" in a:
                        ok = ok or val == a["s"]
                    else:
                        ok = ok or _close(float(val), _bk(a))
                if not ok:
                    out.append("value %r is none of the options" % (val,))
            elif k == "cond":
                rs = [_atom(a, val) for a in o["atoms"]]
                if not (any(rs) if o["join"] == "or" else all(rs)):
                    out.append("condition false for %r" % (val,))
            elif k == "fullmatch":
                if not isinstance(val, str) or re.fullmatch(o["pat"], val) is None:
                    out.append("value %r does not match %s" % (val, o["pat"]))
            elif k == "shape":
                import numpy as np
                if list(np.shape(val)) != list(o["shape"]):
                    out.append("shape %r != %r" % (list(np.shape(val)), o["shape"]))
            elif k == "bounds":
                import numpy as np
                sh = list(np.shape(val))
                if len(sh) != len(o["dims"]) or any((lo != -1 and s < lo) or (hi != -1 and s > hi)
                                                    for s, (lo, hi) in zip(sh, o["dims"])):
                    out.append("shape %r outside %r" % (sh, o["dims"]))
            else:
                out.append("unknown obligation " + k)
        except Exception as e:                          # an obligation that cannot be evaluated does not hold
            out.append("%s: %s" % (k, e))
    return out


# ----------------------------------------------------------------------------- format table (constants of the spec)

FMT_PATTERNS = ["[a-z]+$", "^[a-z]+$", "[a-z]+", "[a-z]{2}[0-9]$", "[a-z]+[0-9]", "^[a-z][a-z0-9]*$",
                "^[a-z]+([^a-zA-Z0-9][a-z]+)*$"]        # the last one admits several lines of letters
FMT_STRINGS = ["abc", "ab1", "1ab", "ab12", "Abc", "abc|abd", "abc|ab1", "ab1|abc"]   # `|` = line break


def fmt_class(pat, s):
    """How Python's re (the documented regex dialect) relates pattern and string."""
    s = real_str(s)
    if re.fullmatch(pat, s):
        return "full"
    if re.match(pat, s):
        return "prefix"
    if re.search(pat, s):
        return "inner"
    return "none"
