"""C10 - a molecular formula is decomposed into exactly its atoms.

1. TLC (spec/FormulaGen.tla, Source="enum") builds every formula tree inside the bound, checks the lemmas of the
   ideal (spec/Formula.tla: ParseIdeal(PrintAst(t)) = t, distribution of multipliers, bag union, scaling) and that the
   machine (preprocessor output -> spec/SolverMachine.tla instantiated with {par, ' * ', ' + '} -> Substance arithmetic
   on bags) yields Expand(t); it emits every tree as an abstract token string.
2. The harness concretises: binds the variables to real species (all 118 elements, every tabulated isotope, nucleons,
   charges, D/T, each at least once per run), re-draws the multiplier values, chooses the isotope mode, pairs formulas
   for a+b / a*n, and adds deeper random derivations of the grammar.  These inputs go back to TLC (Source="file"),
   which parses them with the ideal grammar, classifies them and emits the expectations as obligations: counts, Z, N,
   e exact from the generated isotope table, masses as terms over the table.
3. Every record is rendered to text and given to the real Substance / Element; the obligations are evaluated on what
   components[*].proportion, data_components(), data_composite()['sum'], a+b and a*n report (verdict), and the
   preprocessor's actual output and the accept/reject outcome are compared with the machine (conformance / drift).
"""
import json, operator, os, random, sys, time
from . import common as C
from . import terms as T

PID = "C10"
STYLES = ["implicit", "blank", "explicit", "mixA", "mixB"]
VARS4 = ["a", "b", "c", "d"]
MULTS_FILE = [2, 3, 4, 5, 6, 7, 8, 9, 10, 11, 12, 16, 20, 24, 100]
DEV = "blank_dropped_after_group_mult"
DEV_TAGS = {"group_mult_then_group", "group_mult_then_plus"}


def cfg(vars_, mults, maxnodes, maxd, notation, emit, source, devs, known):
    return f"""CONSTANTS
  Vars = {C.tla_str(set(vars_))}
  VarSeq <- MCVarSeq
  Mults = {C.tla_str(set(mults))}
  MaxNodes = {maxnodes}
  MaxDepth = {maxd}
  Notation = "{notation}"
  Styles = {C.tla_str(set(STYLES))}
  Emit = {C.tla_str(emit)}
  Source = "{source}"
  Deviations = {C.tla_str(set(devs))}
  KnownDevs = {C.tla_str(set(known))}
INIT Init
NEXT Next
INVARIANT Refines
CHECK_DEADLOCK FALSE
"""


def mc_module(wd, name, varseq):
    with open(os.path.join(wd, name + ".tla"), "w") as f:
        f.write(f"---- MODULE {name} ----\nEXTENDS FormulaGen\nMCVarSeq == {C.tla_str(list(varseq))}\n====\n")


def known_devs():
    """Feature tags of the open findings that name the preprocessor deviation; the machine keeps the deviation
    exactly as long as such a finding is open."""
    tags = set()
    for f in C.Findings(PID).open:
        tags |= set(f.get("tags", [])) & DEV_TAGS
    return tags


# ------------------------------------------------------------------ input generation (harness side)

def deep_tokens(rnd, budget, depth, nvars):
    """A random derivation of the documented grammar: token list (notation chosen at random)."""
    def seq(d, first_budget):
        n = rnd.choice([1, 1, 2, 2, 3, 4])
        out = []
        prev_explicit = False
        for i in range(n):
            if budget[0] <= 0 and i > 0:
                break
            if i > 0:
                if prev_explicit and rnd.random() < 0.9:
                    out.append(" + ")
                else:
                    s = rnd.choice(["", "", " ", " + "])
                    if s:
                        out.append(s)
            budget[0] -= 1
            if d > 0 and budget[0] > 0 and rnd.random() < 0.4:
                out += ["("] + seq(d - 1, budget) + [")"]
            else:
                out.append(rnd.choice(VARS4[:nvars]))
            prev_explicit = False
            r = rnd.random()
            if r < 0.3:
                out.append("2")
            elif r < 0.45:
                out += [" * ", "2"]
                prev_explicit = True
        return out
    return seq(depth, budget)


def redraw_mults(toks, rnd, extra=1):
    """Replace every multiplier token by a seeded choice; keep the largest possible count times Z below 2^31."""
    idx = [i for i, t in enumerate(toks) if t.isdigit()]
    for attempt in range(20):
        vals = [rnd.choice(MULTS_FILE if attempt < 10 else [2, 3, 4, 5]) for _ in idx]
        prod = extra
        for v in vals:
            prod *= v
        nsp = sum(1 for t in toks if t in VARS4)
        if prod * 120 * max(nsp, 1) < 2 ** 30:
            break
    out = list(toks)
    for i, v in zip(idx, vals):
        out[i] = str(v)
    return out


class Binder:
    """Hands out species so that every pool entry is used at least once per cycle."""

    def __init__(self, A, rnd):
        self.A, self.rnd = A, rnd
        pool = A.species_pool()
        self.unsp = [s for s in pool if not s["nuc"] and s["A"] == 0 and A.no_abundance(s["el"])]
        self.pool_main = [s for s in pool if s not in self.unsp]
        # an element without a given isotope takes the longer way through the code (mean over / choice among the
        # isotopes): it gets twice the weight of a single isotope
        self.main = self.pool_main + [s for s in self.pool_main if not s["nuc"] and s["A"] == 0]
        rnd.shuffle(self.main)
        self.pos = 0
        self.used = set()

    def next(self):
        s = self.main[self.pos % len(self.main)]
        self.pos += 1
        return s

    def bind(self, vars_):
        out, keys = {}, set()
        for v in vars_:
            for _ in range(50):
                sp = self.A.with_charge(self.next(), self.rnd)
                k = self.A.sp_key(sp)
                if k not in keys:
                    break
            keys.add(k)
            sp["key"] = k
            out[v] = sp
            self.used.add((sp["nuc"], sp["el"], sp["A"]))
        return out


def build_items(shapes, tier, sd, A):
    """shapes: abstract token strings from TLC's enumeration (+ harness-drawn deep ones).  -> list of file items."""
    rnd = random.Random(sd * 7919 + 11)
    binder = Binder(A, rnd)
    items = []
    nshape = len(shapes)
    mul_ns = [[2, 1], [3, 1], [1, 2], [5, 2], [10, 1]]
    def item(toks, op, i, toks2=None, v="", n=None):
        n = n or [1, 1]
        toks = redraw_mults(toks, rnd, extra=n[0])
        toks2 = redraw_mults(toks2, rnd) if toks2 is not None else []
        vs = [x for x in VARS4 if x in toks or x in toks2 or x == v]
        return dict(kind="formula", toks=toks, bind=binder.bind(vs), natural=bool((i + sd) % 2 == 0), op=op,
                    toks2=toks2, v=v, n=n, wide=rnd.random() < 0.3, wseed=rnd.randrange(1 << 30))
    for i, toks in enumerate(shapes):
        if i % 5 == 3:
            items.append(item(toks, "add", i, toks2=shapes[rnd.randrange(nshape)]))
        elif i % 7 == 5:
            items.append(item(toks, "mul", i, n=rnd.choice(mul_ns)))
        elif i % 11 == 7:
            items.append(item(toks, "addin", i, toks2=shapes[rnd.randrange(nshape)], v=rnd.choice(VARS4[:2]), n=[rnd.randint(1, 5), 1]))
        elif i % 13 == 9:
            items.append(item(toks, "perturb", i))
        elif i % 17 == 2:
            items.append(item(toks, "iadd", i, toks2=shapes[rnd.randrange(nshape)]))
        elif i % 17 == 4:
            items.append(item(toks, "imul", i, n=rnd.choice(mul_ns)))
        elif i % 17 == 6:
            items.append(item(toks, "addel", i, v=rnd.choice(VARS4[:2]), n=[rnd.randint(1, 5), 1]))
        elif i % 17 == 12:
            # one solver instance: a formula with a species that is not tabulated (unknown symbol / isotope), then this one
            t2 = list(shapes[rnd.randrange(nshape)])
            free = [x for x in VARS4 if x not in toks]
            if not free:
                items.append(item(toks, "none", i))
                continue
            vbad = rnd.choice([x for x in VARS4 if x in t2])
            t2 = [(free[0] if t == vbad else t) for t in t2]          # that species of the first formula is not tabulated
            it0 = item(toks, "reuse", i, toks2=t2)
            it0["bind"][free[0]] = dict(rnd.choice(A.UNTABULATED), key="untabulated")
            items.append(it0)
        elif i % 17 in (8, 10):
            # a sum, then an in-place add() on the sum / on the right operand of a species the right operand has
            t2 = shapes[rnd.randrange(nshape)]
            items.append(item(toks, "addsum" if i % 17 == 8 else "addopnd", i, toks2=t2,
                              v=rnd.choice([x for x in VARS4 if x in t2]), n=[rnd.randint(1, 5), 1]))
        else:
            items.append(item(toks, "none", i))
    # histories on the smallest formulas, systematically: the formula, an in-place add() of each of two species, then
    # later parses of another formula containing that species and of the formula itself
    small = [t for t in shapes if len(t) <= 3]
    withv = {v: [t for t in shapes if v in t and 2 <= len(t) <= 8] for v in VARS4[:2]}
    for k, toks in enumerate(small):
        for v in VARS4[:2]:
            items.append(item(toks, "addin", k, toks2=rnd.choice(withv[v]), v=v, n=[rnd.randint(1, 4), 1]))
    # elements without natural abundances, isotope not given: outside the property (unspecified), once each
    for k, sp in enumerate(binder.unsp):
        sp = dict(sp); sp["key"] = A.sp_key(sp)
        items.append(dict(kind="formula", toks=["a"], bind={"a": sp}, natural=bool(k % 2), op="none", toks2=[], n=[1, 1],
                          wide=False, wseed=0))
    # every species a formula refers to is tabulated by TLC once per isotope mode (targets of the ["ref", key, f] terms)
    seen = {}
    for it in items:
        for sp in it["bind"].values():
            if sp["key"] != "untabulated":
                seen.setdefault((sp["key"], it["natural"]), sp)
    # ... and the whole pool directly as Element(text), charged variants included
    for sp in binder.pool_main:
        for nat in (True, False):
            sp2 = A.with_charge(sp, rnd); sp2["key"] = A.sp_key(sp2)
            seen.setdefault((sp2["key"], nat), sp2)
            if tier == "thorough":
                sp0 = dict(sp); sp0["key"] = A.sp_key(sp0)
                seen.setdefault((sp0["key"], nat), sp0)
    for (key, nat), sp in seen.items():
        items.append(dict(kind="species", sp=sp, natural=nat, key=key + ("|n" if nat else "|a")))
    # the reference key must name the isotope mode
    for it in items:
        if it["kind"] == "formula":
            sfx = "|n" if it["natural"] else "|a"
            it["bind"] = {v: dict(sp, key=sp["key"] + sfx) for v, sp in it["bind"].items()}
    for i, it in enumerate(items):
        it["id"] = i + 1
    return items, binder


# ------------------------------------------------------------------ replay of one record against the real code

_SPREF = {}        # key -> data record emitted by TLC (filled in the parent before forking)


def _ref(key, field):
    return _SPREF[key][field]


def replay_formula(rec):
    """-> (status, detail).  status: ok | fail | unspecified | drift | machinery"""
    from . import materials_adapter as A
    it = rec["_item"]
    if rec["cls"].startswith("unspecified"):
        return ("unspecified", None)
    if rec["cls"] != "wellformed":
        return ("machinery", {"what": "harness produced an input the ideal grammar rejects", "cls": rec["cls"], "toks": rec["toks"]})
    bind = it["bind"]
    inv = {A.sp_text(sp): v for v, sp in bind.items()}
    rnd = random.Random(it["wseed"])
    texts = [A.render(rec["toks"], bind)]
    if it["wide"]:
        texts.append(A.render(rec["toks"], bind, rnd, wide=True))
    nat = it["natural"]
    drift = None
    for text in texts:
        obs = {}
        try:
            s = A.Substance(text, natural=nat)
        except Exception as e:
            return ("fail", {"text": text, "failure": "rejected", "clause": "a formula of the documented notation is accepted",
                             "expected": {"bag": rec["bag"]}, "observed": "raises " + repr(e)[:160]})
        try:
            A.observe_substance(s, inv, "A.", obs)
            op = it["op"]
            if op == "add":
                b = A.Substance(A.render(it["toks2"], bind), natural=nat)
                r = s + b
                A.observe_substance(r, inv, "R.", obs)
                A.observe_substance(s, inv, "A2.", obs)          # the operands after the addition
                A.observe_substance(b, inv, "B.", obs)
            elif op == "mul":
                n = it["n"]
                r = s * (n[0] if n[1] == 1 else n[0] / n[1])
                A.observe_substance(r, inv, "R.", obs)
                A.observe_substance(s, inv, "A2.", obs)
            elif op in ("addsum", "addopnd"):
                b = A.Substance(A.render(it["toks2"], bind), natural=nat)
                r = s + b
                (r if op == "addsum" else b).add(A.sp_text(bind[it["v"]]), it["n"][0])       # in place
                A.observe_substance(r, inv, "R.", obs)
                A.observe_substance(s, inv, "A2.", obs)
                A.observe_substance(b, inv, "B.", obs)
            elif op == "reuse":
                sub = A.Substance(natural=nat)
                with A.SubstanceSolver(sub.atom) as ss:           # one solver instance for both formulas
                    try:
                        ss.solve(A.render(it["toks2"], bind))
                        obs["first.raises"] = 0
                    except Exception:
                        obs["first.raises"] = 1
                    r = ss.solve(text)
                A.observe_substance(r, inv, "R.", obs)
            elif op == "iadd":
                b = A.Substance(A.render(it["toks2"], bind), natural=nat)
                r = operator.iadd(s, b)                           # s += b
                A.observe_substance(r, inv, "R.", obs)
                A.observe_substance(b, inv, "B.", obs)
            elif op == "imul":
                n = it["n"]
                r = operator.imul(s, n[0] if n[1] == 1 else n[0] / n[1])      # s *= n
                A.observe_substance(r, inv, "R.", obs)
            elif op == "addel":
                r = s + A.Element(A.sp_text(bind[it["v"]]), proportion=it["n"][0], natural=nat)
                A.observe_substance(r, inv, "R.", obs)
                A.observe_substance(s, inv, "A2.", obs)
            elif op == "addin":
                s.add(A.sp_text(bind[it["v"]]), it["n"][0])       # in place
                A.observe_substance(s, inv, "R.", obs)
                A.observe_substance(A.Substance(A.render(it["toks2"], bind), natural=nat), inv, "B.", obs)   # parsed later
                A.observe_substance(A.Substance(text, natural=nat), inv, "C.", obs)
            elif op == "perturb":
                A.perturb_reported(s)
                A.observe_substance(s, inv, "R.", obs)
        except Exception as e:
            return ("fail", {"text": text, "failure": "rejected", "clause": "components / data tables / a+b / a*n / add() can be obtained",
                             "expected": {"bag": rec["bag"]}, "observed": "raises " + repr(e)[:160]})
        bad = T.failing(rec["obl"], T.Env(obs=obs, tab=A.tab, ref=_ref))
        if bad:
            return ("fail", {"text": text, "failure": "wrong_value",
                             "clause": "obligation " + ", ".join(b[0] for b in bad),
                             "expected": [[b[0], b[2]] for b in bad], "observed": [[b[0], b[1]] for b in bad],
                             "counts": {k: v for k, v in obs.items() if ".count." in k}})
        # conformance of the machine spec (no verdict): preprocessor output and accept/reject
        if drift is None:
            try:
                pt = A.pre_tokens(text, inv)
            except Exception as e:
                pt = ["#raises"]
            if pt != rec["pre"]:
                drift = {"text": text, "machine_pre": rec["pre"], "observed_pre": pt}
            elif rec["merr"]:
                drift = {"text": text, "machine": "rejects", "observed": "accepted"}
    if drift:
        return ("drift", drift)
    return ("ok", None)


def replay_species(rec):
    from . import materials_adapter as A
    it = rec["_item"]
    if rec["cls"].startswith("unspecified"):
        return ("unspecified", None)
    if rec["cls"] != "wellformed":
        return ("machinery", {"what": "invalid species binding", "sp": it["sp"]})
    text = A.sp_text(it["sp"])
    try:
        e = A.Element(text, natural=it["natural"])
        obs = {"E.Z": e.Z, "E.N": e.N, "E.e": e.e, "E.mass": e.mass.value("Da")}
    except Exception as ex:
        return ("fail", {"text": text, "failure": "rejected", "clause": "a tabulated species is accepted",
                         "expected": "an Element", "observed": "raises " + repr(ex)[:160]})
    bad = T.failing(rec["obl"], T.Env(obs=obs, tab=A.tab, ref=_ref))
    if bad:
        return ("fail", {"text": text, "failure": "wrong_value", "clause": "obligation " + ", ".join(b[0] for b in bad),
                         "expected": [[b[0], b[2]] for b in bad], "observed": [[b[0], b[1]] for b in bad]})
    return ("ok", None)


def replay_record(rec):
    try:
        if rec["kind"] == "species":
            return replay_species(rec)
        return replay_formula(rec)
    except Exception as e:                     # a bug of the harness must not look like a verdict
        import traceback
        return ("machinery", {"what": "harness exception", "trace": traceback.format_exc()[-800:]})


def scenario_of(rec):
    it = rec["_item"]
    sc = {k: rec.get(k) for k in ("kind", "cls", "toks", "tags", "bag", "pre", "merr", "obl", "key")}
    sc["_item"] = it
    sc["_spref"] = {}
    def collect(t):
        if isinstance(t, list):
            if t and t[0] == "ref":
                sc["_spref"][t[1]] = _SPREF[t[1]]
            else:
                for x in t:
                    collect(x)
    for ob in rec.get("obl", []):
        collect(ob["lhs"]); collect(ob["rhs"])
    return sc


# ------------------------------------------------------------------ main

def run(replay=None):
    from . import materials_adapter as A
    V = C.Verdicts(PID, "model_checking")
    if replay:
        body = json.load(open(replay))
        rec = body["scenario"]
        _SPREF.update(rec.get("_spref", {}))
        st, det = replay_record(rec)
        print(f"replay {replay}: {st} {json.dumps(det, default=str)[:600]}")
        if st == "fail" and C.Findings(PID).match(body.get("tags", []), body.get("failure")) is None:
            print(f"VIOLATION property={PID} replay={replay}")
            return 1
        return 0
    wd = C.workdir(PID)
    t, sd = C.tier(), C.seed()
    A.write_tables(wd)
    known = known_devs()
    devs = {DEV} if known else set()
    # emission runs excuse every feature through which the NAMED deviation is reached, so that TLC always enumerates the
    # whole space; what is excused for the design-level verdict are only the open findings (extra run below)
    excuse = set(DEV_TAGS) if devs else set()
    # ---- 1. exhaustive enumeration: design-level check and scenario shapes
    if t == "quick":
        enum_cfgs = [("full", ["a", "b"], 3, 3), ("styles", ["a", "b"], 4, 3)]
        ndeep = 800
    else:
        enum_cfgs = [("full", ["a", "b"], 4, 3), ("styles", ["a", "b", "c"], 5, 3)]
        ndeep = 12000
    states = trans = 0
    shapes, shape_seen = [], set()
    enum_classes = {}
    tlc_notes = []
    for k, (notation, vs, maxn, maxd) in enumerate(enum_cfgs):
        mc_module(wd, f"FormulaMC{k}", vs)
        r = C.run_tlc(wd, f"FormulaMC{k}", cfg(vs, [2], maxn, maxd, notation, True, "enum", devs, excuse))
        states += r.distinct; trans += r.generated
        if r.violated:
            tlc_notes.append(f"TLC enum/{notation}: {r.violated}: " + r.cex[:600])
        for rec in r.records:
            enum_classes[rec["cls"]] = enum_classes.get(rec["cls"], 0) + 1
            key = tuple(rec["toks"])
            if key not in shape_seen:
                shape_seen.add(key); shapes.append(rec["toks"])
    # ---- sensitivity of the design-level check: with the deviation switched on and no finding excused, TLC must
    #      produce a counterexample (thorough only; it is a check of the spec, not of the code)
    if devs and known != DEV_TAGS:
        mc_module(wd, "FormulaMCd", ["a", "b"])
        rd = C.run_tlc(wd, "FormulaMCd", cfg(["a", "b"], [2], 3, 2, "full", False, "enum", devs, known), want_records=False)
        states += rd.distinct; trans += rd.generated
        if rd.violated:
            tlc_notes.append("TLC (open findings only): the machine spec deviates from the ideal: " + rd.cex[:300])
    sens = None
    if t == "thorough":
        mc_module(wd, "FormulaMCs", ["a", "b"])
        rs = C.run_tlc(wd, "FormulaMCs", cfg(["a", "b"], [2], 3, 2, "full", False, "enum", {DEV}, set()), want_records=False)
        sens = bool(rs.violated)
        states += rs.distinct; trans += rs.generated
    # ---- 2. harness-drawn inputs: deeper derivations, species bindings, multiplier values, a+b / a*n
    rnd = random.Random(sd * 104729 + 5)
    nd = 0
    while nd < ndeep:
        toks = deep_tokens(rnd, [rnd.choice([4, 6, 8, 10])], rnd.choice([1, 2, 3, 4]), rnd.choice([2, 3, 4]))
        if tuple(toks) not in shape_seen and len(toks) <= 48:
            shape_seen.add(tuple(toks)); shapes.append(toks); nd += 1
    items, binder = build_items(shapes, t, sd, A)
    recs = []
    CH = 30000
    mc_module(wd, "FormulaMCf", VARS4)
    for c0 in range(0, len(items), CH):
        fin = os.path.join(wd, f"items{c0}.json")
        with open(fin, "w") as f:
            json.dump(items[c0:c0 + CH], f)
        r = C.run_tlc(wd, "FormulaMCf", cfg(VARS4, MULTS_FILE, 0, 0, "full", True, "file", devs, excuse),
                      env={"FORMULA_IN": fin})
        states += r.distinct; trans += r.generated
        if r.violated:
            tlc_notes.append("TLC file: " + str(r.violated) + ": " + r.cex[:600])
        recs += r.records
        os.remove(fin)
    byid = {it["id"]: it for it in items}
    if len(recs) != len(items):
        raise C.MachineryError(f"TLC returned {len(recs)} records for {len(items)} items")
    for rec in recs:
        rec["_item"] = byid[rec["id"]]
        if rec["kind"] == "species" and rec["cls"] == "wellformed":
            _SPREF[rec["key"]] = rec["data"]
    # ---- 3. replay
    recs.sort(key=lambda r: r["id"])
    res = C.pmap(replay_record, recs)
    nontrivial, feat, evals = set(), {}, 0
    cover_sp = set()
    for rec, (st, det) in zip(recs, res):
        tags = list(rec.get("tags", []))
        if st == "ok":
            V.ok()
        elif st == "unspecified":
            V.unspecified()
        elif st == "drift":
            V.ok(); V.drift(json.dumps(det)[:300])
        elif st == "machinery":
            raise C.MachineryError(json.dumps(det)[:1500])
        else:
            V.fail(scenario_of(rec), det.get("expected"), det.get("observed"), det["clause"] + " :: " + det["text"],
                   tags=tags, failure=det["failure"])
        if st in ("ok", "drift", "fail"):
            evals += 1
            for tg in tags:
                feat[tg] = feat.get(tg, 0) + 1
            if rec["kind"] == "formula":
                if len(rec["toks"]) >= 2:
                    nontrivial.add(tuple(rec["toks"]))
                for sp in rec["_item"]["bind"].values():
                    cover_sp.add((sp["nuc"], sp["el"], sp["A"]))
            else:
                sp = rec["_item"]["sp"]
                cover_sp.add((sp["nuc"], sp["el"], sp["A"]))
    for n in tlc_notes:
        V.notes.append(n)
    if tlc_notes and V.counts["violation"] == 0:
        V.drift("TLC counterexample (machine vs ideal) not reproduced by the code")
    pool = A.species_pool()
    pool_keys = {(s["nuc"], s["el"], s["A"]) for s in pool}
    samp = [r for r in recs if r["kind"] == "formula" and r["cls"] == "wellformed"]
    V.cov.update({
        "states": states, "transitions": trans,
        "traces_validated_against_impl": sum(1 for r in recs if r["kind"] == "formula" and r["cls"] == "wellformed"),
        "evaluations": evals,
        "distinct_nontrivial": len(nontrivial),
        "rule": "TLC enumerates every formula tree with <= %d nodes in every notation and <= %d nodes under 5 notation patterns "
                "(nesting <= 3), plus %d random grammar derivations (<= 10 nodes, nesting <= 4); each is bound by a seeded sweep to "
                "real species (every pool entry at least once), multiplier values re-drawn, isotope mode alternating, every 5th paired "
                "for a+b, every 7th for a*n; TLC computes the expectations; non-trivial = distinct abstract token strings with >= 2 tokens "
                "that were replayed into Substance" % (enum_cfgs[0][2], enum_cfgs[1][2], ndeep),
        "samples": [{"text": A.render(r["toks"], r["_item"]["bind"]), "natural": r["_item"]["natural"], "tokens": r["toks"],
                     "bag": r["bag"], "tags": r["tags"], "obligations": len(r["obl"])} for r in (samp[40:43] + samp[-3:])],
        "exhaustive": True,
        "enum_classes": enum_classes,
        "species_pool": len(pool_keys), "species_covered": len(cover_sp & pool_keys),
        "species_pool_unspecified": len(binder.unsp),       # isotope not given, element without natural abundances
        "elements_covered": len({k[1] for k in cover_sp if k[1]}),
        "feature_counts": feat,
        "tlc_refines": "ok" if not tlc_notes else "counterexample",
        "tlc_sensitivity_counterexample_with_unexcused_deviation": sens,
        "machine_deviations_enabled": sorted(devs),
    })
    V.assumptions += [
        "the isotope table, the abundances and the unit table ([m_e], [m_p], [m_n] in Da) of the library are given (property text); masses are compared with terms over them at rel 1e-9",
        "blanks are optional where a separator stands (between terms, around explicit operators); a number written with ' * ' directly followed by a juxtaposed term is unspecified",
        "an unspecified isotope of an element without natural abundances (34 elements) is unspecified",
        "D and T carry their mass number; 'D{3}' is not generated",
    ]
    C.cleanup(PID)
    return V.finish()
