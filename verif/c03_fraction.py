"""Growth of the units specification (DESIGN 6): Fraction / Dimensions, spec/FractionDim.tla + FractionDimMC.tla.

TLC explores every history of at most Depth public operations on one Fraction / one Dimensions object
(machine cells raw and mutated in place exactly as the code does, ideal = the rational denoted), checks the
lemmas and prints every complete history with the ideal's and the machine's observation per step; every
history is replayed here on the real classes.  Not part of a listed property: disagreements are notes
(`drift`), never a VIOLATION of C03; the counts go to coverage.fraction_dimensions of the C03 evidence.
"""
import json
from . import common as C

FRAC_POOL = [(0, 1), (0, -3), (1, 1), (2, 1), (-2, 1), (1, 2), (4, 8), (4, 2), (-4, 2), (3, -1), (-2, -4), (2, -4), (6, 4), (-3, 3),
             (1, 3), (-1, 3), (3, 3), (2, 3), (-6, -2), (6, -9)]
DIMS_POOL = [(0, 1), (0, -3), (2, 1), (4, 2), (-2, -4), (3, -1), (1, 3)]
OPERANDS = [("int", (3, 1)), ("int", (-2, 1)), ("int", (0, 1)), ("tuple", (1, 2)), ("tuple", (-3, 2)), ("tuple", (2, -4)),
            ("frac", (2, 3)), ("frac", (4, 2)), ("frac", (0, 5)), ("float", (1, 2)), ("float", (-3, 2))]
OPERANDS_Q = [("int", (3, 1)), ("int", (-2, 1)), ("tuple", (-3, 2)), ("tuple", (2, -4)), ("frac", (2, 3)), ("frac", (4, 2)), ("float", (1, 2))]
OPERANDS_SMALL = [("int", (3, 1)), ("int", (-2, 1)), ("tuple", (2, -4)), ("frac", (4, 2)), ("float", (1, 2))]
DIM_OPERANDS = [((1, 1), (0, 1), (0, 1)), ((-4, 2), (1, 3), (0, 1)), ((2, 1), (2, 3), (0, 1))]


def cfg(depth, modes, frac_pool, dim_pool, operands, dim_operands, value_normalises, invariants, emit=True):
    t = lambda p: "<<%d, %d>>" % p
    ops = "{" + ", ".join('[form |-> "%s", p |-> %s]' % (f, t(p)) for f, p in operands) + "}"
    dops = "{" + ", ".join("<<" + ", ".join(t(p) for p in v) + ">>" for v in dim_operands) + "}"
    pool = "{" + ", ".join(t(p) for p in frac_pool) + "}"
    dpool = "{" + ", ".join(t(p) for p in dim_pool) + "}"
    mc = ("---- MODULE FractionDimRun ----\nEXTENDS FractionDimMC\n"
          f"CellPoolV == {pool}\nDimPoolV == {dpool}\nOperandsV == {ops}\nDimOperandsV == {dops}\n"
          "ModesV == {" + ", ".join(json.dumps(m) for m in modes) + "}\n====\n")
    c = ("SPECIFICATION Spec\nCONSTANTS\n CellPool <- CellPoolV\n DimPool <- DimPoolV\n Operands <- OperandsV\n DimOperands <- DimOperandsV\n"
         f" Modes <- ModesV\n Depth = {depth}\n ValueNormalises = {'TRUE' if value_normalises else 'FALSE'}\n"
         + "".join(f"INVARIANT {i}\n" for i in invariants) + ("INVARIANT Emit\n" if emit else "") + "CHECK_DEADLOCK FALSE\n")
    return mc, c


def _tlc(wd, depth, modes, pool, dpool, operands, dimops, vn, invs, emit=True):
    mc, c = cfg(depth, modes, pool, dpool, operands, dimops, vn, invs, emit)
    with open(f"{wd}/FractionDimRun.tla", "w") as f:
        f.write(mc)
    return C.run_tlc(wd, "FractionDimRun", c)


def _enc(v):
    import numpy as np
    if isinstance(v, tuple):
        return "p:%d:%d" % (int(v[0]), int(v[1]))
    if isinstance(v, (int, np.integer)) and not isinstance(v, bool):
        return "i:%d" % int(v)
    return "?:" + repr(v)


def replay(job):
    """Replay one TLC history on the real classes; returns (ok, explained, unexplained, first unexplained detail)."""
    rec, names = job
    from scinumtools.units import Fraction, Dimensions
    from scinumtools.units.settings import DIMENSION_LIST
    mode, hist = rec["mode"], rec["hist"]
    n1, n2 = names

    def cell_of(name):
        return 0 if name == n1 else 1 if name == n2 else 2

    def build(cells):
        if mode == "frac":
            return Fraction(*cells[0])
        return Dimensions(**{nm: Fraction(*cells[cell_of(nm)]) for nm in DIMENSION_LIST})

    def operand(o):
        if o["form"] == "int":
            return o["p"][0]
        if o["form"] == "tuple":
            return tuple(o["p"])
        if o["form"] == "frac":
            return Fraction(*o["p"])
        if o["form"] == "float":
            return o["p"][0] / o["p"][1]
        if o["form"] == "dims":
            return Dimensions(**{nm: Fraction(*o["ps"][cell_of(nm)]) for nm in DIMENSION_LIST})
        raise C.MachineryError("operand " + repr(o))

    def expect(op, obs):
        if mode == "frac":
            return {"str": lambda: obs[0], "val": lambda: obs[0], "eq": lambda: bool(obs)}[op]()
        per = [obs[cell_of(nm)] for nm in DIMENSION_LIST] if isinstance(obs, list) else obs
        if op == "str":
            return "Dimensions(" + " ".join(f"{nm}={s}" for nm, s in zip(DIMENSION_LIST, per) if s != "0") + ")"
        if op == "val":
            return per
        if op == "valdict":
            return {nm: v for nm, v in zip(DIMENSION_LIST, per) if v != "i:0"}
        if op == "valnames":
            return [nm for nm, v in zip(DIMENSION_LIST, per) if v]
        return bool(obs)        # nodim, eq

    def observe(op, x, o):
        if op == "str":
            s = str(x)
            if repr(x) != s:
                return "repr differs from str: " + repr(x)
            return s
        if op == "eq":
            return bool(x == operand(o))
        if mode == "frac":
            return _enc(x.value())
        if op == "val":
            return [_enc(v) for v in x.value()]
        if op == "valdict":
            return {k: _enc(v) for k, v in x.value(dtype=dict).items()}
        if op == "valnames":
            return list(x.value(dtype=tuple))
        if op == "nodim":
            return bool(x.nodim)
        raise C.MachineryError(op)

    x = build(hist[0]["cells"])
    ok = explained = unexplained = 0
    detail = None
    done = []
    for e in hist[1:]:
        op, o = e["op"], e["o"]
        done.append(op if not o else f"{op}({o.get('form')}:{o.get('p', o.get('ps'))})")
        try:
            if op in ("str", "val", "valdict", "valnames", "nodim", "eq"):
                got = observe(op, x, o)
                want = expect(op, e["iobs"])
                if got == want:
                    ok += 1
                elif e["dev"] and got == expect(op, e["mobs"]):
                    explained += 1
                else:
                    unexplained += 1
                    detail = detail or {"mode": mode, "init": hist[0]["cells"], "ops": done[:], "expected": want, "observed": got}
                    break
            elif op == "neg":
                x = -x
            else:
                y = operand(o)
                x = x + y if op == "add" else x - y if op == "sub" else x * y if op == "mul" else x / y
        except C.MachineryError:
            raise
        except Exception as ex:
            unexplained += 1
            detail = detail or {"mode": mode, "init": hist[0]["cells"], "ops": done[:], "expected": "no exception",
                                "observed": type(ex).__name__ + ": " + str(ex)[:120]}
            break
    return ok, explained, unexplained, detail


def run(V, wd):
    """Runs the growth module; adds notes to V (never a violation); returns the coverage dict."""
    tier = C.tier()
    rnd = C.rng(41)
    depth = 2
    quick = tier == "quick"
    cov = {"spec": "spec/FractionDim.tla, spec/FractionDimMC.tla", "depth": depth}
    lem = ["Denotes", "Lemmas", "OpLemma", "OnlyNamed"]
    r = _tlc(wd, depth, ["frac", "dims"], FRAC_POOL[:14] if quick else FRAC_POOL, DIMS_POOL[2:5] if quick else DIMS_POOL,
             OPERANDS_Q if quick else OPERANDS, DIM_OPERANDS[1:] if quick else DIM_OPERANDS, False, lem)
    if r.violated:
        V.drift(f"fraction/dimensions: TLC invariant {r.violated} of FractionDimMC violated (design level): {r.cex[:300]}")
    recs = r.records
    states, trans = r.distinct, r.generated
    if tier != "quick":
        r3 = _tlc(wd, 3, ["frac", "dims"], DIMS_POOL[:5], DIMS_POOL[3:6], OPERANDS_SMALL, DIM_OPERANDS[:2], False, lem)
        if r3.violated:
            V.drift(f"fraction/dimensions: TLC invariant {r3.violated} violated at depth 3: {r3.cex[:300]}")
        recs = recs + r3.records
        states += r3.distinct; trans += r3.generated
        cov["depth"] = 3
    # sensitivity of the specification: history independence holds of the repaired machine and fails of the transcription
    s1 = _tlc(wd, 2, ["frac"], DIMS_POOL, DIMS_POOL[:1], OPERANDS_SMALL, DIM_OPERANDS[:1], True, ["HistoryIndependent", "Denotes"], emit=False)
    s0 = _tlc(wd, 2, ["frac"], DIMS_POOL, DIMS_POOL[:1], OPERANDS_SMALL, DIM_OPERANDS[:1], False, ["HistoryIndependent"], emit=False)
    cov["spec_sensitivity"] = {"HistoryIndependent with ValueNormalises=TRUE": "holds" if s1.ok else f"violated ({s1.violated})",
                               "HistoryIndependent with ValueNormalises=FALSE (transcription)":
                                   "counterexample" if s0.violated == "HistoryIndependent" else "NO counterexample"}
    if not s1.ok or s0.violated != "HistoryIndependent":
        raise C.MachineryError("FractionDimMC: sensitivity runs did not behave as designed: " + json.dumps(cov["spec_sensitivity"]))
    from scinumtools.units.settings import DIMENSION_LIST
    jobs = [(rec, tuple(rnd.sample(DIMENSION_LIST, 2))) for rec in recs]
    res = C.pmap(replay, jobs)
    tot = {"steps_ok": 0, "explained_by_value-not-normalised": 0, "unexplained": 0}
    noted = 0
    for (a, b, c, det) in res:
        tot["steps_ok"] += a; tot["explained_by_value-not-normalised"] += b; tot["unexplained"] += c
        if det and noted < 4:
            noted += 1
            V.drift("fraction/dimensions (growth, not a listed property): real classes disagree with spec/FractionDim.tla: " + json.dumps(det)[:400])
    cov.update({"states": states, "transitions": trans, "histories_replayed": len(recs), **tot,
                "named_deviation": "value-not-normalised: Fraction(4,2).value() -> (2, 1) although it prints as 2; after str() the same "
                                   "object reports 2 (history dependent)"})
    if recs and tot["explained_by_value-not-normalised"] == 0 and tot["unexplained"] == 0:
        V.notes.append("fraction/dimensions: the named deviation value-not-normalised no longer shows in the code (spec is stricter than needed)")
    return cov
