"""Growth beyond C17 (DESIGN section 6): node selection (spec/DipQuery.tla) and user functions (spec/DipFunc.tla).

Stage Q: TLC enumerates every ordered node list of <= N nodes over a menu of dotted names that share prefixes
(grid / grids / grid_fine / a.grid ...) and evaluates, per list, every query of a fixed query table under the IDEAL
(documentation, on name components) and the MACHINE (list_nodes.py / environment.py, on strings).  Each list is parsed
once by the real DIP; NodeList.query, Environment.request (with counts), Environment.data(query=, tags=),
ExportConfig.select and - on a second parse - the import `h {?query}` are compared with the record.
Stage F: user functions receive a copy of the data: what a function does to its argument cannot change the
environment (DipFunc.tla; replayed with mutating functions).

Verdicts: what an import delivers is C17 text -> V.fail (violation / known finding).  Everything else of these
stages is outside the property's text: a disagreement that the machine predicts (named deviation) is counted
unspecified and listed in the evidence notes; one that it does not predict is drift.  Never a violation.
"""
import json, os, collections
from . import common as C
from . import c17_adapter as A

PID = "C17"

ATOMS = ["grid", "_fine", "s", ".", "*", "x", "y", "z", "a", "zz"]


def atoms_of(text):
    out, i = [], 0
    while i < len(text):
        for a in sorted(ATOMS, key=len, reverse=True):
            if text.startswith(a, i):
                out.append(a)
                i += len(a)
                break
        else:
            raise ValueError(text)
    return out


def menus(tier, seed):
    names = ["grid", "grid.x", "grid.x.y", "grid.z", "grid_fine.x", "grids.x", "grids", "x", "a.grid.x"]
    tagsets = [["t2"], ["t1"], ["t1", "t2"], [], ["t1"], ["t2"], [], ["t1"], ["t1", "t2"]]
    r = seed % len(names)
    tagsets = tagsets[r:] + tagsets[:r]                      # which node carries which tags rotates with the seed
    menu = [{"atoms": atoms_of(n), "comps": n.split("."), "tags": t, "val": 11 + k}
            for k, (n, t) in enumerate(zip(names, tagsets))]
    qstr = ["*", "grid", "grid.*", "grid.x", "grid.x.*", "grid.x.y", "grid_fine.*", "grid_fine", "grids.*", "grids",
            "grids.x", "x", "x.*", "a.*", "a.grid.*", "a.grid.x", "zz", "zz.*", "grid.z", "grid.x.y.*"]
    queries = []
    for q in qstr:
        kind = "all" if q == "*" else "children" if q.endswith(".*") else "node"
        path = [] if q == "*" else (q[:-2] if kind == "children" else q).split(".")
        queries.append({"atoms": atoms_of(q), "kind": kind, "path": path})
    tagsels = [["t1"], ["t2"], ["t3"], ["t1", "t2"], ["t3", "t1"]]
    counts = [{"kind": "int", "n": 1, "lst": []}, {"kind": "int", "n": 0, "lst": []}, {"kind": "list", "n": 0, "lst": [0, 1]},
              {"kind": "list", "n": 0, "lst": [1, 2]}]
    return menu, queries, tagsels, counts


def mc(menu, queries, tagsels, counts, maxnodes, emit):
    seq = lambda xs: "<<" + ",\n   ".join(C.tla_str(x) for x in xs) + ">>"
    fix = lambda q: dict(q, path=q["path"])                  # an empty path prints as <<>>
    mod = f"""---- MODULE DipQueryMC ----
EXTENDS DipQuery
MCMenu == {seq(menu)}
MCQueries == {seq([fix(q) for q in queries])}
MCTagSels == {seq(tagsels)}
MCCounts == {seq(counts)}
====
"""
    cfg = f"""CONSTANTS
  Menu <- MCMenu
  Queries <- MCQueries
  TagSels <- MCTagSels
  Counts <- MCCounts
  MaxNodes = {maxnodes}
  Emit = {C.tla_str(emit)}
SPECIFICATION Spec
INVARIANT SelectionRefines
INVARIANT Explained
INVARIANT EmitInv
CHECK_DEADLOCK FALSE
"""
    return mod, cfg


def run_query_tlc(wd, tier, seed, maxnodes, workers=None):
    mod, cfg = mc(*menus(tier, seed), maxnodes, True)
    with open(os.path.join(wd, "DipQueryMC.tla"), "w") as f:
        f.write(mod)
    return C.run_tlc(wd, "DipQueryMC", cfg, workers=workers)


def tlc_jobs(tier, seed):
    maxnodes = 2 if tier == "quick" else 4
    maxcalls = 2 if tier == "quick" else 3
    jobs = {"query": lambda sub, w: run_query_tlc(sub, tier, seed, maxnodes, workers=w),
            "func": lambda sub, w: C.run_tlc(sub, "DipFunc", func_cfg(maxcalls, "deep", True), workers=w)}
    for mode in ("shallow", "none"):
        jobs["func-sens:" + mode] = lambda sub, w, mode=mode: C.run_tlc(sub, "DipFunc", func_cfg(2, mode, False),
                                                                        want_records=False, workers=w)
    return jobs


# ----------------------------------------------------------------------------- stage Q: replay

def render_nodes(nodes):
    out = []
    for n in nodes:
        out.append(f"{n['name']} int = {n['val']}")
        if n["tags"]:
            out.append("  !tags " + json.dumps(n["tags"], separators=(",", ":")))
    return "\n".join(out) + ("\n" if out else "")


def _call(fn):
    try:
        return fn()
    except Exception as ex:
        return ("raise", type(ex).__name__)


def replay_list(rec):
    """One node list: parse once, run the whole query table through the real API.
    -> list of findings [(area, verdict, dev, detail)]; verdict in ok | dev (machine-predicted) | drift | c17fail"""
    from scinumtools.dip import DIP
    from scinumtools.dip.settings import Format
    from scinumtools.dip.config import ExportConfig
    A.speedup()
    keep, out = [], []
    text = render_nodes(rec["nodes"])
    p = DIP(name="q0"); keep.append(p)
    if text:
        p.add_string(text)
    env = p.parse()
    vals = [n["val"] for n in rec["nodes"]]
    names = [n["name"] for n in rec["nodes"]]
    byidx = lambda idxs: [vals[i - 1] for i in idxs]

    def note(area, q, exp_ok, mach_ok, dev, detail):
        if exp_ok:
            out.append((area, "ok" if mach_ok else "ok-not-machine", None, None))
        elif mach_ok:
            out.append((area, "dev", "+".join(sorted(dev)) or "unnamed", detail))
        else:
            out.append((area, "drift", None, detail))

    for k, q in enumerate(rec["qs"]):
        qs = q["q"]
        isel = [[s["rel"], vals[s["i"] - 1]] for s in q["isel"]]
        msel = [[s["rel"], vals[s["i"] - 1]] for s in q["msel"]]
        # (a) NodeList.query: ordered selection, names relative to the query
        o = _call(lambda: [[n.name, n.value.value] for n in env.nodes.query(qs)])
        note("query", qs, o == isel, o == msel, [], {"q": qs, "nodes": names, "expected": isel, "observed": o})
        # (a') Environment.data(query=): same nodes in the same order (dict order), ExportConfig.select likewise
        if names:
            o = _call(lambda: [[kk, vv] for kk, vv in env.data(query=qs).items()])
            note("data", qs, o == isel, o == msel, [], {"q": qs, "nodes": names, "expected": isel, "observed": o})
            def sel():
                with ExportConfig(env, dtype=Format.VALUE) as e:
                    e.select(query=qs)
                    return [[kk, vv] for kk, vv in e.data.items()]
            o = _call(sel)
            note("select", qs, o == isel, o == msel, [], {"q": qs, "nodes": names, "expected": isel, "observed": o})
        # (b) tag selectors
        for t in q["tg"]:
            for area, fn in (("query+tags", lambda: [n.value.value for n in env.nodes.query(qs, tags=t["tags"])]),
                             ("data+tags", lambda: list(env.data(query=qs, tags=t["tags"]).values())),
                             ("request+tags", lambda: [n.value.value for n in env.request("?" + qs, tags=t["tags"])])):
                if area != "query+tags" and not names:
                    continue
                o = _call(fn)
                exp_ok = o in (byidx(t["any"]), byidx(t["all"]))
                m = ("raise",) if t["mach"]["raise"] else byidx(t["mach"]["sel"])
                mach_ok = (isinstance(o, tuple) and o[0] == "raise") if t["mach"]["raise"] else o == m
                note(area, qs, exp_ok, mach_ok, t["dev"], {"q": qs, "tags": t["tags"], "nodes": rec["nodes"],
                                                          "expected_any": byidx(t["any"]), "expected_all": byidx(t["all"]), "observed": o})
        # (c) request with count bounds
        for c in q["cnt"]:
            cv = c["count"]["n"] if c["count"]["kind"] == "int" else c["count"]["lst"]
            o = _call(lambda: len(env.request("?" + qs, count=cv)))
            accepted = not isinstance(o, tuple)
            note("request+count", qs, accepted == c["ideal"], accepted == c["mach"], c["dev"],
                 {"q": qs, "count": cv, "nodes": names, "expected_accept": c["ideal"], "observed": o})
        # (d) the import `h {?q}` on top of the environment: what C17 is about
        if names:
            def imp():
                p2 = DIP(env, name=f"q{k + 1}"); keep.append(p2)
                p2.add_string("h {?" + qs + "}\n")
                d = p2.parse().data()
                return {kk: vv for kk, vv in d.items() if kk not in names}
            o = _call(imp)
            want = {"h." + r: v for r, v in isel}
            ok = (o == want) or (not isel and isinstance(o, tuple))          # selecting none: rejected or nothing added
            if ok:
                out.append(("import", "ok", None, None))
            else:
                out.append(("import", "c17fail", None, {"q": qs, "nodes": names, "text": "h {?" + qs + "}",
                                                       "expected": want, "observed": o}))
    return out


# ----------------------------------------------------------------------------- stage F: user functions

BEHAVIOURS = ["read", "set_a", "convert_a", "set_v0", "set_b", "del_a", "add_key", "replace_a"]
F_A0, F_B0 = 5, 3


def func_cfg(maxcalls, mode, emit):
    return f"""CONSTANTS
  Behaviours = {C.tla_str(set(BEHAVIOURS))}
  MaxCalls = {maxcalls}
  CopyMode = "{mode}"
  Emit = {C.tla_str(emit)}
  A0 = {F_A0}
  B0 = {F_B0}
SPECIFICATION Spec
INVARIANT NonInterference
INVARIANT EmitInv
CHECK_DEADLOCK FALSE
"""


def make_fn(bh):
    def fn(data):
        r = data["a"].value
        if bh == "set_a":
            data["a"].value = 99
        elif bh == "convert_a":
            data["a"].convert("mm")
        elif bh == "set_v0":
            data["v"].value[0] = 99
        elif bh == "set_b":
            data["b"].value = 77
        elif bh == "del_a":
            del data["a"]
        elif bh == "add_key":
            data["zz"] = data["b"]
        elif bh == "replace_a":
            data["a"] = data["b"]
        return r
    return fn


def replay_calls(rec):
    """-> None | detail"""
    from scinumtools.dip import DIP
    A.speedup()
    e = rec["expect"]                                      # the original values come from the spec's record
    lines = [f"a float = {e['a']} cm", f"b int = {e['b']}", f"v int[{len(e['v'])}] = " + json.dumps(e["v"], separators=(",", ":"))]
    p = DIP(name="f0")
    for k, bh in enumerate(rec["calls"]):
        p.add_function(f"f{k + 1}", make_fn(bh))
        lines.append(f"h{k + 1} float = (f{k + 1}) cm")
    text = "\n".join(lines) + "\n"
    try:
        p.add_string(text)
        obs = A.env_data(p.parse())
    except Exception as ex:
        return {"text": text, "calls": rec["calls"], "observed": repr(ex)[:200]}
    e = rec["expect"]
    want = {"a": [e["a"], "cm"], "b": [e["b"], ""], "v": [e["v"], ""]}
    for k, r in enumerate(e["ret"]):
        want[f"h{k + 1}"] = [r, "cm"]
    if not A.same_data(obs, want):
        return {"text": text, "calls": rec["calls"], "expected": want, "observed": obs}
    return None


# ----------------------------------------------------------------------------- both stages, called from c17.run

def run_stage(V, get, tier, seed, pm):
    """Runs stages Q and F; returns the coverage dict to merge into the evidence.  Never raises a violation except
    for what an import delivers (C17 text)."""
    cov = {}
    # ---- Q
    r = get("query")
    if r.violated:
        V.notes.append(f"DipQuery: invariant {r.violated} violated (design-level): {r.cex[:400]}")
    recs = r.records
    r.records, r.stdout = None, ""
    res = pm("qlist", replay_list, recs)
    counts, devs, firsts = collections.Counter(), collections.Counter(), {}
    for rec, outs in zip(recs, res):
        for area, verdict, dev, det in outs:
            counts[verdict] += 1
            if verdict in ("ok", "ok-not-machine"):
                V.ok()
                if verdict == "ok-not-machine":
                    V.drift(f"query stage ({area}): the code follows the ideal where the machine transcription does not")
            elif verdict == "dev":
                V.unspecified()                              # outside the C17 text: noted, not judged
                devs[f"{area}: {dev}"] += 1
                firsts.setdefault(f"{area}: {dev}", det)
            elif verdict == "drift":
                V.drift(f"query stage ({area}): " + json.dumps(det, default=str)[:260])
            elif verdict == "c17fail":
                V.fail({"stage": "query", "nodes": rec["nodes"], **det}, det["expected"], det["observed"],
                       "an import {?path.*} / {?path} / {?*} re-creates exactly the selected nodes below the importing node",
                       tags=["import", "query-stage"], failure="import-selection")
    for key, n in sorted(devs.items()):
        V.notes.append(f"NOTE (outside C17): {key} - {n} case(s), e.g. {json.dumps(firsts[key], default=str)[:220]}")
    cov["query_stage"] = {"node_lists": len(recs), "api_evaluations": sum(counts.values()), "outcomes": dict(counts),
                          "named_deviations": dict(devs), "states": r.distinct}
    # ---- F
    rf = get("func")
    if rf.violated:
        V.notes.append(f"DipFunc: {rf.violated} violated with CopyMode deep: {rf.cex[:300]}")
    sens = {}
    for mode in ("shallow", "none"):
        rs = get("func-sens:" + mode)
        sens[mode] = rs.violated or "none"
        if rs.violated != "NonInterference":
            V.notes.append(f"DipFunc sensitivity: CopyMode {mode} did not violate NonInterference")
    fres = [replay_calls(x) for x in rf.records]
    nbad = 0
    for x, det in zip(rf.records, fres):
        if det is None:
            V.ok()
        else:
            nbad += 1
            V.drift("function stage: a function's changes to its argument reached the environment: " + json.dumps(det, default=str)[:260])
    cov["function_stage"] = {"histories": len(rf.records), "disagreements": nbad, "sensitivity": sens, "states": rf.distinct}
    cov["_states"] = r.distinct + rf.distinct
    cov["_transitions"] = r.generated + rf.generated
    cov["_n"] = len(recs) + len(rf.records)
    cov["_sample"] = {"cfg": "query-stage", "nodes": recs[len(recs) // 2]["nodes"],
                      "query": recs[len(recs) // 2]["qs"][2]["q"], "selection": recs[len(recs) // 2]["qs"][2]["isel"]}
    return cov
