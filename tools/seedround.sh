#!/bin/sh
# tools/seedround.sh C14 /tmp/r4-C14 r4 [tier] [check]  -> evaluates out/1..3 and stores them under /verif/seeded/<pid>-<round>-<k>
pid=$1; wt=$2; rnd=$3; tier=${4:-quick}; chk=${5:-$pid}
for k in 1 2 3; do
  d=$wt/out/$k
  [ -f $d/patch.diff ] || continue
  dest=/verif/seeded/$pid-$rnd-$k
  mkdir -p $dest
  cp $d/patch.diff $d/demo.py $dest/ 2>/dev/null
  cp $d/notes.txt $dest/notes.txt 2>/dev/null
  /verif/tools/seedtest.py $dest/patch.diff $dest/demo.py $chk $tier > $dest/result.$chk.$tier.json 2>&1
  echo "== $pid-$rnd-$k $(grep -o '"tests": "[^"]*"' $dest/result.$chk.$tier.json | head -1) $(grep -o '"demo_[a-z_]*": [a-z0-9]*' $dest/result.$chk.$tier.json | tr '\n' ' ') $(grep -o '"detected": [a-z]*' $dest/result.$chk.$tier.json)"
done
