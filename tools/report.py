#!/usr/bin/env python3
"""Generates the tables of DESIGN.md section 0 from the committed data:
   known findings (known_findings.json + known_findings.d) and seeded changes (seeded/*/)."""
import json, os, glob, sys
ROOT = os.path.dirname(os.path.dirname(os.path.abspath(__file__)))
sys.path.insert(0, ROOT)
from verif import common as C

def findings():
    rows = []
    for f in C.load_findings():
        rows.append((f["property"], f["status"], f["key"], f.get("commit", ""), (f.get("witness") or "").replace("\n", " / ")[:70]))
    rows.sort()
    out = ["| prop | status | key | fix commit | witness |", "|---|---|---|---|---|"]
    for r in rows:
        out.append("| %s | %s | %s | %s | `%s` |" % r)
    return "\n".join(out)

def seeds():
    out = ["| seed | what it changes (red-team note, abridged) | needs | 218 tests | caught by | how |", "|---|---|---|---|---|---|"]
    for d in sorted(glob.glob(os.path.join(ROOT, "seeded", "*"))):
        name = os.path.basename(d)
        meta = os.path.join(d, "meta.json")
        if not os.path.exists(meta):
            continue
        m = json.load(open(meta))
        out.append("| %s | %s | %s | %s | %s | %s |" % (name, m.get("what", "")[:110], m.get("needs", "")[:90], m.get("tests", ""), m.get("caught_by", ""), m.get("how", "")[:80]))
    return "\n".join(out)

def numbers():
    out = ["| id | level | scenarios judged | TLC distinct states | traces / behaviours bound to the code | ok | known-finding | unspecified | drift | wall (s) |",
           "|---|---|---|---|---|---|---|---|---|---|"]
    for f in sorted(glob.glob(os.path.join(ROOT, "evidence", "C*.json"))):
        e = json.load(open(f))
        c = e.get("coverage", {})
        o = c.get("outcomes", {})
        out.append("| %s | %s | %s | %s | %s | %s | %s | %s | %s | %s |" % (
            e.get("property_id"), e.get("level", ""), c.get("evaluations", ""), c.get("states", ""), c.get("traces_validated_against_impl", ""),
            o.get("ok", ""), o.get("known-finding", ""), o.get("unspecified", ""), o.get("drift", ""), e.get("wall_s", "")))
    return "\n".join(out)


def perprop():
    import importlib.util
    spec = importlib.util.spec_from_file_location("mg", os.path.join(ROOT, "verif", "manifest_gen.py"))
    sys.path.insert(0, ROOT)
    from verif import manifest_gen as mg
    out = []
    for pid in sorted(mg.CHECKS):
        c = mg.CHECKS[pid]
        out.append(f"**{pid}** ({c['level']}). *Technique:* {c['technique']}. *What is explored and bound:* {c['text']} *Trusted / not covered:* {c.get('note', '')}\n")
    return "\n".join(out)


def benign():
    rows, total, silent, alarms, na = [], 0, 0, [], []
    for d in sorted(glob.glob(os.path.join(ROOT, "seeded", "benign-*"))):
        r = os.path.join(d, "result.json")
        if not os.path.exists(r):
            continue
        m = json.load(open(r))
        n = len(m.get("checks", {}))
        fa = m.get("false_alarms", [])
        if m.get("error") or not n:
            na.append(os.path.basename(d))
            continue
        total += n; silent += n - len(fa)
        if fa:
            alarms.append(f"{os.path.basename(d)}: {', '.join(fa)}")
        rows.append(os.path.basename(d))
    if not rows:
        return "not run yet"
    return (f"{len(rows)} patches, {total} check runs (every patch against all 20 quick checks), {silent} silent"
            + (f"; ALARMS: {'; '.join(alarms)}" if alarms else ", no alarm")
            + (f"; {len(na)} further patches ({', '.join(na)}) were written against an earlier tree and no longer apply after the later `fix:` commits" if na else ""))


if __name__ == "__main__":
    print(findings() if sys.argv[1:] == ["findings"] else seeds())
