#!/usr/bin/env python3
"""(Re)write seeded/<name>/meta.json from the red-team notes and the stored seedtest results."""
import json, os, glob, re
ROOT = os.path.dirname(os.path.dirname(os.path.abspath(__file__)))
for d in sorted(glob.glob(os.path.join(ROOT, "seeded", "*"))):
    name = os.path.basename(d)
    if name.startswith("benign-"):
        rj = os.path.join(d, "result.json")
        r = json.load(open(rj)) if os.path.exists(rj) else {}
        json.dump({"seed": name, "kind": "behaviour-preserving change (must NOT be reported)", "source": "independent sub-agent given the 20 property texts and a scratch worktree",
                   "tests": r.get("tests", ""), "checks_run": sorted(r.get("checks", {})), "false_alarms": r.get("false_alarms", [])},
                  open(os.path.join(d, "meta.json"), "w"), indent=1)
        continue
    if os.path.exists(os.path.join(d, "meta.keep")):
        continue
    notes = open(os.path.join(d, "notes.txt")).read() if os.path.exists(os.path.join(d, "notes.txt")) else ""
    lines = [l.strip() for l in notes.splitlines() if l.strip()]
    what = lines[0] if lines else ""
    needs = next((l for l in lines if re.match(r"(?i)(needed|needs|trigger|what is needed|manifest)", l)), lines[2] if len(lines) > 2 else "")
    results = {}
    tests = ""
    demo = ""
    for rf in sorted(glob.glob(os.path.join(d, "result*.json"))):
        try:
            r = json.load(open(rf))
        except Exception:
            continue
        tests = r.get("tests", tests)
        demo = f"demo rc unpatched={r.get('demo_unpatched_rc')} patched={r.get('demo_patched_rc')}"
        results[os.path.basename(rf)] = {"check": r.get("pid"), "tier": r.get("tier"), "detected": r.get("detected"), "violations": r.get("violations"),
                                        "first_clause": (r.get("first") or [""])[0].strip()[:200]}
    caught = sorted({v["check"] for v in results.values() if v["detected"]})
    meta = {"seed": name, "property": name.split("-")[0], "what": re.sub(r"^(Change|CHANGE)\s*:?\s*", "", what), "needs": re.sub(r"^[A-Za-z ]*:\s*", "", needs),
            "source": "independent red-team sub-agent given only the property text and a scratch worktree",
            "tests": tests, "demonstration": demo,
            "ran": "tools/seedtest.py <patch> <demo> <check id>: patch applied to a scratch copy of /repo (never /repo itself), pytest on the copy, demo on /repo and on the copy, ./check <id> --tier quick with PYTHONPATH/VERIF_REPO on the copy",
            "results": results, "caught_by": ", ".join(caught) if caught else (open(os.path.join(d, "verdict.txt")).read().strip() if os.path.exists(os.path.join(d, "verdict.txt")) else "MISSED"),
            "how": next((v["first_clause"] for v in results.values() if v["detected"]), "")}
    json.dump(meta, open(os.path.join(d, "meta.json"), "w"), indent=1)
print("ok")
