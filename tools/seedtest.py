#!/usr/bin/env python3
"""Evaluate a seeded change:  tools/seedtest.py <patch.diff> <demo.py|-> <pid> [tier]

Copies /repo (src + tests) to a scratch directory outside /repo and /verif, applies the patch there, and
  1. runs the repository's test suite on the patched copy (must still pass),
  2. runs the demonstration on the unpatched /repo (must exit 0) and on the patched copy (must exit != 0),
  3. runs ./check <pid> against the patched copy (PYTHONPATH + VERIF_REPO) and reports whether it raised a VIOLATION.
The scratch copy is removed afterwards.  (While other work uses /repo concurrently, nothing is applied to /repo itself.)
"""
import os, shutil, subprocess, sys, tempfile, json

patch, demo, pid = sys.argv[1], sys.argv[2], sys.argv[3]
tier = sys.argv[4] if len(sys.argv) > 4 else "quick"
scratch = tempfile.mkdtemp(prefix="snt-seed-", dir="/var/tmp")
res = {"patch": patch, "pid": pid, "tier": tier}
try:
    shutil.rmtree(scratch)
    shutil.copytree("/repo", scratch, ignore=shutil.ignore_patterns(".git", "__pycache__"))
    p = subprocess.run(["patch", "-p1", "-i", os.path.abspath(patch)], cwd=scratch, capture_output=True, text=True)
    if p.returncode != 0:
        print("PATCH FAILED", p.stdout, p.stderr); sys.exit(2)
    env = dict(os.environ, PYTHONPATH=os.path.join(scratch, "src"), PYTHONWARNINGS="ignore")
    t = subprocess.run(["/venv/bin/python", "-m", "pytest", "-q", "-p", "no:cacheprovider", "tests"], cwd=scratch, env=env,
                       capture_output=True, text=True)
    res["tests"] = t.stdout.strip().splitlines()[-1] if t.stdout.strip() else t.stderr[-200:]
    if demo != "-":
        d0 = subprocess.run(["/venv/bin/python", os.path.abspath(demo)], cwd="/repo", env=dict(os.environ, PYTHONWARNINGS="ignore"), capture_output=True, text=True)
        d1 = subprocess.run(["/venv/bin/python", os.path.abspath(demo)], cwd=scratch, env=env, capture_output=True, text=True)
        res["demo_unpatched_rc"], res["demo_patched_rc"] = d0.returncode, d1.returncode
    env2 = dict(env, VERIF_REPO=scratch, VERIF_TIER=tier, VERIF_EVIDENCE_DIR=os.path.join(scratch, "evidence-trial"))
    c = subprocess.run(["./check", pid, "--tier", tier], cwd="/verif", env=env2, capture_output=True, text=True)
    viol = [l for l in c.stdout.splitlines() if l.startswith("VIOLATION")]
    res["check_rc"] = c.returncode
    res["violations"] = len(viol)
    res["first"] = [l for l in c.stdout.splitlines() if l.strip().startswith("clause")][:2]
    res["summary"] = [l for l in c.stdout.splitlines() if l.startswith("[" + pid)]
    res["detected"] = c.returncode == 1 and len(viol) > 0
    if c.returncode not in (0, 1):
        res["stderr"] = c.stderr[-600:]
finally:
    shutil.rmtree(scratch, ignore_errors=True)
print(json.dumps(res, indent=1))
