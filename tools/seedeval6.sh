#!/bin/sh
# tools/seedeval6.sh C16 [check]  -> evaluate round-6 seeds of /tmp/r6-<pid>/out/{1,2} into seeded/<pid>-r6-<k>
pid=$1; chk=${2:-$pid}
/verif/tools/seedround.sh $pid /tmp/r6-$pid r6 quick $chk
