#!/usr/bin/env python3
"""Re-assemble section 0 of DESIGN.md from tools/asbuilt.md.tmpl and the committed data."""
import os, re, subprocess, sys
ROOT = os.path.dirname(os.path.dirname(os.path.abspath(__file__)))
sys.path.insert(0, ROOT)
from verif import common as C
import importlib.util
spec = importlib.util.spec_from_file_location("report", os.path.join(ROOT, "tools", "report.py"))
report = importlib.util.module_from_spec(spec); spec.loader.exec_module(report)
fs = C.load_findings()
nfixed = sum(1 for f in fs if f["status"] == "fixed")
nopen = sum(1 for f in fs if f["status"] == "open")
commits = subprocess.run(["git", "-C", "/repo", "log", "--format=%s"], capture_output=True, text=True).stdout.splitlines()
ncommits = sum(1 for c in commits if c.startswith("fix:"))
body = open(os.path.join(ROOT, "tools", "asbuilt.md.tmpl")).read()
body = body.replace("@@FINDINGS@@", report.findings()).replace("@@SEEDS@@", report.seeds()).replace("@@BENIGN@@", report.benign()).replace("@@NUMBERS@@", report.numbers()).replace("@@PERPROP@@", report.perprop()).replace("@@THOROUGH@@", open(os.path.join(ROOT, "tools", "thorough_table.md")).read())
body = body.replace("@@NTOTAL@@", str(nfixed + nopen)).replace("@@NFIXED@@", str(nfixed)).replace("@@NCOMMITS@@", str(ncommits))
p = os.path.join(ROOT, "DESIGN.md")
t = open(p).read()
sep = "---------------------------------------------------------------------------------------------\n"
a = t.index("## 0. As built") if "## 0. As built" in t else None
b = t.index("## 1. What is being verified")
if a is None:
    t = t[:b] + body + "\n" + sep + "\n" + t[b:]
else:
    t = t[:a] + body + "\n" + sep + "\n" + t[b:]
open(p, "w").write(t)
print("DESIGN.md section 0 rebuilt:", nfixed, "fixed,", nopen, "open,", ncommits, "fix commits")
