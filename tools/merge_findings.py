#!/usr/bin/env python3
"""Merge known_findings.d/*.json into the single committed known_findings.json (the fragments stay as the
builders' working files; the loader de-duplicates by (property, key))."""
import json, os, glob
ROOT = os.path.dirname(os.path.dirname(os.path.abspath(__file__)))
main = os.path.join(ROOT, "known_findings.json")
d = json.load(open(main))
byk = {(f["property"], f["key"]): f for f in d["findings"]}
for fn in sorted(glob.glob(os.path.join(ROOT, "known_findings.d", "*.json"))):
    for f in json.load(open(fn))["findings"]:
        byk[(f["property"], f["key"])] = f
import re
for f in byk.values():
    what = re.sub(r"^fixed: property=\S+ \S+ ", "", f.get("what", "")).strip()
    if f["status"] == "fixed":
        f["record"] = f"fixed: property={f['property']} {f.get('commit', '?')} {what}"
    else:
        f["record"] = f"KNOWN-FINDING: property={f['property']} {f['key']}: {what}"
d["findings"] = sorted(byk.values(), key=lambda f: (f["property"], f["status"], f["key"]))
json.dump(d, open(main, "w"), indent=1)
print(len(d["findings"]), "findings in known_findings.json")
