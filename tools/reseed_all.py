#!/usr/bin/env python3
"""Re-evaluate every seeded change against the current tree and the current checks:
   tools/reseed_all.py [lanes]   (results rewritten in seeded/<name>/result.<check>.quick.json; then run tools/seedmeta.py)
A patch that no longer applies to /repo HEAD (the lines it touched were changed by a later fix) is recorded as such."""
import glob, json, os, subprocess, sys
from concurrent.futures import ThreadPoolExecutor
ROOT = os.path.dirname(os.path.dirname(os.path.abspath(__file__)))
lanes = int(sys.argv[1]) if len(sys.argv) > 1 else 3

def jobs():
    for d in sorted(glob.glob(os.path.join(ROOT, "seeded", "*"))):
        name = os.path.basename(d)
        if name.startswith("benign-") or not os.path.exists(os.path.join(d, "patch.diff")):
            continue
        checks = {name.split("-")[0]}
        for rf in glob.glob(os.path.join(d, "result.*.quick.json")):
            checks.add(os.path.basename(rf).split(".")[1])
        for c in sorted(checks):
            yield d, name, c

def run(job):
    d, name, c = job
    demo = os.path.join(d, "demo.py")
    out = os.path.join(d, f"result.{c}.quick.json")
    p = subprocess.run([os.path.join(ROOT, "tools", "seedtest.py"), os.path.join(d, "patch.diff"), demo if os.path.exists(demo) else "-", c, "quick"],
                       capture_output=True, text=True, env=dict(os.environ, VERIF_WORKERS=os.environ.get("VERIF_WORKERS", "4")))
    if p.stdout.startswith("PATCH FAILED"):
        json.dump({"patch": os.path.join(d, "patch.diff"), "pid": c, "tier": "quick", "applies": False, "detected": None,
                   "note": "the patch no longer applies to /repo HEAD: the lines it changes were rewritten by a later fix commit"}, open(out, "w"), indent=1)
        return name, c, "n/a"
    open(out, "w").write(p.stdout)
    try:
        return name, c, json.loads(p.stdout).get("detected")
    except Exception:
        return name, c, "?"

with ThreadPoolExecutor(lanes) as ex:
    for name, c, det in ex.map(run, list(jobs())):
        print(name, c, det, flush=True)
