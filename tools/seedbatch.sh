#!/bin/sh
# tools/seedbatch.sh C14 /tmp/rt-C14 [tier]   -> evaluates out/1..3 and stores them under /verif/seeded/
pid=$1; wt=$2; tier=${3:-quick}
for k in 1 2 3; do
  d=$wt/out/$k
  [ -f $d/patch.diff ] || continue
  dest=/verif/seeded/$pid-$k
  mkdir -p $dest
  cp $d/patch.diff $d/demo.py $dest/ 2>/dev/null
  cp $d/notes.txt $dest/notes.txt 2>/dev/null
  /verif/tools/seedtest.py $d/patch.diff $d/demo.py $pid $tier > $dest/result.$pid.$tier.json 2>&1
  echo "== $pid-$k"; grep -E '"tests"|demo_|"detected"|"violations"|summary' -A0 $dest/result.$pid.$tier.json | head -8
done
