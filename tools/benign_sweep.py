#!/usr/bin/env python3
"""Run every check (quick tier) against behaviour-preserving patches:  tools/benign_sweep.py <src dir with out/k/patch.diff> <k> [<k> ...]

A VIOLATION (or a non-zero exit) here is a FALSE ALARM of the machinery.  Results go to /verif/seeded/benign-<k>/result.json.
The scratch copy of /repo lives under /var/tmp and is removed afterwards; nothing is applied to /repo.
"""
import os, shutil, subprocess, sys, tempfile, json, time

src = sys.argv[1]
label = os.path.basename(os.path.normpath(src)).replace("benign-", "b")     # /tmp/benign-2 -> b2
CHECKS = [f"C{n:02d}" for n in range(1, 21)]
ONLY = [c for c in os.environ.get("BENIGN_ONLY", "").split(",") if c]     # re-run some checks and merge into the stored result
for k in sys.argv[2:]:
    d = os.path.join(src, "out", k)
    dest = f"/verif/seeded/benign-{k}" if label == "b1" else f"/verif/seeded/benign-{label}-{k}"
    os.makedirs(dest, exist_ok=True)
    shutil.copy(os.path.join(d, "patch.diff"), dest)
    if os.path.exists(os.path.join(d, "notes.txt")):
        shutil.copy(os.path.join(d, "notes.txt"), dest)
    scratch = tempfile.mkdtemp(prefix="snt-benign-", dir="/var/tmp")
    old = os.path.join(dest, "result.json")
    res = json.load(open(old)) if ONLY and os.path.exists(old) else {"patch": os.path.relpath(os.path.join(dest, "patch.diff"), "/verif"), "kind": "behaviour-preserving", "checks": {}}
    try:
        shutil.rmtree(scratch)
        shutil.copytree("/repo", scratch, ignore=shutil.ignore_patterns(".git", "__pycache__"))
        p = subprocess.run(["patch", "-p1", "-i", os.path.abspath(os.path.join(dest, "patch.diff"))], cwd=scratch, capture_output=True, text=True)
        if p.returncode != 0:
            res["error"] = "patch failed: " + p.stdout[-300:]
        else:
            env = dict(os.environ, PYTHONPATH=os.path.join(scratch, "src"), PYTHONWARNINGS="ignore")
            t = subprocess.run(["/venv/bin/python", "-m", "pytest", "-q", "-p", "no:cacheprovider", "tests"], cwd=scratch, env=env, capture_output=True, text=True)
            res["tests"] = t.stdout.strip().splitlines()[-1] if t.stdout.strip() else t.stderr[-200:]
            env2 = dict(env, VERIF_REPO=scratch, VERIF_TIER="quick", VERIF_EVIDENCE_DIR=os.path.join(scratch, "evidence-trial"))
            for c in (ONLY or CHECKS):
                t0 = time.time()
                r = subprocess.run(["./check", c, "--tier", "quick"], cwd="/verif", env=env2, capture_output=True, text=True)
                viol = [l for l in r.stdout.splitlines() if l.startswith("VIOLATION")]
                res["checks"][c] = {"rc": r.returncode, "violations": len(viol), "wall_s": round(time.time() - t0, 1),
                                    "summary": [l for l in r.stdout.splitlines() if l.startswith("[" + c)][:1],
                                    "first": [l.strip() for l in r.stdout.splitlines() if l.strip().startswith("clause")][:2]}
                if r.returncode not in (0, 1):
                    res["checks"][c]["stderr"] = (r.stdout[-300:] + r.stderr[-500:])
                print(k, c, r.returncode, len(viol), flush=True)
        res["false_alarms"] = sorted(c for c, v in res["checks"].items() if v["rc"] != 0 or v["violations"])
    finally:
        shutil.rmtree(scratch, ignore_errors=True)
    json.dump(res, open(os.path.join(dest, "result.json"), "w"), indent=1)
    print("benign", k, "false alarms:", res.get("false_alarms"), flush=True)
