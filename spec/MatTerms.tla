----------------------------- MODULE MatTerms -----------------------------
(***************************************************************************)
(* The term language of DESIGN 4.2 as used by the materials specs (C10,    *)
(* C11, C12) and its exact-rational interpretation.                        *)
(*                                                                         *)
(*   Term ::= q(n,d) | p10(k) | obs(path) | inp(path) | tab(t,k1,k2)       *)
(*          | mul(t,t) | div(t,t) | add(t,t) | sub(t,t) | sum(<<t..>>)     *)
(*                                                                         *)
(* Terms are tuples in prefix form (they go to the harness as JSON arrays).*)
(* obs(path) is something the harness measures on the real objects,        *)
(* inp(path) a value the harness chose as an input of the scenario,        *)
(* tab(..) an entry of a library table (isotope mass, abundance, unit      *)
(* factor).  EvalQ interprets a term over an environment that maps the     *)
(* leaves to rationals <<num, den>> (den > 0, lowest terms) - this is how   *)
(* TLC checks on a small model that the emitted obligations are theorems   *)
(* of the ideal formulas.  All arithmetic cancels before it multiplies so  *)
(* that TLC's 32-bit integers are not exceeded by powers of ten.           *)
(***************************************************************************)
EXTENDS Integers, Sequences, TLC

Q(n, d)        == <<"q", n, d>>
P10(k)         == <<"p10", k>>
Obs(p)         == <<"obs", p>>
Inp(p)         == <<"inp", p>>
Tab(t, k1, k2) == <<"tab", t, k1, k2>>
Mul(a, b)      == <<"mul", a, b>>
Div(a, b)      == <<"div", a, b>>
Add(a, b)      == <<"add", a, b>>
Sub(a, b)      == <<"sub", a, b>>
Sum(ts)        == <<"sum", ts>>

\* an obligation: lhs REL rhs ; tol names the tolerance class the harness applies
\*   "num"   rel 1e-9 (floating-point results of the library)
\*   "exact" rel 1e-12 (integers and sums of a few integers held in floats)
Obl(name, lhs, rel, rhs, tol) == [name |-> name, lhs |-> lhs, rel |-> rel, rhs |-> rhs, tol |-> tol]
Approx(name, lhs, rhs) == Obl(name, lhs, "approx", rhs, "num")
Exact(name, lhs, rhs)  == Obl(name, lhs, "approx", rhs, "exact")

---------------------------------------------------------------------------
\* exact rationals
AbsI(a) == IF a < 0 THEN -a ELSE a
RECURSIVE GCD(_, _)
GCD(a, b) == IF b = 0 THEN a ELSE GCD(b, a % b)
Gcd(a, b) == GCD(AbsI(a), AbsI(b))

QNorm(r) == LET n == r[1]  d == r[2]
                g == Gcd(n, d)
                s == IF d < 0 THEN -1 ELSE 1
            IN  IF n = 0 THEN <<0, 1>> ELSE <<s * (n \div g), s * (d \div g)>>
QI(n) == <<n, 1>>
\* operands are in lowest terms; cross-cancel first
QMul(a, b) == LET g1 == IF a[1] = 0 THEN 1 ELSE Gcd(a[1], b[2])
                  g2 == IF b[1] = 0 THEN 1 ELSE Gcd(b[1], a[2])
              IN  QNorm(<<(a[1] \div g1) * (b[1] \div g2), (a[2] \div g2) * (b[2] \div g1)>>)
QInv(a)    == QNorm(<<a[2], a[1]>>)
QDiv(a, b) == QMul(a, QInv(b))
QAdd(a, b) == LET g == Gcd(a[2], b[2])
                  l == (a[2] \div g) * b[2]
              IN  QNorm(<<a[1] * (l \div a[2]) + b[1] * (l \div b[2]), l>>)
QNeg(a)    == <<-a[1], a[2]>>
QSub(a, b) == QAdd(a, QNeg(b))
RECURSIVE QSumSeq(_)
QSumSeq(s) == IF s = <<>> THEN <<0, 1>> ELSE QAdd(Head(s), QSumSeq(Tail(s)))
RECURSIVE Pow10(_)
Pow10(k) == IF k = 0 THEN 1 ELSE 10 * Pow10(k - 1)
QP10(k) == IF k >= 0 THEN <<Pow10(k), 1>> ELSE <<1, Pow10(-k)>>

\* environment key of a leaf
TabKey(t) == "tab:" \o t[2] \o ":" \o t[3] \o ":" \o t[4]

RECURSIVE EvalQ(_, _), EvalSeq(_, _)
EvalQ(t, env) ==
  CASE t[1] = "q"   -> QNorm(<<t[2], t[3]>>)
    [] t[1] = "p10" -> QP10(t[2])
    [] t[1] = "obs" -> env["obs:" \o t[2]]
    [] t[1] = "inp" -> env["inp:" \o t[2]]
    [] t[1] = "tab" -> env[TabKey(t)]
    [] t[1] = "mul" -> QMul(EvalQ(t[2], env), EvalQ(t[3], env))
    [] t[1] = "div" -> QDiv(EvalQ(t[2], env), EvalQ(t[3], env))
    [] t[1] = "add" -> QAdd(EvalQ(t[2], env), EvalQ(t[3], env))
    [] t[1] = "sub" -> QSub(EvalQ(t[2], env), EvalQ(t[3], env))
    [] t[1] = "sum" -> QSumSeq(EvalSeq(t[2], env))
EvalSeq(ts, env) == [i \in 1..Len(ts) |-> EvalQ(ts[i], env)]

\* an obligation holds in the rational model iff both sides are the same rational
HoldsQ(o, env) == EvalQ(o.lhs, env) = EvalQ(o.rhs, env)
AllHoldQ(os, env) == \A i \in 1..Len(os) : HoldsQ(os[i], env)
\* names of the obligations that fail in the model (for diagnostics and deviation tags)
FailingQ(os, env) == {os[i].name : i \in {j \in 1..Len(os) : ~HoldsQ(os[j], env)}}

\* environments are functions from key strings to rationals, built with TLC's  k :> v  and  f @@ g
IStr(i) == ToString(i)
RECURSIVE EnvSeq(_, _, _)
EnvSeq(prefix, vals, i) == IF i > Len(vals) THEN <<>> ELSE ((prefix \o IStr(i)) :> vals[i]) @@ EnvSeq(prefix, vals, i + 1)
=============================================================================
