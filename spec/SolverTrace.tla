----------------------------- MODULE SolverTrace -----------------------------
(***************************************************************************)
(* Trace validation: executions recorded from the real ExpressionSolver    *)
(* (verif/solver_tracer.py) must be behaviours of Solver.tla.              *)
(*                                                                         *)
(* The file named by env TRACE_FILE holds a JSON array of traces, each a   *)
(* JSON array of events.  One behaviour of this spec consumes one trace;   *)
(* Init chooses the trace, so TLC validates all of them in one run.        *)
(* Every event names the machine action it claims to be and carries the    *)
(* projected post-state, which must equal the state the action computes.   *)
(* A trace is accepted iff its last event is consumed; then the line       *)
(* "ACCEPT <tid>" is printed.                                              *)
(***************************************************************************)
EXTENDS Solver, Json, IOUtils

Traces == JsonDeserialize(IOEnv.TRACE_FILE)

VARIABLES tid, ln
tvars == <<vars, tid, ln>>

Tr == IF tid = 0 THEN <<>> ELSE Traces[tid]
Ev == Tr[ln]
IsEvent(e) == ln <= Len(Tr) /\ Ev.ev = e /\ ln' = ln + 1 /\ tid' = tid

TInit == /\ Init /\ tid = 0 /\ ln = 1
\* one behaviour per recorded trace
TChoose == /\ tid = 0 /\ tid' \in 1..Len(Traces) /\ ln' = 1 /\ pc' = "idle"
           /\ UNCHANGED <<left, right, inp, pos, buf, stepi, out, l0, r0, ncalls, plan, outs>>

\* solve() called: the lists the real instance holds at that moment are the ones the model carried over
TBegin == /\ IsEvent("begin")
          /\ left = Ev.l /\ right = Ev.r
          /\ Begin(Ev.inp)

\* Tokens.append during tokenisation
TAppend == /\ IsEvent("append") /\ pc = "tok"
           /\ right' = Append(right, Ev.item)
           /\ UNCHANGED <<left, pc, inp, pos, buf, stepi, out, l0, r0, ncalls, plan, outs>>

TokModel == Tokenize(inp, 1, <<>>, <<>>)
KnownInput == inp # <<"#unknown">>      \* the driver told the tracer the token string it rendered

\* tokenisation finished: what was appended is what the model's tokeniser appends for this input
TTokEnd == /\ IsEvent("tokend") /\ pc = "tok"
           /\ left = Ev.l /\ right = Ev.r
           /\ KnownInput => (~TokModel.err /\ right = r0 \o TokModel.app)
           /\ pc' = "steps" /\ stepi' = 1
           /\ UNCHANGED <<left, right, inp, pos, buf, out, l0, r0, ncalls, plan, outs>>

RECURSIVE NextStepR(_)
NextStepR(i) == IF i > Len(Steps) \/ StepOps(i) # {} THEN i ELSE NextStepR(i + 1)

\* Tokens.operate called: it is for the next step that has operators in the table (StepSkip* . StepBegin)
TStep == /\ IsEvent("step") /\ pc = "steps"
         /\ LET i == NextStepR(stepi) IN
            /\ i <= Len(Steps)
            /\ {Ev.ops[k] : k \in 1..Len(Ev.ops)} = StepOps(i)
            /\ Ev.otype = Steps[i].otype
            /\ stepi' = i
         /\ pc' = "loop"
         /\ UNCHANGED <<left, right, inp, pos, buf, out, l0, r0, ncalls, plan, outs>>

TDispatch == /\ IsEvent("disp")
             /\ LoopDispatch
             /\ left' = Ev.l /\ right' = Ev.r
             /\ Ev.err <=> (pc' = "idle")

TLoopEnd == /\ IsEvent("stepend")
            /\ LoopEnd
            /\ left' = Ev.l /\ right' = Ev.r

\* normal return (after the remaining operator-less steps)
TReturn == /\ IsEvent("end") /\ pc = "steps" /\ NextStepR(stepi) > Len(Steps)
           /\ Len(left) = 0 /\ Len(right) <= 1
           /\ LET g == GetRight(right) IN
              /\ right' = g.r /\ UNCHANGED left /\ pc' = "idle"
              /\ out' = Outcome([err |-> FALSE, v |-> g.v])
              /\ out' = Ev.out
              /\ outs' = Append(outs, out')
           /\ left' = Ev.l /\ right' = Ev.r
           /\ UNCHANGED <<inp, pos, buf, stepi, l0, r0, ncalls, plan>>

\* an exception escaped solve(): during tokenisation, or the final "unprocessed tokens" test
\* (an exception inside a step was already consumed by TDispatch, which moved pc to "idle")
TRaise == /\ IsEvent("raise")
          /\ \/ /\ pc = "tok" /\ Ev.phase = "tok"
                /\ KnownInput => (TokModel.err /\ right = r0 \o TokModel.app)
                /\ UNCHANGED <<left, right>> /\ Raise
             \/ /\ pc = "steps" /\ NextStepR(stepi) > Len(Steps)
                /\ (Len(left) > 0 \/ Len(right) > 1)
                /\ UNCHANGED <<left, right>> /\ Raise
             \/ /\ pc = "idle" /\ out = MERR /\ Tr[ln - 1].ev = "disp" /\ Tr[ln - 1].err
                /\ UNCHANGED vars
          /\ left' = Ev.l /\ right' = Ev.r

-----------------------------------------------------------------------------
(* Shape mode.  Executions of the repository's own tests use real atoms (floats, quantities,      *)
(* substances ...) whose values the tracer cannot turn into trees; it logs every atom as the      *)
(* opaque tree <<"*">>.  The machine never looks inside a tree, so the abstraction commutes with  *)
(* every step: the spec applies Abs to what the machine computes and compares with the log.        *)
RECURSIVE AbsItem(_)
AbsItem(i) == IF i.k = "t" THEN T(<<"*">>)
              ELSE IF i.k = "f" THEN [i EXCEPT !.a = [j \in 1..Len(i.a) |-> AbsItem(i.a[j])]]
              ELSE i
AbsSeq(s) == [j \in 1..Len(s) |-> AbsItem(s[j])]

ADispatch == /\ IsEvent("disp") /\ pc = "loop" /\ right # <<>>
             /\ LET d == Dispatch(left, right, StepOps(stepi), Steps[stepi].otype) IN
                \* an operation on real atoms may also raise for reasons of their VALUES (unit mismatch, domain
                \* error): then only the fact that an operator of the step was applied is checked
                /\ (d.err => Ev.err)
                /\ (Ev.err /\ ~d.err) => InStep(Head(right), StepOps(stepi))
                /\ ~Ev.err => (AbsSeq(d.l) = Ev.l /\ AbsSeq(d.r) = Ev.r)
                /\ left' = Ev.l /\ right' = Ev.r
                /\ IF Ev.err THEN Raise ELSE UNCHANGED <<pc, inp, pos, buf, stepi, out, l0, r0, ncalls, plan, outs>>

AReturn == /\ IsEvent("end") /\ pc = "steps" /\ NextStepR(stepi) > Len(Steps)
           /\ Len(left) = 0 /\ Len(right) <= 1
           /\ LET g == GetRight(right) IN
              /\ right' = g.r /\ UNCHANGED left /\ pc' = "idle"
              /\ out' = Outcome([err |-> FALSE, v |-> g.v])
              /\ outs' = Append(outs, out')
           /\ left' = Ev.l /\ right' = Ev.r
           /\ UNCHANGED <<inp, pos, buf, stepi, l0, r0, ncalls, plan>>

ANext == TChoose \/ TBegin \/ TAppend \/ TTokEnd \/ TStep \/ ADispatch \/ TLoopEnd \/ AReturn \/ TRaise
ASpec == TInit /\ [][ANext]_tvars

TNext == TChoose \/ TBegin \/ TAppend \/ TTokEnd \/ TStep \/ TDispatch \/ TLoopEnd \/ TReturn \/ TRaise

TSpec == TInit /\ [][TNext]_tvars

Accept == (tid > 0 /\ ln = Len(Tr) + 1) => PrintT(<<"ACCEPT", tid>>)
\* deepest line reached per trace, for diagnosing a rejection
Progress == PrintT(<<"AT", tid, ln>>)
=============================================================================
