------------------------------ MODULE DipTrace ------------------------------
(***************************************************************************)
(* Trace validation for DIP.parse (code -> spec).  verif/dip_tracer.py     *)
(* records, for every parse the repository's tests perform, the lines the  *)
(* parser registered (keyword, indentation, raw name, for clauses the      *)
(* truth value) and the names of the nodes of the returned environment.    *)
(* Each recorded parse must be explained by the machine of DipTree.tla:    *)
(* MachRun(lines) succeeds and yields exactly those node paths, in order.  *)
(* (Parses that raise are not judged: most failures come from parts the    *)
(* line-level machine does not model.)                                     *)
(***************************************************************************)
EXTENDS DipTree, Json, IOUtils

File == JsonDeserialize(IOEnv.TRACE_FILE)
Traces == File.traces
TNameChars(c) == File.chars[c]
TCharOrd(ch) == File.ords[ch]

VARIABLE tid
Init == tid = 0
Next == tid = 0 /\ tid' \in 1..Len(Traces)

Lines(t) == [j \in 1..Len(t.lines) |->
               [k |-> t.lines[j].k, ind |-> t.lines[j].ind, nm |-> t.lines[j].nm, v |-> j, c |-> t.lines[j].c]]
Explained(t) == LET m == MachRun(Lines(t)) IN
                m.ok /\ [j \in 1..Len(m.nodes) |-> m.nodes[j].p] = t.names

IdealAgrees(t) == LET i == IdealRun(Lines(t)) IN i.ok /\ [j \in 1..Len(i.nodes) |-> i.nodes[j].p] = t.names
\* one line per recorded parse: explained by the machine? equal to the ideal? in the undocumented band? deviation class
Verdict == tid > 0 =>
             LET t == Traces[tid] IN
             PrintT(<<"T", tid, Explained(t), IdealAgrees(t), IdealRun(Lines(t)).u, Dev(Lines(t))>>)
=============================================================================
