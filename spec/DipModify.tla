------------------------------ MODULE DipModify ------------------------------
(***************************************************************************)
(* C14: a node that is assigned more than once.                            *)
(*                                                                         *)
(* A program is a first line (definition or declaration, optionally made   *)
(* constant) followed by modifications, each typed or untyped, with or     *)
(* without unit.  IDEAL: the statement of the property with exact          *)
(* rationals.  MACHINE: transcription of BaseNode.modify_value /           *)
(* NumberType.convert / set_value and of the constant / declared checks of *)
(* DIP.parse.  Values: [t, n, d] with t in "q" (n/d), "b" (n = 0/1),        *)
(* "s" (n = string id), "none".                                             *)
(***************************************************************************)
EXTENDS Integers, Sequences, FiniteSets, TLC, Json

CONSTANTS Types,        \* subset of {"int","float","bool","str"}
          NumVals,      \* set of <<n, d>> rationals usable on number lines
          Units,        \* subset of {"", "m", "cm", "km", "s", "ms"}
          MaxMods, Emit, KnownDevs

Qv(n, d) == [t |-> "q", n |-> n, d |-> d]
Bv(b)    == [t |-> "b", n |-> IF b THEN 1 ELSE 0, d |-> 1]
Sv(i)    == [t |-> "s", n |-> i, d |-> 1]
None     == [t |-> "none", n |-> 0, d |-> 1]

\* a unit is an affine map to the base unit of its dimension: base = value * s + o  (s, o rationals <<num, den>>)
\* "[len2]" and "[len5]" are the same custom symbol [len] defined as 2 m resp. 5 m by a $unit line
S(u) == CASE u = "m" -> <<1, 1>> [] u = "cm" -> <<1, 100>> [] u = "km" -> <<1000, 1>> [] u = "mm" -> <<1, 1000>>
          [] u = "s" -> <<1, 1>> [] u = "ms" -> <<1, 1000>>
          [] u = "[len2]" -> <<2, 1>> [] u = "[len5]" -> <<5, 1>>
          [] OTHER -> <<1, 1>>
\* equivalent `$unit len = <number> <unit>` lines for the custom symbols (the harness writes one or another,
\* depending on the rendering); every one of them denotes S(u): number * S(unit) = S(u)
CustomDefs(u) == CASE u = "[len2]" -> {<<2, "m">>, <<200, "cm">>} [] u = "[len5]" -> {<<5, "m">>, <<5000, "mm">>}
ASSUME \A u \in {"[len2]", "[len5]"} : \A d \in CustomDefs(u) : d[1] * S(d[2])[1] * S(u)[2] = S(u)[1] * S(d[2])[2]
O(u) == IF u = "Cel" THEN <<27315, 100>> ELSE <<0, 1>>
Dim(u) == CASE u \in {"m", "cm", "km", "mm", "[len2]", "[len5]"} -> "L" [] u \in {"s", "ms"} -> "T" [] u \in {"K", "Cel"} -> "Th" [] OTHER -> "0"

RECURSIVE Gcd(_, _)
Gcd(a, b) == IF b = 0 THEN a ELSE Gcd(b, a % b)
Abs(x) == IF x < 0 THEN -x ELSE x
Norm(n, d) == LET g == Gcd(Abs(n), d) IN IF n = 0 THEN Qv(0, 1) ELSE Qv(n \div g, d \div g)
\* value v given in unit u, expressed in unit u0 (same dimension):  ((v * s + o) - o0) / s0
Conv(v, u, u0) ==
  LET s == S(u)  o == O(u)  s0 == S(u0)  o0 == O(u0)
      \* v*s + o - o0 as one fraction over the common denominator
      bn == v.n * s[1] * o[2] * o0[2] + o[1] * v.d * s[2] * o0[2] - o0[1] * v.d * s[2] * o[2]
      bd == v.d * s[2] * o[2] * o0[2]
  IN Norm(bn * s0[2], bd * s0[1])
IsInt(v) == v.t = "q" /\ v.d = 1

ValsOf(ty) == CASE ty = "int"   -> {Qv(q[1], q[2]) : q \in NumVals} \cup {None}
                [] ty = "float" -> {Qv(q[1], q[2]) : q \in NumVals} \cup {None}
                [] ty = "bool"  -> {Bv(TRUE), Bv(FALSE), None}
                [] ty = "str"   -> {Sv(1), Sv(2), None}
UnitsOf(ty) == IF ty \in {"int", "float"} THEN Units ELSE {""}
\* is the written value a literal of that type?  (2.5 is no int literal)
Fits(v, ty) == v.t = "none" \/ (ty = "int" /\ IsInt(v)) \/ (ty = "float" /\ v.t = "q") \/ (ty = "bool" /\ v.t = "b") \/ (ty = "str" /\ v.t = "s")

VARIABLE prog      \* [first |-> [dec, ty, v, u, const], mods |-> <<[typed, ty, v, u]>>]  or <<>> before the first line
NoProg == [first |-> [dec |-> FALSE, ty |-> "", v |-> None, u |-> "", const |-> FALSE], mods |-> <<>>]

Init == prog = NoProg
First == /\ prog = NoProg
         /\ \E ty \in Types, dec \in BOOLEAN, const \in BOOLEAN :
            \E v \in ValsOf(ty), u \in UnitsOf(ty) :
               /\ Fits(v, ty)
               /\ (dec => v = None)
               /\ ~(v = None /\ u # "" /\ ~dec)                      \* `none` written with a unit: undocumented
               /\ prog' = [first |-> [dec |-> dec, ty |-> ty, v |-> v, u |-> u, const |-> const], mods |-> <<>>]
Mod == /\ prog # NoProg /\ Len(prog.mods) < MaxMods
       /\ \E typed \in BOOLEAN, ty \in Types :
          \E v \in ValsOf(prog.first.ty) \cup (IF typed THEN ValsOf(ty) ELSE {}), u \in UnitsOf(prog.first.ty) :
             /\ (~typed => ty = prog.first.ty)
             /\ (typed => Fits(v, ty))
             /\ ~({"[len2]", "[len5]"} \subseteq ({u, prog.first.u} \cup {prog.mods[j].u : j \in 1..Len(prog.mods)}))
             /\ prog' = [prog EXCEPT !.mods = Append(@, [typed |-> typed, ty |-> ty, v |-> v, u |-> u])]
Next == First \/ Mod

-----------------------------------------------------------------------------
(* IDEAL *)
IdealStep(st, m) ==
  IF ~st.ok THEN st
  ELSE IF st.const THEN [st EXCEPT !.ok = FALSE, !.why = "constant"]
  ELSE IF m.typed /\ m.ty # st.ty THEN [st EXCEPT !.ok = FALSE, !.why = "dtype"]
  ELSE IF ~Fits(m.v, st.ty) THEN [st EXCEPT !.ok = FALSE, !.why = "dtype"]
  ELSE IF m.v = None THEN [st EXCEPT !.v = None, !.assigned = TRUE, !.u = st.u \/ m.u # ""]
  ELSE IF m.u = "" THEN [st EXCEPT !.v = m.v, !.assigned = TRUE]
  ELSE IF st.unit = "" THEN [st EXCEPT !.ok = FALSE, !.why = "dimension", !.tags = @ \cup {"unit_on_unitless"}]
  ELSE IF Dim(m.u) # Dim(st.unit) THEN [st EXCEPT !.ok = FALSE, !.why = "dimension"]
  ELSE LET c == Conv(m.v, m.u, st.unit) IN
       [st EXCEPT !.v = c, !.assigned = TRUE, !.u = st.u \/ (st.ty = "int" /\ ~IsInt(c))]   \* int node, non-integer result: undocumented

RECURSIVE Fold(_, _, _)
Fold(Step(_, _), st, ms) == IF ms = <<>> THEN st ELSE Fold(Step, Step(st, Head(ms)), Tail(ms))

Ideal(p) ==
  LET f  == p.first
      s0 == [ok |-> TRUE, why |-> "", ty |-> f.ty, unit |-> f.u, v |-> f.v, assigned |-> ~f.dec, const |-> f.const,
             u |-> FALSE, tags |-> {}]
      r  == Fold(IdealStep, s0, p.mods)
  IN IF r.ok /\ ~r.assigned THEN [r EXCEPT !.ok = FALSE, !.why = "declared_without_value"]
     ELSE IF r.ok /\ f.dec /\ r.v = None THEN [r EXCEPT !.u = TRUE]       \* declared node whose last assignment is none
     ELSE r

-----------------------------------------------------------------------------
(* MACHINE : modify_value + convert + the checks in DIP.parse *)
MachStep(st, m) ==
  IF ~st.ok THEN st
  ELSE IF st.const THEN [st EXCEPT !.ok = FALSE, !.why = "constant"]                          \* dip.py: target.nodes[n].constant
  ELSE IF m.typed /\ m.ty # st.ty THEN [st EXCEPT !.ok = FALSE, !.why = "dtype"]              \* node.dtype != self.dtype
  ELSE IF ~Fits(m.v, st.ty) THEN [st EXCEPT !.ok = FALSE, !.why = "dtype"]                    \* cast_value: dtype(text) raises
  \* since the fix of finding unit-on-unitless-accepted: a unit on the modifier of a unit-less number node is refused
  \* (while that finding is open the machine keeps the old behaviour: the unit is dropped further below)
  ELSE IF "unit_on_unitless_accepted" \notin KnownDevs /\ st.ty \in {"int", "float"} /\ st.unit = "" /\ m.u # ""
       THEN [st EXCEPT !.ok = FALSE, !.why = "dimension"]
  ELSE IF m.v = None THEN
       \* value.value = None ; value.unit = node.units_raw ; convert(): `if unit` and `self.unit != unit` -> Quantity(float(None)) raises
       IF st.ty \in {"int", "float"} /\ st.unit # "" /\ m.u # "" /\ m.u # st.unit
       THEN [st EXCEPT !.ok = FALSE, !.why = "none_with_unit"]
       ELSE [st EXCEPT !.v = None, !.isnone = TRUE]
  ELSE IF st.ty \in {"int", "float"} /\ st.unit # "" /\ m.u # "" /\ m.u # st.unit
       THEN IF Dim(m.u) # Dim(st.unit) THEN [st EXCEPT !.ok = FALSE, !.why = "dimension"]
            ELSE [st EXCEPT !.v = Conv(m.v, m.u, st.unit), !.isnone = FALSE]
  ELSE [st EXCEPT !.v = m.v, !.isnone = FALSE]                                                \* no definition unit: the modifier's unit is dropped

Mach(p) ==
  LET f  == p.first
      s0 == [ok |-> TRUE, why |-> "", ty |-> f.ty, unit |-> f.u, v |-> f.v, isnone |-> (f.v = None), dec |-> f.dec, const |-> f.const]
      r  == Fold(MachStep, s0, p.mods)
  IN \* "Node value must be defined": declared and node.value is None (an explicitly assigned none is a type object, not None)
     IF r.ok /\ f.dec /\ p.mods = <<>> THEN [r EXCEPT !.ok = FALSE, !.why = "declared_without_value"] ELSE r

-----------------------------------------------------------------------------
Same(i, m) == i.ok = m.ok /\ (i.ok => i.v = m.v)
Dev(p) == LET i == Ideal(p)  m == Mach(p) IN
          IF Same(i, m) THEN "none"
          ELSE IF ~i.ok /\ m.ok THEN (IF "unit_on_unitless" \in i.tags THEN "unit_on_unitless_accepted" ELSE "illegal_accepted")
          ELSE IF i.ok /\ ~m.ok THEN "legal_rejected"
          ELSE "wrong_value"

Record(p) == LET i == Ideal(p)  m == Mach(p) IN
  [prog |-> p, ideal |-> [ok |-> i.ok, why |-> i.why, ty |-> i.ty, unit |-> i.unit, v |-> i.v], u |-> i.u,
   mach |-> [ok |-> m.ok, v |-> m.v], dev |-> Dev(p)]

Refines == prog # NoProg =>
             /\ Emit => PrintT(ToJson(Record(prog)))
             /\ (Dev(prog) \in KnownDevs \cup {"none"} \/ Ideal(prog).u)
=============================================================================
