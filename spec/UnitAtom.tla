------------------------------ MODULE UnitAtom ------------------------------
(***************************************************************************)
(* C03, character level: what ONE atom of a unit expression means.         *)
(*                                                                         *)
(* Texts are sequences of one-character strings.  The unit / prefix /      *)
(* system-unit tables are the live ones (module Tables, generated on every *)
(* run).                                                                   *)
(*                                                                         *)
(* IDEAL   (the published notation, declaratively):                        *)
(*     atom     ::= number | symbolpart [exponent]                         *)
(*     exponent ::= ["-"] digits [":" digits]          (denominator # 0)   *)
(*     symbolpart is read as (prefix, unit) iff it EQUALS prefix o unit    *)
(*     with the prefix empty or admissible for that unit, or it equals a   *)
(*     system-unit symbol.  No reading -> rejected.                        *)
(* ALGORITHM (a way to compute the reading): longest table symbol that is  *)
(*     a suffix; the WHOLE remainder must be empty or an admissible prefix.*)
(*     TLC checks Algo = Ideal and that no text has two readings           *)
(*     (unique decodability of the notation over the whole live table).    *)
(* MACHINE (transcription of unit_solver.AtomParser): number regexp,       *)
(*     exponent regexp, longest suffix symbol, then - named deviation      *)
(*     OneChar - only the ONE character in front of the symbol is examined.*)
(***************************************************************************)
EXTENDS Tables, Integers, Sequences, FiniteSets, TLC

CONSTANT OneChar        \* TRUE: pinned code `string[-len(base)-1]`; FALSE: repaired (whole remainder)

NP == Len(Prefixes)
NU == Len(Units)
NS == Len(SysUnits)

(* ------------------------------------------------------------ rationals *)
Abs(x) == IF x < 0 THEN 0 - x ELSE x
RECURSIVE GCD(_, _)
GCD(a, b) == IF b = 0 THEN a ELSE GCD(b, a % b)
QNorm(q) == IF q[1] = 0 THEN <<0, 1>>
            ELSE LET g == GCD(Abs(q[1]), Abs(q[2]))
                     s == IF q[2] < 0 THEN 0 - 1 ELSE 1
                 IN <<(s * q[1]) \div g, (s * q[2]) \div g>>
\* cross-cancelling forms keep the intermediate products inside TLC's 32-bit integers
QAdd(a, b) == LET g == GCD(a[2], b[2]) IN QNorm(<<a[1] * (b[2] \div g) + b[1] * (a[2] \div g), (a[2] \div g) * b[2]>>)
QNeg(a)    == <<0 - a[1], a[2]>>
QSub(a, b) == QAdd(a, QNeg(b))
QMul(a, b) == IF a[1] = 0 \/ b[1] = 0 THEN <<0, 1>>
              ELSE LET g1 == GCD(Abs(a[1]), Abs(b[2]))  g2 == GCD(Abs(b[1]), Abs(a[2]))
                   IN QNorm(<<(a[1] \div g1) * (b[1] \div g2), (a[2] \div g2) * (b[2] \div g1)>>)
QInv(a)    == QNorm(<<a[2], a[1]>>)
QDiv(a, b) == QMul(a, QInv(b))
QLt(a, b)  == a[1] * b[2] < b[1] * a[2]            \* both denominators positive
QZero == <<0, 1>>
QOne  == <<1, 1>>

(* ------------------------------------------------------------ characters *)
Digits == {"0", "1", "2", "3", "4", "5", "6", "7", "8", "9"}
DigitVal(c) == CASE c = "0" -> 0 [] c = "1" -> 1 [] c = "2" -> 2 [] c = "3" -> 3 [] c = "4" -> 4
                 [] c = "5" -> 5 [] c = "6" -> 6 [] c = "7" -> 7 [] c = "8" -> 8 [] c = "9" -> 9
RECURSIVE NatOf(_, _)
NatOf(s, acc) == IF s = <<>> THEN acc ELSE NatOf(Tail(s), 10 * acc + DigitVal(Head(s)))
AllIn(s, set) == \A i \in 1..Len(s) : s[i] \in set
IsSuffix(s, t) == Len(s) <= Len(t) /\ t[Len(t)] = s[Len(s)] /\ SubSeq(t, Len(t) - Len(s) + 1, Len(t)) = s
DropLast(t, n) == SubSeq(t, 1, Len(t) - n)
TakeLast(t, n) == SubSeq(t, Len(t) - n + 1, Len(t))
RECURSIVE Join(_)
Join(s) == IF s = <<>> THEN "" ELSE Head(s) \o Join(Tail(s))
\* length of the maximal trailing run of characters of `set`
RECURSIVE RunLen(_, _, _)
RunLen(t, set, n) == IF n < Len(t) /\ t[Len(t) - n] \in set THEN RunLen(t, set, n + 1) ELSE n
PosOf(s, c) == IF \E i \in 1..Len(s) : s[i] = c THEN CHOOSE i \in 1..Len(s) : s[i] = c /\ \A j \in 1..(i - 1) : s[j] # c ELSE 0
Count(s, c) == Cardinality({i \in 1..Len(s) : s[i] = c})

PSym(p) == IF p = 0 THEN <<>> ELSE Prefixes[p].sym
PName(p) == IF p = 0 THEN "" ELSE Prefixes[p].name
PIdx(name) == CHOOSE p \in 1..NP : Prefixes[p].name = name
Admissible(p, u) == p = 0 \/ Prefixes[p].name \in Units[u].adm

\* units by last character (evaluated once): the only candidates for "symbol is a suffix of text"
LastChars == {Units[u].sym[Len(Units[u].sym)] : u \in 1..NU}
ByLast == TLCEval([c \in LastChars |-> {u \in 1..NU : Units[u].sym[Len(Units[u].sym)] = c}])
SuffixUnits(t) == IF t = <<>> \/ t[Len(t)] \notin LastChars THEN {}
                  ELSE {u \in ByLast[t[Len(t)]] : IsSuffix(Units[u].sym, t)}
Longest(us) == CHOOSE u \in us : \A w \in us : Len(Units[w].sym) <= Len(Units[u].sym)

(* ------------------------------------------------------------ outcomes   *)
\* cls: "number" | "unit" | "sys" | "reject" | "unspecified"
\* p, u: prefix index (0 = none) and unit index (sys: index into SysUnits); e: exponent; num: <<mantissa, e10>>
\* lit: the literal's own text when its mantissa has more digits than TLC's integers can carry safely
Out(cls, p, u, e, num) == [cls |-> cls, p |-> p, u |-> u, e |-> e, num |-> num, lit |-> <<>>]
BigNum(t) == [cls |-> "number", p |-> 0, u |-> 0, e |-> QZero, num |-> <<0, 0>>, lit |-> t]
MaxMantDigits == 3
Reject == Out("reject", 0, 0, QZero, <<0, 0>>)
Unspec == Out("unspecified", 0, 0, QZero, <<0, 0>>)

(* ------------------------------------------------------------ numbers    *)
\* the documented core:  [-] D+ [. D+] [e [+|-] D+]
\* value = mantissa * 10^e10 with an integer mantissa
NumParse(t) ==
  LET neg  == t # <<>> /\ t[1] = "-"
      b    == IF neg THEN Tail(t) ELSE t
      ie   == PosOf(b, "e")
      mant == IF ie = 0 THEN b ELSE SubSeq(b, 1, ie - 1)
      ex   == IF ie = 0 THEN <<>> ELSE SubSeq(b, ie + 1, Len(b))
      id   == PosOf(mant, ".")
      ip   == IF id = 0 THEN mant ELSE SubSeq(mant, 1, id - 1)
      fp   == IF id = 0 THEN <<>> ELSE SubSeq(mant, id + 1, Len(mant))
      esg  == ex # <<>> /\ ex[1] \in {"+", "-"}
      ed   == IF esg THEN Tail(ex) ELSE ex
      okm  == ip # <<>> /\ AllIn(ip, Digits) /\ AllIn(fp, Digits) /\ (id = 0 \/ fp # <<>>)
      oke  == ie = 0 \/ (ed # <<>> /\ AllIn(ed, Digits))
      m    == NatOf(ip \o fp, 0)
      e    == (IF ie = 0 THEN 0 ELSE (IF esg /\ ex[1] = "-" THEN 0 - NatOf(ed, 0) ELSE NatOf(ed, 0))) - Len(fp)
      big  == Len(ip) + Len(fp) > MaxMantDigits \/ Len(ed) > 3
  IN [ok |-> okm /\ oke, big |-> okm /\ oke /\ big,
      mant |-> IF okm /\ oke /\ ~big THEN (IF neg THEN 0 - m ELSE m) ELSE 0, e10 |-> IF okm /\ oke /\ ~big THEN e ELSE 0]
NumberLike(t) == t # <<>> /\ AllIn(t, Digits \cup {".", "e", "+", "-"}) /\ \E i \in 1..Len(t) : t[i] \in Digits

(* ------------------------------------------------------------ exponents  *)
ExpCharsIdeal == Digits \cup {":", "-"}
ExpCharsCode  == Digits \cup {":", "+", "-"}               \* the code's character class [0-9:+-]
\* exponent ::= ["-"] D+ [":" D+]
ExpParse(r) ==
  LET neg == r # <<>> /\ r[1] = "-"
      b   == IF neg THEN Tail(r) ELSE r
      ic  == PosOf(b, ":")
      n   == IF ic = 0 THEN b ELSE SubSeq(b, 1, ic - 1)
      d   == IF ic = 0 THEN <<"1">> ELSE SubSeq(b, ic + 1, Len(b))
      ok  == n # <<>> /\ d # <<>> /\ AllIn(n, Digits) /\ AllIn(d, Digits)
  IN IF ~ok THEN [ok |-> FALSE, q |-> QZero]
     ELSE IF NatOf(d, 0) = 0 THEN [ok |-> FALSE, q |-> QZero]
     ELSE [ok |-> TRUE, q |-> QNorm(<<IF neg THEN 0 - NatOf(n, 0) ELSE NatOf(n, 0), NatOf(d, 0)>>)]

(* ------------------------------------------------------------ IDEAL      *)
\* all readings of a symbol part: <<"u", p, u>> or <<"s", 0, s>>
Readings(sp) ==
  {r \in {<<"u", p, u>> : p \in 0..NP, u \in SuffixUnits(sp)} :
       sp = PSym(r[2]) \o Units[r[3]].sym /\ Admissible(r[2], r[3])}
  \cup {<<"s", 0, s>> : s \in {x \in 1..NS : SysUnits[x].sym = sp}}

IdealAtom(t) ==
  IF t = <<>> THEN Reject
  ELSE IF NumberLike(t) THEN
       (LET n == NumParse(t) IN IF ~n.ok THEN Unspec ELSE IF n.big THEN BigNum(t) ELSE Out("number", 0, 0, QZero, <<n.mant, n.e10>>))
  ELSE LET rl  == RunLen(t, ExpCharsCode, 0)
           run == TakeLast(t, rl)
           sp  == DropLast(t, rl)
       IN IF \E i \in 1..Len(run) : run[i] = "+" THEN Unspec          \* `m+2` : documented nowhere
          ELSE LET ex == IF rl = 0 THEN [ok |-> TRUE, q |-> QOne] ELSE ExpParse(run)
                   rd == Readings(sp)
               IN IF ~ex.ok \/ rd = {} THEN Reject
                  ELSE IF Cardinality(rd) > 1 THEN Out("ambiguous", 0, 0, QZero, <<0, 0>>)
                  ELSE LET r == CHOOSE x \in rd : TRUE
                       IN Out(IF r[1] = "u" THEN "unit" ELSE "sys", r[2], r[3], ex.q, <<0, 0>>)

\* feature predicates of an atom text (used as tags by the known-findings matcher)
SymPart(t) == DropLast(t, RunLen(t, ExpCharsCode, 0))
PrefixChars == UNION {{Prefixes[p].sym[i] : i \in 1..Len(Prefixes[p].sym)} : p \in 1..NP}
\* the text has no reading but a proper suffix of its symbol part has one: characters in front of a
\* valid [prefix]symbol.  Exactly one table prefix in front of a bare symbol that does not admit it is the
\* property's "prefix the unit does not admit"; otherwise the characters are extra - all of them prefix
\* letters (extra_lead_char) or not (foreign_lead_char)
LeadTags(t) ==
  LET sp == SymPart(t) IN
  IF sp = <<>> \/ Readings(sp) # {} THEN {}
  ELSE LET ks == {k \in 1..(Len(sp) - 1) : Readings(SubSeq(sp, k + 1, Len(sp))) # {}} IN
       IF ks = {} THEN {}
       ELSE LET k == CHOOSE x \in ks : \A y \in ks : x <= y
                junk == SubSeq(sp, 1, k)
                rd == Readings(SubSeq(sp, k + 1, Len(sp)))
            IN IF (\E p \in 1..NP : Prefixes[p].sym = junk) /\ (\A r \in rd : r[1] = "u" /\ r[2] = 0) THEN {"inadmissible_prefix"}
               ELSE IF AllIn(junk, PrefixChars) THEN {"extra_lead_char"} ELSE {"foreign_lead_char"}
OutTags(o) == IF o.cls = "unit" /\ o.p > 0 /\ Len(Prefixes[o.p].sym) > 1 THEN {"prefix_two_letter"} ELSE {}
AtomTextTags(t) == IF NumberLike(t) THEN {} ELSE LeadTags(t) \cup OutTags(IdealAtom(t))

(* ------------------------------------------------------------ ALGORITHM  *)
\* longest table symbol that is a suffix; the whole remainder is empty or an admissible prefix
AlgoResolve(sp) ==
  IF \E s \in 1..NS : SysUnits[s].sym = sp THEN {<<"s", 0, CHOOSE s \in 1..NS : SysUnits[s].sym = sp>>}
  ELSE LET us == SuffixUnits(sp) IN
       IF us = {} THEN {}
       ELSE LET u   == Longest(us)
                rem == DropLast(sp, Len(Units[u].sym))
            IN IF rem = <<>> THEN {<<"u", 0, u>>}
               ELSE IF \E p \in 1..NP : Prefixes[p].sym = rem /\ Admissible(p, u)
                    THEN {<<"u", CHOOSE p \in 1..NP : Prefixes[p].sym = rem, u>>}
                    ELSE {}

(* ------------------------------------------------------------ MACHINE    *)
\* Python int(): optional sign, digits
PyInt(s) == LET sg == s # <<>> /\ s[1] \in {"+", "-"}
                b  == IF sg THEN Tail(s) ELSE s
            IN [ok |-> b # <<>> /\ AllIn(b, Digits),
                v  |-> IF b # <<>> /\ AllIn(b, Digits) THEN (IF sg /\ s[1] = "-" THEN 0 - NatOf(b, 0) ELSE NatOf(b, 0)) ELSE 0]
\* Fraction.from_string
MFraction(run) ==
  IF Count(run, ":") = 0 THEN LET n == PyInt(run) IN [ok |-> n.ok, q |-> <<n.v, 1>>]
  ELSE IF Count(run, ":") # 1 THEN [ok |-> FALSE, q |-> QZero]              \* too many values to unpack
  ELSE LET ic == PosOf(run, ":")
           n  == PyInt(SubSeq(run, 1, ic - 1))
           d  == PyInt(SubSeq(run, ic + 1, Len(run)))
       IN [ok |-> n.ok /\ d.ok, q |-> <<n.v, d.v>>]
\* re.match(r'^[-]?([0-9.]+)(e([0-9+-]+)|)$') followed by float()
MNumberRegex(t) ==
  LET b  == IF t # <<>> /\ t[1] = "-" THEN Tail(t) ELSE t
      ie == PosOf(b, "e")
      m  == IF ie = 0 THEN b ELSE SubSeq(b, 1, ie - 1)
      x  == IF ie = 0 THEN <<>> ELSE SubSeq(b, ie + 1, Len(b))
  IN m # <<>> /\ AllIn(m, Digits \cup {"."}) /\ (ie = 0 \/ (x # <<>> /\ AllIn(x, Digits \cup {"+", "-"})))
\* float(): at most one point, a digit in the mantissa, exponent [+-]digits
MFloatOK(t) ==
  LET b  == IF t # <<>> /\ t[1] = "-" THEN Tail(t) ELSE t
      ie == PosOf(b, "e")
      m  == IF ie = 0 THEN b ELSE SubSeq(b, 1, ie - 1)
      x  == IF ie = 0 THEN <<>> ELSE SubSeq(b, ie + 1, Len(b))
      xd == IF x # <<>> /\ x[1] \in {"+", "-"} THEN Tail(x) ELSE x
  IN Count(m, ".") <= 1 /\ (\E i \in 1..Len(m) : m[i] \in Digits) /\ (ie = 0 \/ (xd # <<>> /\ AllIn(xd, Digits)))
\* value of a literal float() accepts ("5." and ".5" included)
MNumValue(t) ==
  LET neg == t[1] = "-"
      b   == IF neg THEN Tail(t) ELSE t
      ie  == PosOf(b, "e")
      m   == IF ie = 0 THEN b ELSE SubSeq(b, 1, ie - 1)
      x   == IF ie = 0 THEN <<>> ELSE SubSeq(b, ie + 1, Len(b))
      id  == PosOf(m, ".")
      ip  == IF id = 0 THEN m ELSE SubSeq(m, 1, id - 1)
      fp  == IF id = 0 THEN <<>> ELSE SubSeq(m, id + 1, Len(m))
      xs  == x # <<>> /\ x[1] \in {"+", "-"}
      xd  == IF xs THEN Tail(x) ELSE x
      mv  == NatOf(ip \o fp, 0)
      ev  == (IF ie = 0 THEN 0 ELSE IF xs /\ x[1] = "-" THEN 0 - NatOf(xd, 0) ELSE NatOf(xd, 0)) - Len(fp)
  IN <<IF neg THEN 0 - mv ELSE mv, ev>>

\* same size rule as NumParse: digits of the mantissa / of the exponent
MBig(t) == LET ie == PosOf(t, "e")
               m  == IF ie = 0 THEN t ELSE SubSeq(t, 1, ie - 1)
               x  == IF ie = 0 THEN <<>> ELSE SubSeq(t, ie + 1, Len(t))
           IN Cardinality({i \in 1..Len(m) : m[i] \in Digits}) > MaxMantDigits
              \/ Cardinality({i \in 1..Len(x) : x[i] \in Digits}) > 3
MachAtom(t) ==
  IF t = <<>> THEN Reject                                   \* solver never builds an atom from nothing; BaseUnits('') raises
  ELSE IF MNumberRegex(t) THEN (IF ~MFloatOK(t) THEN Reject ELSE IF MBig(t) THEN BigNum(t) ELSE Out("number", 0, 0, QZero, MNumValue(t)))
  ELSE LET s0  == <<" ">> \o t
           rl  == RunLen(s0, ExpCharsCode, 0)
           run == TakeLast(s0, rl)
           s1  == DropLast(s0, rl)
           ex  == IF rl = 0 THEN [ok |-> TRUE, q |-> QOne] ELSE MFraction(run)
       IN IF ~ex.ok THEN Reject                             \* ValueError from int()
          ELSE IF Len(s1) >= 2 /\ s1[2] = "#" THEN           \* string.startswith(" #")
               (LET sp == Tail(s1) IN
                IF ex.q[1] = 0 THEN Out("sys", 0, 0, QZero, <<0, 0>>)        \* zero exponent: entry deleted before lookup
                ELSE IF ex.q[2] = 0 THEN Reject
                ELSE IF \E s \in 1..NS : SysUnits[s].sym = sp
                     THEN Out("sys", 0, CHOOSE s \in 1..NS : SysUnits[s].sym = sp, QNorm(ex.q), <<0, 0>>)
                     ELSE Reject)                           \* KeyError in get_unit_base
          ELSE LET us == SuffixUnits(s1) IN
               IF us = {} THEN Reject                       \* Unknown unit
               ELSE LET u   == Longest(us)
                        rem == DropLast(s1, Len(Units[u].sym))            \* starts with the blank
                        c   == <<rem[Len(rem)]>>                          \* string[-len(base)-1]
                        look == IF OneChar THEN c ELSE Tail(rem)          \* repaired: everything after the blank
                        hit == {p \in 1..NP : IF OneChar THEN IsSuffix(Prefixes[p].sym, look) ELSE Prefixes[p].sym = look}
                    IN IF hit # {} THEN
                          (LET p == CHOOSE x \in hit : \A y \in hit : Len(Prefixes[y].sym) <= Len(Prefixes[x].sym)
                           IN IF Units[u].mode = "list" /\ Prefixes[p].name \notin Units[u].adm THEN Reject
                              ELSE IF Units[u].mode = "none" THEN Reject
                              ELSE IF ex.q[2] = 0 THEN Reject              \* ZeroDivisionError in get_unit_base
                              ELSE Out("unit", IF ex.q[1] = 0 THEN 0 ELSE p, IF ex.q[1] = 0 THEN 0 ELSE u, QNorm(ex.q), <<0, 0>>))
                       ELSE IF (~OneChar) /\ look # <<>> THEN Reject       \* repaired: unknown prefix
                       ELSE IF ex.q[2] = 0 THEN Reject
                       ELSE Out("unit", 0, IF ex.q[1] = 0 THEN 0 ELSE u, QNorm(ex.q), <<0, 0>>)

\* the ideal normalised the same way for comparison: a zero exponent names no unit
NormOut(o) == IF o.cls \in {"unit", "sys"} /\ o.e[1] = 0 THEN Out(o.cls, 0, 0, QZero, <<0, 0>>) ELSE o
SameOutcome(a, b) == NormOut(a) = NormOut(b)

(* ------------------------------------------------------------ table lemmas *)
OpChars == {"*", "/", "(", ")"}
\* no symbol ends in an exponent character or contains an operator character or a blank: exponent
\* stripping and tokenisation cannot cut into a symbol
SymbolsClean ==
  /\ \A u \in 1..NU : LET s == Units[u].sym IN s # <<>> /\ s[Len(s)] \notin ExpCharsCode /\ \A i \in 1..Len(s) : s[i] \notin OpChars \cup {" ", "#"}
  /\ \A p \in 1..NP : LET s == Prefixes[p].sym IN s # <<>> /\ \A i \in 1..Len(s) : s[i] \notin OpChars \cup ExpCharsCode \cup {" ", "#"}
  /\ \A s \in 1..NS : SysUnits[s].sym[1] = "#" /\ SysUnits[s].sym[Len(SysUnits[s].sym)] \notin ExpCharsCode
=============================================================================
