------------------------------- MODULE DipRefs -------------------------------
(***************************************************************************)
(* C17 - references (value injection and node import) of the DIP language. *)
(*                                                                         *)
(* A PROGRAM is a sequence of abstract lines                               *)
(*    def     name type[shape] = literal unit      (or a declaration)      *)
(*    mod     name = literal unit                                          *)
(*    switch  base   : everything so far was a first parse; the rest is a  *)
(*                     second text parsed on top of that environment       *)
(*            remote : everything so far is the file of the remote source  *)
(*                     s1; the rest is the main text ($source s1 = ...)    *)
(*    inj     host type[shape] = {src?query}[slice] unit   (form "def")    *)
(*            host = {src?query}[slice] unit               (form "mod")    *)
(*    imp     host {src?query}  (inline)  /  host NEWLINE {src?query}      *)
(* Every reachable state of the generator is one program; it carries the   *)
(* IDEAL environment (what the property demands) and the MACHINE           *)
(* environment (a transcription of Environment.request / NodeList.query /  *)
(* inject_value / cast_value / slice_value / modify_value / set_value /    *)
(* ImportNode.parse / DIP.parse), both advanced line by line.              *)
(*                                                                         *)
(* Values: numeric scalar [n, e] = n * 10^e (all DIP literals are decimal, *)
(* all unit factors powers of ten: exact); arrays = nested sequences of    *)
(* small ints; strings = sequences of one-character strings; booleans.     *)
(* Paths are sequences of name components.                                 *)
(***************************************************************************)
EXTENDS Naturals, Integers, Sequences, FiniteSets, TLC, Json

CONSTANTS Templates,    \* sequence of node templates [path, dtype, shape, has, val, unit, const]
          ModMenu,      \* sequence of modification literals [dtype, shape, val, unit]
          SliceMenu,    \* sequence of [shape, sl]: slices offered on a referenced value of that shape
          HostUnits,    \* units a referencing line may state (besides stating none)
          MaxDef, MaxMod, MaxRef, MaxLate,
          MaxCmp,       \* comparisons `t bool = ("{?l} > {?r}")` of two referenced numbers (readers: change nothing)
          Modes,        \* subset of {"base", "remote"}: switches offered ("local" = no switch)
          InjHosts,     \* fresh host paths for injecting definitions
          ImpHosts,     \* sequence of [host, form] for imports
          CustomUnit,   \* BOOLEAN: the program starts with `$unit hm = 100 m`
          RefKinds,     \* subset of {"inj", "imp"}: reference lines offered
          Devs,         \* named deviations of the code that are still present (driven by the open findings):
                        \*   inject_raw      inject_value copies the raw definition text, not the current value
                        \*   slice_string    a sliced string goes through json.loads
                        \*   slice_in_mod    `name = {ref}[slice]` cannot work
                        \*   slice_leftover  slice_value leaves the tail of the slice in node.value_slice
                        \*   import_empty    an import selecting nothing appends the import node itself
                        \*   import_declared an imported copy is re-valued from value_raw (None for declarations)
                        \*   import_reinject an imported copy re-runs the injection of its defining line
                        \* a deviation that is switched off is replaced by the repaired algorithm
          CopyOnParse,  \* machine: DIP.parse works on copy.deepcopy(self.env)
          Emit

VARIABLES prog, mode, iS, mS, iSnap, mSnap, cnt, lastT
vars == <<prog, mode, iS, mS, iSnap, mSnap, cnt, lastT>>

-----------------------------------------------------------------------------
(* units *)
\* "[hm]" is the custom unit of the program: `$unit hm = 100 m` (a line of the text when CustomUnit is on)
UExp(u) == CASE u = "cm" -> -2 [] u = "km" -> 3 [] u = "[hm]" -> 2 [] OTHER -> 0
UDim(u) == CASE u \in {"m", "cm", "km", "[hm]"} -> "L" [] u = "s" -> "T" [] OTHER -> ""
Conv(v, from, to) == IF v.n = 0 THEN [n |-> 0, e |-> 0] ELSE [n |-> v.n, e |-> v.e + UExp(from) - UExp(to)]
Num(k) == [n |-> k, e |-> 0]
Numeric(dt) == dt \in {"int", "float"}

(* paths *)
Last(s) == s[Len(s)]
StrictPrefix(p, q) == Len(p) < Len(q) /\ SubSeq(q, 1, Len(p)) = p
Find(nodes, p) == IF \E j \in 1..Len(nodes) : nodes[j].path = p
                  THEN CHOOSE j \in 1..Len(nodes) : nodes[j].path = p ELSE 0

(* shape of a nested sequence value of known depth d (0 = scalar) *)
RECURSIVE ShapeD(_, _)
ShapeD(v, d) == IF d = 0 THEN <<>> ELSE <<Len(v)>> \o (IF Len(v) = 0 THEN <<>> ELSE ShapeD(v[1], d - 1))

Min(a, b) == IF a < b THEN a ELSE b

-----------------------------------------------------------------------------
(* Slices.  A slice is a sequence of <<lo, hi>> per axis, -1 = bound left out; the parser turns a *)
(* bare index i into <<i, i>>.  Result [ok, v, d]: d = depth (number of axes) of the result.      *)

\* IDEAL: Python semantics - an index removes the axis, lo:hi keeps the elements lo..hi-1
RECURSIVE ISlice(_, _, _)
ISlice(v, d, sl) ==
  IF sl = <<>> THEN [ok |-> TRUE, v |-> v, d |-> d]
  ELSE IF d = 0 THEN [ok |-> FALSE, v |-> v, d |-> 0]
  ELSE LET lo == sl[1][1]  hi == sl[1][2] IN
       IF lo = hi /\ lo >= 0
       THEN IF lo < Len(v) THEN ISlice(v[lo + 1], d - 1, Tail(sl)) ELSE [ok |-> FALSE, v |-> v, d |-> 0]
       ELSE LET a == IF lo < 0 THEN 0 ELSE Min(lo, Len(v))
                b == IF hi < 0 THEN Len(v) ELSE Min(hi, Len(v))
                sub == IF a < b THEN SubSeq(v, a + 1, b) ELSE <<>>
                rs == [j \in 1..Len(sub) |-> ISlice(sub[j], d - 1, Tail(sl))]
            IN IF \E j \in 1..Len(sub) : ~rs[j].ok THEN [ok |-> FALSE, v |-> v, d |-> 0]
               ELSE [ok |-> TRUE, v |-> [j \in 1..Len(sub) |-> rs[j].v],
                     d |-> IF Len(sub) = 0 THEN 1 ELSE rs[1].d + 1]

\* MACHINE: BaseNode.slice_value - `smin==smax and smin is not None` -> element; `smin!=smax` -> slice(smin,smax);
\* both None -> untouched; then the remaining slices on the element, or on every element of the range
RECURSIVE MSlice(_, _, _)
MSlice(v, d, sl) ==
  IF sl = <<>> THEN [ok |-> TRUE, v |-> v, d |-> d]
  ELSE IF d = 0 THEN [ok |-> FALSE, v |-> v, d |-> 0]          \* indexing a 0-d array raises
  ELSE LET smin == sl[1][1]  smax == sl[1][2] IN
       IF smin = smax /\ smin >= 0
       THEN IF smin < Len(v) THEN MSlice(v[smin + 1], d - 1, Tail(sl)) ELSE [ok |-> FALSE, v |-> v, d |-> 0]
       ELSE LET a == IF smin < 0 THEN 0 ELSE Min(smin, Len(v))
                b == IF smax < 0 THEN Len(v) ELSE Min(smax, Len(v))
                sub == IF smin = smax THEN v ELSE IF a < b THEN SubSeq(v, a + 1, b) ELSE <<>>
                rs == [j \in 1..Len(sub) |-> MSlice(sub[j], d - 1, Tail(sl))]
            IN IF \E j \in 1..Len(sub) : ~rs[j].ok THEN [ok |-> FALSE, v |-> v, d |-> 0]
               ELSE [ok |-> TRUE, v |-> [j \in 1..Len(sub) |-> rs[j].v],
                     d |-> IF Len(sub) = 0 THEN 1 ELSE rs[1].d + 1]

-----------------------------------------------------------------------------
(* environments *)
S0 == [nodes |-> <<>>, st |-> "ok", tags |-> {}, unspec |-> FALSE, mayrej |-> FALSE]
Rej(S) == [S EXCEPT !.st = "rej"]
Tag(S, t) == [S EXCEPT !.tags = @ \cup t]
Unspec(S) == [S EXCEPT !.unspec = TRUE]

\* query kinds: "node" (exact path), "children" (path.*), "all" (*).  -> sequence of [nd, rel]
Select(nodes, qk, q) ==
  LET hit(n) == CASE qk = "all" -> TRUE [] qk = "children" -> StrictPrefix(q, n.path) [] OTHER -> n.path = q
      rel(n) == CASE qk = "all" -> n.path [] qk = "children" -> SubSeq(n.path, Len(q) + 1, Len(n.path))
                  [] OTHER -> <<Last(n.path)>>
      sel == SelectSeq(nodes, hit)
  IN [j \in 1..Len(sel) |-> [nd |-> sel[j], rel |-> rel(sel[j])]]

\* the value an element of an int array has as a scalar number
Scal(v, dtype, d0, d1) == IF Numeric(dtype) /\ d0 > 0 /\ d1 = 0 THEN Num(v) ELSE v

\* a string is a scalar node whose value has one axis (its characters); one character is again a string
VDepth(dtype, shape) == IF dtype = "str" THEN Len(shape) + 1 ELSE Len(shape)
ResShape(dtype, res) == IF dtype = "str" THEN <<>> ELSE ShapeD(res.v, res.d)
ResVal(dtype, d0, res) == IF dtype = "str" THEN (IF res.d = 0 THEN <<res.v>> ELSE res.v) ELSE Scal(res.v, dtype, d0, res.d)

-----------------------------------------------------------------------------
(*                                 IDEAL                                   *)
INode(path, dtype, shape, has, val, unit, const) ==
  [path |-> path, dtype |-> dtype, shape |-> shape, has |-> has, val |-> val, unit |-> unit, const |-> const]

IDefine(S, t) == [S EXCEPT !.nodes = Append(@, INode(t.path, t.dtype, t.shape, t.has, t.val, t.unit, t.const))]

ISet(S, j, val) == [S EXCEPT !.nodes[j].val = val, !.nodes[j].has = TRUE]

\* assignment of (val, shape) stated in unit u to node j: the last assignment wins, in the unit of the definition
IAssign(S, j, val, shape, u) ==
  LET n == S.nodes[j] IN
  IF n.const \/ shape # n.shape THEN Rej(S)
  ELSE IF ~Numeric(n.dtype) THEN (IF u # "" THEN Rej(S) ELSE ISet(S, j, val))
  ELSE IF u = "" \/ u = n.unit THEN ISet(S, j, val)
  ELSE IF n.unit = "" THEN Rej(S)                                  \* a node without unit takes no value stated in one
  ELSE IF UDim(u) # UDim(n.unit) THEN Rej(S)
  ELSE IF n.shape # <<>> THEN Unspec(ISet(S, j, val))              \* conversion of whole arrays: not decided here
  ELSE LET c == Conv(val, u, n.unit) IN
       IF n.dtype = "int" /\ c.e < 0 THEN Unspec(ISet(S, j, c)) ELSE ISet(S, j, c)

\* nodes a request sees: the local ones, or those of the remote source
IPool(S, snap, md, src) == IF src = "" THEN S.nodes ELSE IF md = "remote" THEN snap ELSE <<>>

IInject(S, snap, md, ln) ==
  LET sel == Select(IPool(S, snap, md, ln.src), ln.qk, ln.q) IN
  IF Len(sel) # 1 THEN Rej(S)                                        \* selects none or several
  ELSE LET r == sel[1].nd IN
       IF ~r.has THEN Unspec(Rej(S))                                 \* nothing to deliver yet
       ELSE LET res == ISlice(r.val, VDepth(r.dtype, r.shape), ln.sl)
                u == IF ln.unit # "" THEN ln.unit ELSE r.unit        \* the host's own unit, else the referenced one
            IN IF ~res.ok THEN Rej(S)
               ELSE LET shp == ResShape(r.dtype, res)
                        v == ResVal(r.dtype, Len(r.shape), res)
                    IN IF ln.form = "def"
                       THEN IF shp # ln.shape \/ Find(S.nodes, ln.host) # 0 THEN Unspec(Rej(S))
                            ELSE IF ~Numeric(ln.dtype) /\ u # "" THEN Rej(S)
                            ELSE [S EXCEPT !.nodes = Append(@, INode(ln.host, ln.dtype, ln.shape, TRUE, v, u, FALSE))]
                       ELSE IAssign(S, Find(S.nodes, ln.host), v, shp, u)

\* import: re-create the selected nodes below the host with unchanged value, type, unit, constraints
RECURSIVE IImpFold(_, _, _)
IImpFold(S, sel, host) ==
  IF sel = <<>> \/ S.st # "ok" THEN S
  ELSE LET n == sel[1].nd
           p == host \o sel[1].rel
           j == Find(S.nodes, p)
           S1 == IF j = 0 THEN [S EXCEPT !.nodes = Append(@, [n EXCEPT !.path = p])]
                 ELSE IF ~n.has \/ n.dtype # S.nodes[j].dtype THEN Unspec(Rej(S))
                 ELSE Unspec(IAssign(S, j, n.val, n.shape, n.unit))   \* the name exists already: reads as an assignment
       IN IImpFold(S1, Tail(sel), host)

IImport(S, snap, md, ln) ==
  LET sel == Select(IPool(S, snap, md, ln.src), ln.qk, ln.q) IN
  IF sel = <<>> THEN [S EXCEPT !.mayrej = TRUE]                      \* rejected, or nothing added
  ELSE IImpFold(S, sel, ln.host)

\* end of a parse: a declared node must have received a value
IFinal(S) == IF S.st = "ok" /\ \E j \in 1..Len(S.nodes) : ~S.nodes[j].has THEN Rej(S) ELSE S


-----------------------------------------------------------------------------
(*                                MACHINE                                  *)
(* node = the ideal fields (has/val = node.value, unit = node.units_raw) plus                        *)
(*   rhas/raw/rawd : node.value_raw (None for a declaration) and its number of axes; modify_value    *)
(*                   never updates it                                                                *)
(*   ref      : node.value_ref of the defining line (copies keep it)                                 *)
(*   lsl      : what the first cast_value left in node.value_slice (slice_value pops the first axis) *)
(*   decl     : node.defined (a declaration);  modified / sliced : history features used for tags    *)
NoRef == [src |-> "", qk |-> "", q |-> <<>>]
MNode(path, dtype, shape, has, val, unit, const, decl, rhas, raw, rawd, ref, lsl, sliced) ==
  [path |-> path, dtype |-> dtype, shape |-> shape, has |-> has, val |-> val, unit |-> unit, const |-> const,
   decl |-> decl, rhas |-> rhas, raw |-> raw, rawd |-> rawd, ref |-> ref, lsl |-> lsl,
   modified |-> FALSE, sliced |-> sliced]

\* cast_value checks value.shape[d] only for the axes the node declares (extra axes pass); a node without
\* dimension takes scalars only
DimOk(vshape, nshape) == IF nshape = <<>> THEN vshape = <<>>
                         ELSE Len(vshape) >= Len(nshape) /\ SubSeq(vshape, 1, Len(nshape)) = nshape
RawShape(dtype, raw, rawd) == IF dtype = "str" THEN <<>> ELSE ShapeD(raw, rawd)

MDefine(S, t) ==
  [S EXCEPT !.nodes = Append(@, MNode(t.path, t.dtype, t.shape, t.has, t.val, t.unit, t.const, ~t.has,
                                     t.has, t.val, VDepth(t.dtype, t.shape), NoRef, <<>>, FALSE))]

MStore(S, j, v) == [S EXCEPT !.nodes[j].val = v, !.nodes[j].has = TRUE, !.nodes[j].modified = TRUE]

\* the slice left over in node.value_slice cuts whatever the node casts next (and loses one more axis)
LeftCut(n, v, d) == LET res == MSlice(v, d, n.lsl) IN
                    [ok |-> res.ok /\ DimOk(ShapeD(res.v, res.d), n.shape), v |-> res.v]

\* target.modify_value(modifier): the modifier carries value_raw (rhas, raw with rawd axes) and units_raw u
MAssignRaw(S, j, rhas, raw0, rawd0, u) ==
  LET n    == S.nodes[j]
      \* cast_value(None) falls back to the target's own current value, which is then read in the modifier's unit
      raw  == IF rhas THEN raw0 ELSE n.val
      rawd == IF rhas THEN rawd0 ELSE VDepth(n.dtype, n.shape)
      cut  == IF n.lsl # <<>> THEN LeftCut(n, raw, rawd) ELSE [ok |-> TRUE, v |-> raw]
      S1   == IF n.lsl # <<>> THEN Tag([S EXCEPT !.nodes[j].lsl = Tail(@)], {"slice_multi.host_reused"}) ELSE S
  IN
  IF n.const THEN Rej(S)                                            \* checked in DIP.parse before modify_value
  ELSE IF ~rhas /\ ~n.has THEN Rej(S)                               \* None.copy()
  ELSE IF ~cut.ok THEN Rej(S1)                                      \* IndexError / dimension check after the leftover slice
  ELSE IF n.lsl = <<>> /\ ~DimOk(RawShape(n.dtype, raw, rawd), n.shape) THEN Rej(S)   \* dimension check / dtype('[..]') raises
  ELSE IF ~Numeric(n.dtype) THEN MStore(S1, j, cut.v)
  ELSE IF n.unit = "" /\ u # "" THEN Rej(S1)                        \* "has no units and cannot be assigned a value in"
  ELSE IF u = "" \/ u = n.unit THEN MStore(S1, j, cut.v)            \* NumberType.convert: nothing to do
  ELSE IF n.shape # <<>> THEN Rej(S1)                               \* float(array) raises in NumberType.convert
  ELSE IF UDim(u) # UDim(n.unit) THEN Rej(S1)                       \* "Unsupported conversion between units"
  ELSE MStore(S1, j, Conv(cut.v, u, n.unit))

MModify(S, j, val, dtype, shape, u) == MAssignRaw(S, j, TRUE, val, VDepth(dtype, shape), u)

\* Environment.request: routing, then NodeList.query (copies, names re-rooted) -> [ok, sel]
MRequest(S, snap, md, src, qk, q) ==
  IF src # "" THEN (IF md = "remote" THEN [ok |-> TRUE, sel |-> Select(snap, qk, q)] ELSE [ok |-> FALSE, sel |-> <<>>])
  ELSE IF S.nodes = <<>> THEN [ok |-> FALSE, sel |-> <<>>]          \* "Local nodes are not available"
  ELSE [ok |-> TRUE, sel |-> Select(S.nodes, qk, q)]

\* why the raw text and the current value of the referenced node differ
RawTags(r) == (IF ~r.rhas /\ r.has THEN {"inject.source_declared"} ELSE {})
         \cup (IF r.rhas /\ r.has /\ ToString(r.raw) # ToString(r.val)
               THEN (IF r.modified THEN {"inject.source_modified_before"} ELSE {})
                    \cup (IF r.sliced THEN {"inject.source_defined_by_slice"} ELSE {})
               ELSE {})

\* BaseNode.inject_value + set_value/cast_value (definition) or modify_value (modification)
MInject(S, snap, md, ln) ==
  LET rq == MRequest(S, snap, md, ln.src, ln.qk, ln.q) IN
  IF ~rq.ok \/ Len(rq.sel) # 1 THEN Rej(S)                          \* request(ref, count=1)
  ELSE
  LET r0  == rq.sel[1].nd
      \* repaired (BaseNode._current_raw): the text of the value the referenced node has now; the definition
      \* text only while the node has no value
      r   == IF "inject_raw" \in Devs \/ ~r0.has THEN r0
             ELSE [r0 EXCEPT !.rhas = TRUE, !.raw = r0.val, !.rawd = VDepth(r0.dtype, r0.shape)]
      S1  == Tag(S, RawTags(r))
      u   == IF ln.unit # "" THEN ln.unit ELSE r.unit               \* if not node.units_raw: take nodes[0].units_raw
      ref == [src |-> ln.src, qk |-> ln.qk, q |-> ln.q]
      \* repaired: cast_value clears value_slice once the injected value is cut
      lsl == IF ln.sl = <<>> \/ "slice_leftover" \notin Devs THEN <<>> ELSE Tail(ln.sl)
  IN
  IF ln.form = "def"
  THEN IF Find(S.nodes, ln.host) # 0 THEN Rej(S1)                   \* (not generated)
       ELSE IF ~Numeric(ln.dtype) /\ u # "" THEN Rej(S1)            \* "datatype does not support units"
       ELSE IF ~r.rhas                                              \* value_raw None: set_value() leaves the value None
       THEN [S1 EXCEPT !.nodes = Append(@, MNode(ln.host, ln.dtype, ln.shape, FALSE, 0, u, FALSE, FALSE,
                                                 FALSE, 0, 0, ref, lsl, ln.sl # <<>>))]
       ELSE IF ln.sl # <<>> /\ r.dtype = "str" /\ "slice_string" \in Devs
            THEN Tag(Rej(S1), {"inject.slice_string"})               \* json.loads(text) raises
            \* repaired: a scalar str host slices the text as a Python string (one axis of characters)
       ELSE LET res == MSlice(r.raw, r.rawd, ln.sl) IN
            IF ~res.ok THEN Rej(S1)
            ELSE IF ~DimOk(ResShape(r.dtype, res), ln.shape) THEN Rej(S1)  \* dimension check / "Array value set to scalar node"
            ELSE [S1 EXCEPT !.nodes = Append(@, MNode(ln.host, ln.dtype, ln.shape, TRUE,
                                                      ResVal(r.dtype, r.rawd, res), u, FALSE, FALSE,
                                                      TRUE, r.raw, r.rawd, ref, lsl, ln.sl # <<>>))]
  ELSE \* a modification `host = {ref}[slice] unit`
       IF ~r.rhas THEN MAssignRaw(S1, Find(S1.nodes, ln.host), FALSE, 0, 0, u)  \* set_value() skipped on the mod node
       ELSE IF ln.sl # <<>> /\ "slice_in_mod" \notin Devs            \* (repaired: cut, then assign)
            THEN LET res == MSlice(r.raw, r.rawd, ln.sl) IN
                 IF ~res.ok THEN Rej(S1)
                 ELSE MAssignRaw(S1, Find(S1.nodes, ln.host), TRUE, ResVal(r.dtype, r.rawd, res),
                                 IF r.dtype = "str" THEN 1 ELSE res.d, u)
       ELSE IF ln.sl # <<>> THEN Tag(Rej(S1), {"inject.slice_host_is_modification"})
            \* the mod node casts its own slice with dtype str and raises unless one element is left; the target
            \* then casts the WHOLE raw text (its own value_slice, not the modifier's, is looked at)
       ELSE MAssignRaw(S1, Find(S1.nodes, ln.host), TRUE, r.raw, r.rawd, u)

\* ImportNode.parse, then each re-queued copy goes through the loop of DIP.parse
RECURSIVE MImpFold(_, _, _, _, _)
MImpFold(S, snap, md, sel, host) ==
  IF sel = <<>> \/ S.st # "ok" THEN S
  ELSE
  LET c  == sel[1].nd
      p  == host \o sel[1].rel                                      \* name.split('.{') / hierarchy parents, + node.name
      \* node.inject_value(target): the copy still carries the value_ref of its defining line
      \* (repaired: ImportNode.parse clears value_ref of the copies)
      rq == IF c.ref.qk = "" \/ "import_reinject" \notin Devs THEN [ok |-> TRUE, sel |-> <<1>>]
            ELSE MRequest(S, snap, md, c.ref.src, c.ref.qk, c.ref.q)
      reval == "import_declared" \in Devs \/ ~c.has              \* repaired: set_value() only for copies without value
      j  == Find(S.nodes, p)
  IN
  IF ~rq.ok \/ Len(rq.sel) # 1 THEN Tag(Rej(S), {"import.node_defined_by_injection"})
  ELSE IF reval /\ c.lsl # <<>> /\ c.rhas /\ ~LeftCut(c, c.val, VDepth(c.dtype, c.shape)).ok
       THEN Tag(Rej(S), {"slice_multi.host_reused"})             \* set_value() -> cast_value() slices the value again
  ELSE IF j # 0
       THEN IF c.dtype # S.nodes[j].dtype THEN Rej(S)
            ELSE MImpFold(Tag(MAssignRaw(S, j, c.rhas, c.raw, c.rawd, c.unit), {"import.target_exists"}),
                          snap, md, Tail(sel), host)
       ELSE LET c1 == IF ~reval THEN [c EXCEPT !.path = p, !.ref = IF "import_reinject" \in Devs THEN c.ref ELSE NoRef]
                      ELSE IF c.rhas THEN [c EXCEPT !.path = p,         \* set_value(): cast_value() of the CURRENT value
                                                 !.val = IF c.lsl # <<>> THEN LeftCut(c, c.val, VDepth(c.dtype, c.shape)).v ELSE c.val,
                                                 !.lsl = IF c.lsl # <<>> THEN Tail(c.lsl) ELSE <<>>]
                      ELSE [c EXCEPT !.path = p, !.has = FALSE]      \* value_raw None -> value None
                S1 == IF reval /\ ~c.rhas /\ c.has THEN Tag(S, {"import.source_declared"}) ELSE S
            IN MImpFold([S1 EXCEPT !.nodes = Append(@, c1)], snap, md, Tail(sel), host)

MImport(S, snap, md, ln) ==
  LET rq == MRequest(S, snap, md, ln.src, ln.qk, ln.q) IN
  IF ~rq.ok THEN Rej(S)
  ELSE IF rq.sel = <<>> /\ "import_empty" \notin Devs THEN S       \* repaired: the empty list is prepended, nothing added
  ELSE IF rq.sel = <<>>
       \* nothing is re-queued: the import node itself reaches set_value() and is appended with value None
       THEN Tag([S EXCEPT !.nodes = Append(@, MNode(ln.host \o <<"{import}">>, "import", <<>>, FALSE, 0, "", FALSE, FALSE,
                                                    FALSE, 0, 0, NoRef, <<>>, FALSE))], {"import.selects_none"})
  ELSE MImpFold(S, snap, md, rq.sel, ln.host)

\* end of DIP.parse: "Node value must be defined" for declarations; a value None elsewhere survives and
\* makes Environment.data() raise ("unreadable")
MFinal(S) ==
  IF S.st # "ok" THEN S
  ELSE IF \E j \in 1..Len(S.nodes) : ~S.nodes[j].has /\ S.nodes[j].decl THEN Rej(S)
  ELSE IF \E j \in 1..Len(S.nodes) : ~S.nodes[j].has THEN [S EXCEPT !.st = "unreadable"]
  ELSE S

-----------------------------------------------------------------------------
(*                         PROGRAM GENERATOR                               *)
Paths(nodes) == {nodes[j].path : j \in 1..Len(nodes)}
SeqSet(s) == {s[j] : j \in 1..Len(s)}
MApply(S, R) == IF S.st # "ok" THEN S ELSE R
Line(ln) == prog' = Append(prog, ln)

UnitLine == [k |-> "unit", name |-> "hm", val |-> 100, unit |-> "m"]
Init == /\ prog = (IF CustomUnit THEN <<UnitLine>> ELSE <<>>) /\ mode = "local" /\ iS = S0 /\ mS = S0 /\ iSnap = <<>> /\ mSnap = <<>>
        /\ cnt = [def |-> 0, mod |-> 0, ref |-> 0, late |-> 0, sw |-> 0, cmp |-> 0, fresh |-> {}, srcs |-> {}] /\ lastT = 0

Going == iS.st = "ok"

\* tree: templates in menu order, distinct paths
Define(i) ==
  /\ Going /\ cnt.sw = 0 /\ cnt.mod = 0 /\ cnt.ref = 0 /\ cnt.def < MaxDef /\ i > lastT
  /\ Templates[i].path \notin Paths(iS.nodes)
  /\ iS' = IDefine(iS, Templates[i]) /\ mS' = MApply(mS, MDefine(mS, Templates[i]))
  /\ Line([k |-> "def", t |-> Templates[i]])
  /\ cnt' = [cnt EXCEPT !.def = @ + 1] /\ lastT' = i
  /\ UNCHANGED <<mode, iSnap, mSnap>>

\* modification of node j by literal m: before any reference, or (late) after one
Modify(j, m) ==
  /\ Going /\ j \in 1..Len(iS.nodes)
  /\ LET n == iS.nodes[j]  lit == ModMenu[m] IN
     /\ lit.dtype = n.dtype /\ lit.shape = n.shape
     /\ \/ cnt.ref = 0 /\ cnt.mod < MaxMod /\ cnt' = [cnt EXCEPT !.mod = @ + 1]
        \/ /\ cnt.ref >= 1 /\ cnt.late < MaxLate /\ n.path \in cnt.fresh \cup cnt.srcs   \* later: source or host
           /\ cnt' = [cnt EXCEPT !.late = @ + 1, !.fresh = @ \cup {n.path}]
     /\ iS' = IAssign(iS, j, lit.val, lit.shape, lit.unit)
     /\ mS' = MApply(mS, IF Find(mS.nodes, n.path) = 0 THEN Rej(mS)       \* "Modifying undefined node"
                         ELSE MModify(mS, Find(mS.nodes, n.path), lit.val, lit.dtype, lit.shape, lit.unit))
     /\ Line([k |-> "mod", path |-> n.path, dtype |-> lit.dtype, shape |-> lit.shape, val |-> lit.val, unit |-> lit.unit])
  /\ UNCHANGED <<mode, iSnap, mSnap, lastT>>

\* the text so far becomes the base environment of a second parse, or the file of the remote source s1
Switch(md) ==
  /\ Going /\ cnt.sw = 0 /\ cnt.def >= 1 /\ cnt.late = 0 /\ cnt.ref < MaxRef
  /\ IFinal(iS).st = "ok"
  /\ mode' = md /\ cnt' = [cnt EXCEPT !.sw = 1]
  /\ iSnap' = iS.nodes /\ iS' = IF md = "remote" THEN [iS EXCEPT !.nodes = <<>>] ELSE iS
  /\ LET mf == MFinal(mS) IN                                       \* the first parse ends here
     /\ mSnap' = mf.nodes
     /\ mS' = IF mf.st # "ok" THEN Rej(mf)                         \* no base environment / $source fails
              ELSE IF md = "remote" THEN [mf EXCEPT !.nodes = <<>>] ELSE mf
  \* custom units of a remote source are not visible in the importing text: it defines its own
  /\ prog' = prog \o <<[k |-> "switch", mode |-> md]>> \o (IF CustomUnit /\ md = "remote" THEN <<UnitLine>> ELSE <<>>)
  /\ UNCHANGED lastT

Srcs == IF mode = "remote" THEN {"s1", ""} ELSE {""}
Pool(src) == IPool(iS, iSnap, mode, src)
Prefixes(p) == {SubSeq(p, 1, k) : k \in 1..(Len(p) - 1)}
Queries(src) ==
  LET ps == Paths(Pool(src)) IN
       {[qk |-> "node", q |-> p] : p \in ps \cup {<<"zz">>}}
  \cup {[qk |-> "children", q |-> p] : p \in (UNION {Prefixes(x) : x \in ps}) \cup {<<"zz">>}}
  \cup {[qk |-> "all", q |-> <<>>]}

\* a second reference must touch something the first one (or a late modification) produced
Narrow(src, qy) ==
  cnt.ref = 0 \/ (src = "" /\ \E x \in SeqSet(Select(Pool(src), qy.qk, qy.q)) : x.nd.path \in cnt.fresh)

RefStep(iS1, mS1, ln) ==
  /\ iS' = iS1 /\ mS' = mS1 /\ Line(ln)
  /\ cnt' = [cnt EXCEPT !.ref = @ + 1, !.fresh = @ \cup (Paths(iS1.nodes) \ Paths(iS.nodes))
                                                   \cup (IF ln.k = "inj" /\ ln.form = "mod" THEN {ln.host} ELSE {}),
                         !.srcs = @ \cup (IF ln.src = "" THEN {x.nd.path : x \in SeqSet(Select(iS.nodes, ln.qk, ln.q))} ELSE {})]
  /\ UNCHANGED <<mode, iSnap, mSnap, lastT>>

SliceKey(n) == IF n.dtype = "str" THEN "str" ELSE "num"
SlicesFor(n) == {<<>>} \cup {SliceMenu[k].sl : k \in {x \in 1..Len(SliceMenu) :
                               SliceMenu[x].key = SliceKey(n) /\ SliceMenu[x].shape = n.shape}}
FreshHost == LET free == {k \in 1..Len(InjHosts) : InjHosts[k] \notin Paths(iS.nodes)} IN
             IF free = {} THEN <<"zzhost">> ELSE InjHosts[CHOOSE k \in free : \A x \in free : k <= x]
HostDtypes(dt) == IF dt = "int" THEN {"int", "float"} ELSE {dt}
UnitsFor(dt) == IF Numeric(dt) THEN {""} \cup HostUnits ELSE {""}

InjLine(form, host, dtype, shape, src, qy, sl, u) ==
  [k |-> "inj", form |-> form, host |-> host, dtype |-> dtype, shape |-> shape, src |-> src,
   qk |-> qy.qk, q |-> qy.q, sl |-> sl, unit |-> u]

Inject ==
  /\ Going /\ cnt.ref < MaxRef /\ "inj" \in RefKinds
  /\ \E src \in Srcs : \E qy \in Queries(src) :
     /\ Narrow(src, qy)
     /\ LET sel == Select(Pool(src), qy.qk, qy.q) IN
        IF Len(sel) # 1 \/ ~sel[1].nd.has
        THEN \* a request that selects none / several / a node without value: one plain host line
             LET ln == InjLine("def", FreshHost, "float", <<>>, src, qy, <<>>, "") IN
             RefStep(IInject(iS, iSnap, mode, ln), MApply(mS, MInject(mS, mSnap, mode, ln)), ln)
        ELSE LET r == sel[1].nd IN
             \E sl \in SlicesFor(r) :
             LET res == ISlice(r.val, VDepth(r.dtype, r.shape), sl)
                 shp == ResShape(r.dtype, res) IN
             /\ res.ok
             /\ \/ \E dt \in HostDtypes(r.dtype) : \E u \in UnitsFor(dt) :          \* an injecting definition
                   LET ln == InjLine("def", FreshHost, dt, shp, src, qy, sl, u) IN
                   RefStep(IInject(iS, iSnap, mode, ln), MApply(mS, MInject(mS, mSnap, mode, ln)), ln)
                \/ \E j \in 1..Len(iS.nodes) : \E u \in UnitsFor(r.dtype) :           \* an injecting modification
                   LET h == iS.nodes[j]
                       ln == InjLine("mod", h.path, h.dtype, h.shape, src, qy, sl, u) IN
                   /\ h.dtype \in HostDtypes(r.dtype) /\ h.shape = shp
                   /\ RefStep(IInject(iS, iSnap, mode, ln),
                              MApply(mS, IF Find(mS.nodes, h.path) = 0 THEN Rej(mS) ELSE MInject(mS, mSnap, mode, ln)), ln)

Import ==
  /\ Going /\ cnt.ref < MaxRef /\ "imp" \in RefKinds
  /\ \E src \in Srcs : \E qy \in Queries(src) : \E hk \in 1..Len(ImpHosts) :
     /\ Narrow(src, qy)
     /\ LET ln == [k |-> "imp", host |-> ImpHosts[hk].host, form |-> ImpHosts[hk].form, src |-> src,
                   qk |-> qy.qk, q |-> qy.q] IN
        RefStep(IImport(iS, iSnap, mode, ln), MApply(mS, MImport(mS, mSnap, mode, ln)), ln)

\* a logical expression that compares two referenced numbers: `host bool = ("{?l} op {?r}")`.
\* IDEAL: the host gets the truth value (right operand read in the unit of the left one, exactly); the
\* operands are only READ.  MACHINE: LogicalSolver requests copies (NodeList.query -> node.copy()) and
\* NumberType._prepare converts the left COPY in place - nothing else changes.
RECURSIVE Pow10(_)
Pow10(d) == IF d = 0 THEN 1 ELSE 10 * Pow10(d - 1)
CmpVal(op, l, r) ==
  LET d == (l.val.e + UExp(l.unit)) - (r.val.e + UExp(r.unit))
      a == IF d >= 0 THEN l.val.n * Pow10(d) ELSE l.val.n
      b == IF d >= 0 THEN r.val.n ELSE r.val.n * Pow10(0 - d)
  IN IF op = ">" THEN a > b ELSE a = b
CmpDecided(l, r) == /\ l.dtype = r.dtype /\ l.unit # "" /\ r.unit # ""
                    /\ (l.val.e + UExp(l.unit)) - (r.val.e + UExp(r.unit)) \in -6..6
Compare ==
  /\ Going /\ cnt.cmp < MaxCmp /\ cnt.late = 0
  /\ \E i, j \in 1..Len(iS.nodes) : \E op \in {">", "=="} :
     LET l == iS.nodes[i]  r == iS.nodes[j]
         ln == [k |-> "cmp", host |-> <<"t" \o ToString(cnt.cmp + 1)>>, l |-> l.path, r |-> r.path, op |-> op] IN
     /\ i # j /\ l.has /\ r.has /\ Numeric(l.dtype) /\ Numeric(r.dtype) /\ l.shape = <<>> /\ r.shape = <<>>
     /\ ln.host \notin Paths(iS.nodes)
     /\ LET rej == UDim(l.unit) # UDim(r.unit) /\ l.unit # "" /\ r.unit # ""      \* "Unsupported conversion between units"
            v == IF rej \/ ~CmpDecided(l, r) THEN FALSE ELSE CmpVal(op, l, r)
            iS1 == IF rej THEN Rej(iS)
                   ELSE [(IF CmpDecided(l, r) THEN iS ELSE Unspec(iS)) EXCEPT
                         !.nodes = Append(@, INode(ln.host, "bool", <<>>, TRUE, v, "", FALSE))]
            mS1 == IF rej \/ Find(mS.nodes, l.path) = 0 \/ Find(mS.nodes, r.path) = 0 THEN Rej(mS)
                   ELSE [mS EXCEPT !.nodes = Append(@, MNode(ln.host, "bool", <<>>, TRUE, v, "", FALSE, FALSE,
                                                             TRUE, v, 0, NoRef, <<>>, FALSE))]
        IN /\ iS' = iS1 /\ mS' = MApply(mS, mS1) /\ Line(ln)
           /\ cnt' = [cnt EXCEPT !.cmp = @ + 1, !.srcs = @ \cup {l.path, r.path}]
  /\ UNCHANGED <<mode, iSnap, mSnap, lastT>>

Next == \/ \E i \in 1..Len(Templates) : Define(i)
        \/ \E j \in 1..MaxDef + 8 : \E m \in 1..Len(ModMenu) : Modify(j, m)
        \/ \E md \in Modes : Switch(md)
        \/ Inject \/ Import \/ Compare

Spec == Init /\ [][Next]_vars

-----------------------------------------------------------------------------
(*                      OBSERVATIONS, INVARIANTS, RECORDS                  *)
Data(nodes) == [j \in 1..Len(nodes) |->
                 [path |-> nodes[j].path, dtype |-> nodes[j].dtype, shape |-> nodes[j].shape, has |-> nodes[j].has,
                  val |-> IF nodes[j].has THEN nodes[j].val ELSE 0, unit |-> nodes[j].unit, const |-> nodes[j].const]]

IEnd == IFinal(iS)
MEnd == MFinal(mS)
\* the base environment as the machine leaves it: the second parse worked on a copy - or on the object itself
MBaseNow == IF CopyOnParse THEN mSnap ELSE MEnd.nodes

Obs(S) == IF S.st = "ok" THEN ToString(<<"ok", Data(S.nodes)>>) ELSE S.st
Agree == Obs(IEnd) = Obs(MEnd) \/ (IEnd.mayrej /\ MEnd.st = "rej")

\* C17, last sentence: parsing on top of an environment (or importing from a remote source) leaves it unchanged
BaseUnchanged == (mode = "base" /\ mS.st = "ok") => ToString(Data(MBaseNow)) = ToString(Data(mSnap))
\* every disagreement of the transcription with the ideal is one of the named deviations
Explained == (~Agree /\ ~IEnd.unspec) => MEnd.tags # {}

Kinds == {prog[j].k : j \in 1..Len(prog)} \ {"def", "mod", "switch", "unit", "cmp"}
Complete == Len(prog) > 0 /\ prog[Len(prog)].k \notin {"switch", "unit"}
            /\ (cnt.ref >= 1 \/ (mode = "base" /\ prog[Len(prog)].k = "mod"))

Record == [mode |-> mode, prog |-> prog,
           ideal |-> [st |-> IEnd.st, data |-> IF IEnd.st = "ok" THEN Data(IEnd.nodes) ELSE <<>>,
                      mayrej |-> IEnd.mayrej, unspec |-> IEnd.unspec],
           mach |-> [st |-> MEnd.st, data |-> IF MEnd.st = "ok" THEN Data(MEnd.nodes) ELSE <<>>],
           agree |-> Agree,
           snap |-> Data(iSnap),                                  \* base environment / remote source, before = after
           tags |-> MEnd.tags \cup {IF x = "inj" THEN "inject" ELSE "import" : x \in Kinds} \cup {mode}]

EmitInv == (Emit /\ Complete) => PrintT(ToJson(Record))
=============================================================================
