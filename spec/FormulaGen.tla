----------------------------- MODULE FormulaGen -----------------------------
(***************************************************************************)
(* C10 at design level, and the scenario source for replay.                *)
(*                                                                         *)
(* Machine side: what SubstanceSolver does, at token level.                *)
(*   Pre(tree)   the token string the regular-expression preprocessor      *)
(*               hands to the expression solver: the fully explicit form.  *)
(*               The rewriting itself is not transcribed (a regexp         *)
(*               rewriter has no useful TLA+ model); its one known         *)
(*               deviation is a named switch:                              *)
(*                 blank_dropped_after_group_mult   after ")n" the blank   *)
(*                 in front of a following " + " is lost, so the solver    *)
(*                 sees the text "n+ ..." as one atom                      *)
(*   M           spec/SolverMachine.tla (the transcription of solver.py,   *)
(*               tokens.py, operators.py shared with C01/C02) instantiated *)
(*               with the operator table {par, " * ", " + "} and the steps *)
(*               par -> mul -> add that SubstanceSolver.solve configures   *)
(*   EvalTree    Substance.__add__ / __mul__ on bags                       *)
(* Refines: for every tree of the documented grammar the machine yields    *)
(* the bag Expand(tree) of the ideal.                                      *)
(*                                                                         *)
(* Source = "enum": every tree with <= MaxNodes nodes (species occurrences *)
(*   plus groups) and nesting <= MaxDepth is built by actions (species     *)
(*   named in order of first use); Notation = "full" also chooses every    *)
(*   multiplier/separator notation, Notation = "styles" decorates each     *)
(*   tree with the fixed notation patterns in Styles.  The multiplier      *)
(*   VALUES are re-drawn by the harness (file mode), like the species.     *)
(* Source = "file": scenarios drawn by the harness (token strings with a   *)
(*   binding of the variables to real species, species to tabulate,        *)
(*   a + b and a * n pairs) are read from IOEnv.FORMULA_IN; TLC parses,    *)
(*   classifies and computes every expectation.                            *)
(***************************************************************************)
EXTENDS Formula, Json, IOUtils

CONSTANTS VarSeq,       \* the variables in order of first use (Vars is its range)
          MaxNodes, MaxDepth, Notation, Styles, Emit, Source,
          Deviations,   \* named deviations of the pinned code that the machine reproduces
          KnownDevs     \* feature tags of the open known findings: excluded from Refines

ASSUME Vars = {VarSeq[i] : i \in 1..Len(VarSeq)}

M == INSTANCE SolverMachine WITH
        Lenient  <- FALSE, PyEq <- FALSE,
        Atoms    <- Vars \cup NumToks,
        BadAtoms <- {},
        OpTable  <- {OPEN, TIMES, PLUS},
        Steps    <- << [ops |-> {OPEN},  otype |-> "ARGS"],
                       [ops |-> {TIMES}, otype |-> "BINARY"],
                       [ops |-> {PLUS},  otype |-> "BINARY"] >>

---------------------------------------------------------------------------
\* the preprocessor's output
DevSite(prev, next) == prev.k = "g" /\ prev.m > 1 /\ prev.mn = "i" /\ (next.k = "g" \/ next.sep = "p")
RECURSIVE Pre(_), PreFrom(_, _)
PreFrom(items, i) ==
  IF i > Len(items) THEN <<>>
  ELSE LET it == items[i]
           sep == IF i = 1 THEN <<>>
                  ELSE IF "blank_dropped_after_group_mult" \in Deviations /\ DevSite(items[i - 1], it) THEN <<"+">>
                  ELSE <<PLUS>>
       IN  sep \o (IF it.k = "s" THEN <<it.v>> ELSE <<OPEN>> \o Pre(it.items) \o <<CLOSE>>)
               \o (IF it.m = 1 THEN <<>> ELSE <<TIMES, NumTok(it.m)>>)
               \o PreFrom(items, i + 1)
Pre(items) == PreFrom(items, 1)

\* Substance arithmetic on the Polish tree the solver machine returns
EBad == [ok |-> FALSE, kind |-> "", bag |-> BZero, num |-> 0, rest |-> <<>>]
ESub(b, r) == [ok |-> TRUE, kind |-> "sub", bag |-> b, num |-> 0, rest |-> r]
ENum(n, r) == [ok |-> TRUE, kind |-> "num", bag |-> BZero, num |-> n, rest |-> r]
RECURSIVE ET(_)
ET(s) ==
  IF s = <<>> THEN EBad
  ELSE IF Head(s) \in {PLUS, TIMES} THEN
       LET a == ET(Tail(s)) IN
       IF ~a.ok THEN EBad ELSE
       LET b == ET(a.rest) IN
       IF ~b.ok THEN EBad
       ELSE IF Head(s) = TIMES THEN
            (IF a.kind = "sub" /\ b.kind = "num" THEN ESub(BScale(b.num, a.bag), b.rest)     \* Substance.__mul__
             ELSE IF a.kind = "num" /\ b.kind = "num" THEN ENum(a.num * b.num, b.rest)
             ELSE EBad)                                                                       \* float * Substance: TypeError
       ELSE (IF a.kind = "sub" /\ b.kind = "sub" THEN ESub(BAdd(a.bag, b.bag), b.rest)       \* Substance.__add__
             ELSE IF a.kind = "num" /\ b.kind = "num" THEN ENum(a.num + b.num, b.rest)
             ELSE EBad)
  ELSE IF Head(s) \in Vars THEN ESub(BUnit(Head(s)), Tail(s))
  ELSE IF Head(s) \in NumToks THEN ENum(NumVal(Head(s)), Tail(s))
  ELSE EBad

MErr == [err |-> TRUE, bag |-> BZero]
Mach(ast) ==
  LET o == M!Outcome(M!SolveFresh(Pre(ast)))
  IN  IF o = M!MERR \/ o = <<"#none">> \/ o = <<"#py">> \/ o = <<"#item">> THEN MErr
      ELSE LET e == ET(o) IN IF e.ok /\ e.kind = "sub" /\ e.rest = <<>> THEN [err |-> FALSE, bag |-> e.bag] ELSE MErr

DevTags(ast) == Features(ast) \cap {"group_mult_then_group", "group_mult_then_plus"}
Class(ast) == IF Unspecified(ast) THEN "unspecified" ELSE "wellformed"
MachineOK(ast) == Class(ast) = "wellformed" =>
                     \/ Mach(ast) = [err |-> FALSE, bag |-> Expand(ast)]
                     \/ DevTags(ast) \cap KnownDevs # {}

---------------------------------------------------------------------------
\* notation patterns (Notation = "styles")
MnOf(style, d, i, m) ==
  IF m = 1 THEN "-"
  ELSE CASE style = "explicit" -> "e"
         [] style = "mixA" -> IF (i + d) % 2 = 0 THEN "e" ELSE "i"
         [] style = "mixB" -> IF (i + d) % 2 = 1 THEN "e" ELSE "i"
         [] OTHER -> "i"
SepOf(style, d, i, prevExplicit) ==
  IF i = 1 THEN "-"
  ELSE IF prevExplicit THEN "p"                    \* keep the mixed patterns inside the specified language
  ELSE CASE style = "implicit" -> "t"
         [] style = "blank"    -> "b"
         [] style = "explicit" -> "p"
         [] style = "mixA"     -> IF i % 2 = 0 THEN "p" ELSE "b"
         [] style = "mixB"     -> IF i % 3 = 0 THEN "p" ELSE IF (i + d) % 2 = 0 THEN "t" ELSE "b"
RECURSIVE Deco(_, _, _)
Deco(items, style, d) ==
  [i \in 1..Len(items) |->
     LET it == items[i]
         mn == MnOf(style, d, i, it.m)
         pe == i > 1 /\ MnOf(style, d, i - 1, items[i - 1].m) = "e"
     IN  [it EXCEPT !.mn = mn, !.sep = SepOf(style, d, i, pe),
                    !.items = IF it.k = "g" THEN Deco(it.items, style, d + 1) ELSE <<>>]]

---------------------------------------------------------------------------
\* scenarios read from the harness' file
FileItems == IF Source = "file" THEN JsonDeserialize(IOEnv.FORMULA_IN) ELSE <<>>
NFile  == Len(FileItems)
Stride == 64

VARIABLES fr,     \* enum: stack of sibling lists under construction (fr[1] is the formula)
          ns,     \* enum: nodes (species occurrences and groups) so far
          nv,     \* enum: distinct variables used so far
          idx     \* file: index of the current item

Top == fr[Len(fr)]
SepChoices(frame) == IF frame = <<>> THEN {"-"} ELSE IF Notation = "full" THEN {"t", "b", "p"} ELSE {"t"}
MChoices == {<<1, "-">>} \cup {<<m, mn>> : m \in Mults, mn \in (IF Notation = "full" THEN {"i", "e"} ELSE {"i"})}
MinI(a, b) == IF a < b THEN a ELSE b

AddSp == /\ ns < MaxNodes
         /\ \E j \in 1..MinI(nv + 1, Len(VarSeq)), mm \in MChoices, sep \in SepChoices(Top) :
               /\ fr' = [fr EXCEPT ![Len(fr)] = Append(@, Sp(VarSeq[j], mm[1], mm[2], sep))]
               /\ nv' = IF j > nv THEN j ELSE nv
         /\ ns' = ns + 1 /\ UNCHANGED idx
OpenG == /\ ns + 2 <= MaxNodes /\ Len(fr) <= MaxDepth          \* the group and at least one species in it
         /\ fr' = Append(fr, <<>>) /\ ns' = ns + 1 /\ UNCHANGED <<nv, idx>>
CloseG == /\ Len(fr) > 1 /\ Top # <<>>
          /\ \E mm \in MChoices, sep \in SepChoices(fr[Len(fr) - 1]) :
                fr' = SubSeq(fr, 1, Len(fr) - 2) \o <<Append(fr[Len(fr) - 1], Gr(Top, mm[1], mm[2], sep))>>
          /\ UNCHANGED <<ns, nv, idx>>

Init == IF Source = "enum" THEN fr = <<<<>>>> /\ ns = 0 /\ nv = 0 /\ idx = 0
        ELSE fr = <<>> /\ ns = 0 /\ nv = 0 /\ idx \in 1..MinI(NFile, Stride)
Next == IF Source = "enum" THEN AddSp \/ OpenG \/ CloseG
        ELSE idx + Stride <= NFile /\ idx' = idx + Stride /\ UNCHANGED <<fr, ns, nv>>

---------------------------------------------------------------------------
\* enum: one check + one record per decorated tree
EnumRec(ast, style) == [toks |-> PrintAst(ast), cls |-> Class(ast), tags |-> Features(ast), style |-> style,
                        merr |-> Mach(ast).err]
CheckTree(ast, style) == /\ Lemmas(ast)
                         /\ MachineOK(ast)
                         /\ Emit => PrintT(ToJson(EnumRec(ast, style)))
EnumOK == (Len(fr) = 1 /\ fr[1] # <<>>) =>
             IF Notation = "full" THEN CheckTree(fr[1], "asis")
             ELSE \A st \in Styles : CheckTree(Deco(fr[1], st, 0), st)

---------------------------------------------------------------------------
\* file: expectations for one harness-drawn item
QOf(c) == <<c, 1>>
SpeciesRec(it) ==
  [id |-> it.id, kind |-> "species", key |-> it.key,
   cls |-> IF ~SpValid(it.sp) THEN "invalid" ELSE IF SpUnspecified(it.sp, it.natural) THEN "unspecified:abundance" ELSE "wellformed",
   tags |-> IF SpValid(it.sp) THEN SpFeatures(it.sp, it.natural) ELSE {},
   data |-> IF SpValid(it.sp) /\ ~SpUnspecified(it.sp, it.natural) THEN SpData(it.sp, it.natural) ELSE <<>>,
   \* Element(text, natural) observed directly
   obl  |-> IF SpValid(it.sp) /\ ~SpUnspecified(it.sp, it.natural)
            THEN LET D == SpData(it.sp, it.natural)
                 IN  << Exact("Z", Obs("E.Z"), Q(D.Z, 1)), Exact("e", Obs("E.e"), Q(D.e, 1)),
                        Exact("N", Obs("E.N"), D.N), Approx("mass", Obs("E.mass"), D.mass) >>
            ELSE <<>>]

\* obligations on one Substance object observed under the path prefix px, for the bag b
BagObl(px, b, den, bind, natural) ==
  LET vs == SeqOf({v \in Vars : b[v] > 0})
      D(v) == SpData(bind[v], natural)
      cnt(v) == Q(b[v], den)
      per(v) == << Exact("count", Obs(px \o "count." \o v), cnt(v)),
                   Exact("Z", Obs(px \o "comp." \o v \o ".Z"), Q(D(v).Z, 1)),
                   Exact("e", Obs(px \o "comp." \o v \o ".e"), Q(D(v).e, 1)),
                   Exact("N", Obs(px \o "comp." \o v \o ".N"),
                         IF D(v).Nint >= 0 THEN Q(D(v).Nint, 1) ELSE <<"ref", bind[v].key, "N">>),
                   Approx("mass", Obs(px \o "comp." \o v \o ".mass"), <<"ref", bind[v].key, "mass">>) >>
      RECURSIVE Cat(_)
      Cat(i) == IF i > Len(vs) THEN <<>> ELSE per(vs[i]) \o Cat(i + 1)
      allint == \A i \in 1..Len(vs) : D(vs[i]).Nint >= 0
  IN  << Exact("ncomp", Obs(px \o "ncomp"), Q(Len(vs), 1)) >> \o Cat(1) \o
      << Exact("sum.Z", Obs(px \o "sum.Z"), Q(ISumSeq([i \in 1..Len(vs) |-> b[vs[i]] * D(vs[i]).Z]), den)),
         Exact("sum.e", Obs(px \o "sum.e"), Q(ISumSeq([i \in 1..Len(vs) |-> b[vs[i]] * D(vs[i]).e]), den)),
         Exact("sum.N", Obs(px \o "sum.N"),
               IF allint THEN Q(ISumSeq([i \in 1..Len(vs) |-> b[vs[i]] * D(vs[i]).Nint]), den)
               ELSE Sum([i \in 1..Len(vs) |-> Mul(cnt(vs[i]), IF D(vs[i]).Nint >= 0 THEN Q(D(vs[i]).Nint, 1)
                                                                ELSE <<"ref", bind[vs[i]].key, "N">>)])),
         \* the total mass is the count-weighted sum of the per-species masses (table terms)
         Approx("sum.mass", Obs(px \o "sum.mass"),
                Sum([i \in 1..Len(vs) |-> Mul(cnt(vs[i]), <<"ref", bind[vs[i]].key, "mass">>)])),
         \* ... and of the masses the object reports per species
         Approx("sum.mass=sum(comp)", Obs(px \o "sum.mass"),
                Sum([i \in 1..Len(vs) |-> Mul(cnt(vs[i]), Obs(px \o "comp." \o vs[i] \o ".mass"))])),
         \* the same totals where the object reports them outside the tables ("Total mass", "Total number" of
         \* print(); the mass a Material uses for this substance) and the fractions that are derived from them
         Approx("total.mass", Obs(px \o "total.mass"),
                Sum([i \in 1..Len(vs) |-> Mul(cnt(vs[i]), <<"ref", bind[vs[i]].key, "mass">>)])),
         Exact("total.number", Obs(px \o "total.number"), Q(ISumSeq([i \in 1..Len(vs) |-> b[vs[i]]]), den)),
         Approx("sum.x", Obs(px \o "sum.x"), Q(100, 1)), Approx("sum.X", Obs(px \o "sum.X"), Q(100, 1)) >>

(***************************************************************************)
(* op: what is done with the parsed substance A, all in ONE process        *)
(*   none                                                                  *)
(*   add      R = A + Substance(toks2); then A is observed again (A2) and  *)
(*            the second operand too (B): operands are not altered         *)
(*   mul      R = A * n; A observed again (A2)                             *)
(*   iadd     A += Substance(toks2), imul  A *= n : the augmented          *)
(*            assignments; what the name A then denotes is observed as R   *)
(*            (and the right operand again, B)                             *)
(*   addel    R = A + Element(v, n): a single component as right operand;  *)
(*            A observed again (A2)                                        *)
(*   addsum   R = A + B; then R.add(v, n) in place: R, and BOTH operands    *)
(*            again (A2, B) - a sum does not share state with its operands *)
(*   addopnd  R = A + B; then B.add(v, n) in place: B, and the sum again   *)
(*   addin    A.add(v, n) in place, observed as R; afterwards toks2 (B)    *)
(*            and toks itself (C) are parsed afresh: what was done to one  *)
(*            object does not reach formulas parsed later                  *)
(*   reuse    ONE SubstanceSolver instance solves toks2 first - a formula   *)
(*            that is rejected after some of it was read when one of its   *)
(*            species is not tabulated - and then toks: R is what the      *)
(*            second call returns; it is the decomposition of toks alone   *)
(*            (property C02's idea on the materials instance of the solver)*)
(*   perturb  every quantity A reports is converted in place to another    *)
(*            unit by the caller; A observed again as R: the results do    *)
(*            not depend on the unit a reported quantity was converted to  *)
(***************************************************************************)
FormulaRec(it) ==
  LET ast == ParseIdeal(it.toks) IN
  IF ~Parses(it.toks) THEN [id |-> it.id, kind |-> "formula", cls |-> "ill", toks |-> it.toks]
  ELSE
  LET bag  == Expand(ast)
      two  == it.op \in {"add", "iadd", "addin", "addsum", "addopnd"}
      ast2 == IF two THEN ParseIdeal(it.toks2) ELSE <<>>
      ok2  == ~two \/ Parses(it.toks2)
      bag2 == IF two /\ ok2 THEN Expand(ast2) ELSE BZero
      bagR == CASE it.op \in {"add", "iadd"} -> BAdd(bag, bag2)
                [] it.op \in {"addin", "addel"} -> BAdd(bag, BScale(it.n[1], BUnit(it.v)))
                [] OTHER -> bag
      bagV   == IF it.op \in {"addin", "addel", "addsum", "addopnd"} THEN BScale(it.n[1], BUnit(it.v)) ELSE BZero
      all  == BAdd(BAdd(bagR, bag2), bagV)
      used == {v \in Vars : all[v] > 0}
      badsp == \E v \in used : ~SpValid(it.bind[v])
      unsp  == ~badsp /\ \E v \in used : SpUnspecified(it.bind[v], it.natural)
      cls  == IF badsp \/ ~ok2 \/ (it.op = "reuse" /\ ~Parses(it.toks2)) THEN "invalid"
              ELSE IF Unspecified(ast) \/ (two /\ Unspecified(ast2)) THEN "unspecified"
              ELSE IF unsp THEN "unspecified:abundance" ELSE "wellformed"
      m    == Mach(ast)
      \* op = "reuse": the formula solved first
      bag0  == IF it.op = "reuse" /\ Parses(it.toks2) THEN Expand(ParseIdeal(it.toks2)) ELSE BZero
      bad0  == \E v \in Vars : bag0[v] > 0 /\ ~SpValid(it.bind[v])
      O(px, b, den) == BagObl(px, b, den, it.bind, it.natural)
  IN  [id |-> it.id, kind |-> "formula", cls |-> cls, toks |-> it.toks, natural |-> it.natural, op |-> it.op,
       tags |-> Features(ast) \cup (IF two /\ ok2 THEN DevTags(ast2) ELSE {}) \cup {"op_" \o it.op}
                \cup (IF badsp THEN {} ELSE UNION {SpFeatures(it.bind[v], it.natural) : v \in used}),
       bag |-> bag, pre |-> Pre(ast), merr |-> m.err, mbag |-> m.bag,
       lemmas |-> Lemmas(ast), refines |-> MachineOK(ast),
       obl |-> IF cls # "wellformed" THEN <<>>
               ELSE O("A.", bag, 1)
                    \o (CASE it.op = "add"     -> O("R.", bagR, 1) \o O("A2.", bag, 1) \o O("B.", bag2, 1)
                           [] it.op = "mul"     -> O("R.", BScale(it.n[1], bag), it.n[2]) \o O("A2.", bag, 1)
                           [] it.op = "addsum"  -> O("R.", BAdd(BAdd(bag, bag2), bagV), 1) \o O("A2.", bag, 1) \o O("B.", bag2, 1)
                           [] it.op = "addopnd" -> O("R.", BAdd(bag, bag2), 1) \o O("A2.", bag, 1) \o O("B.", BAdd(bag2, bagV), 1)
                           [] it.op = "iadd"    -> O("R.", bagR, 1) \o O("B.", bag2, 1)
                           [] it.op = "imul"    -> O("R.", BScale(it.n[1], bag), it.n[2])
                           [] it.op = "addel"   -> O("R.", bagR, 1) \o O("A2.", bag, 1)
                           [] it.op = "addin"   -> O("R.", bagR, 1) \o O("B.", bag2, 1) \o O("C.", bag, 1)
                           [] it.op = "perturb" -> O("R.", bag, 1)
                           [] it.op = "reuse"   -> (IF bad0 THEN <<Exact("first formula rejected", Obs("first.raises"), Q(1, 1))>> ELSE <<>>)
                                                   \o O("R.", bag, 1)
                           [] OTHER -> <<>>)]

FileRec(it) == IF it.kind = "species" THEN SpeciesRec(it) ELSE FormulaRec(it)
FileOK == idx > 0 =>
            LET it == FileItems[idx]
                r  == FileRec(it)
            IN  /\ Emit => PrintT(ToJson(r))
                /\ (it.kind = "formula" /\ r.cls # "ill") => (r.lemmas /\ r.refines)

Refines == IF Source = "enum" THEN EnumOK ELSE FileOK
=============================================================================
