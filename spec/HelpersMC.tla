----------------------------- MODULE HelpersMC -----------------------------
(***************************************************************************)
(* C20 model checking: each helper's MACHINE runs in lock-step with its    *)
(* IDEAL under every operation the environment can choose.                 *)
(*                                                                         *)
(* `which` selects the object under study (chosen by the first action, so  *)
(* that one TLC run covers all of them):                                   *)
(*   "pt"      ParameterTable(keys=True)      m = [keys, data]  i = ordered map *)
(*   "pl"      ParameterTable() (list mode)   m = [data]        i = list of records *)
(*   an RCConfs name: RowCollector in one mode m = column lists  i = list of rows *)
(*   "grid"    DataPlotGrid: the state is (n, ncols, transpose)            *)
(*   "comb"    DataCombination: the state is the list of item lists        *)
(*   "cmb"     DataCombination whose lists the caller changes in place     *)
(*             after construction                                          *)
(*                                                                         *)
(* MaxDepth = 0 : the complete reachable state graph (operation sequences  *)
(*   of any length; tables bounded by MaxRecs/MaxRows).  One JSON record   *)
(*   per state: what every public accessor must return in that state.      *)
(* An operation outside the property (class "unspecified": value list of  *)
(* the wrong length, non-iterable values, row of the wrong length, dict    *)
(* with other keys than the columns) is followed by the machine only; the  *)
(* ideal has no opinion from then on (judged = FALSE) and the exploration  *)
(* of that branch stops there.                                             *)
(* MaxDepth > 0 : every operation sequence of exactly that length is a     *)
(*   state (history variable `hist`); one JSON record per sequence: the    *)
(*   operations, the ideal's outcome of each and the ideal / machine state *)
(*   after each.  The harness replays them on the real classes.            *)
(*                                                                         *)
(* The machine state is logged (mst) only where the machine may differ     *)
(* from the ideal (after a named deviation); elsewhere Refines says that it *)
(* shows the same as the ideal state.                                      *)
(* Invariants: Refines (every accessor of the machine = the ideal's, and   *)
(* the same calls fail), PTSync (_keys = order of _data), SortRefines      *)
(* (results of the column-wise argsort = the admissible row orders),       *)
(* SortForms (two formulations of the ideal sort agree), GridRefines,      *)
(* CombRefines, Atomic (a failed call changes nothing - expected to be     *)
(* violated only through the two named partial failures).                  *)
(***************************************************************************)
EXTENDS Helpers, Json

CONSTANTS
  Machines, MaxDepth, KnownDevs,
  Settings, KeyName, Keys, ValLists, ShortVals, InitDicts, AllowBad, ProbeKeys, NProbe, MaxRecs,
  FirstKeys, FirstFlavs,      \* partition of the history runs: key and kind of the first operation on the keyed table
  RCConfs, MaxRows,
  SortMaxRows,                \* sort is explored on tables of at most this many rows (it enumerates permutations)
  GridMaxN, GridMaxCols, AxSize,
  CombVals, CombMaxLists, CombMaxLen,
  CombInits                   \* initial lists of lists of the "cmb" machine

VARIABLES which, m, i, judged, tags, ret, hist
vars == <<which, m, i, judged, tags, ret, hist>>

HistOn == MaxDepth > 0
Room == ~HistOn \/ Len(hist) <= MaxDepth          \* hist[1] is the creation of the object
Log(e) == hist' = IF HistOn THEN Append(hist, e) ELSE hist
IsRC == which \in DOMAIN RCConfs
Conf == RCConfs[which]
NoRet == [i |-> FALSE, m |-> FALSE]

Init == /\ which = "none" /\ m = <<>> /\ i = <<>> /\ judged = TRUE /\ tags = {} /\ ret = NoRet /\ hist = <<>>

New(w, m0, i0, e) == /\ which' = w /\ m' = m0 /\ i' = i0 /\ hist' = IF HistOn THEN <<e>> ELSE <<>>
                     /\ UNCHANGED <<judged, tags, ret>>

Choose ==
  /\ which = "none"
  /\ \/ /\ "pt" \in Machines
        /\ \E d \in InitDicts :
             LET m0 == PTM_Fold(PTM_New(Settings, KeyName), d)
                 i0 == PTI_Fold(PTI_New(Settings, KeyName), d)
             IN New("pt", m0, i0, [op |-> "new", init |-> d, ist |-> PTI_Compact(i0), mst |-> <<>>])
     \/ /\ "pl" \in Machines
        /\ New("pl", PLM_New(Settings), PLI_New(Settings),
               [op |-> "new", ist |-> PLI_Compact(PLI_New(Settings)), mst |-> <<>>])
     \/ \E w \in Machines \cap DOMAIN RCConfs :
          LET c == RCConfs[w]
              m0 == RCM_New(c.mode, c.cols, c.kindof)
              i0 == RCI_New(c.cols, c.kindof)
          IN New(w, m0, i0, [op |-> "new", ist |-> RCI_Compact(i0), mst |-> <<>>])
     \/ /\ "grid" \in Machines /\ New("grid", [n |-> 0, nc |-> 1, tr |-> FALSE], <<>>, <<>>)
     \/ /\ "comb" \in Machines /\ New("comb", <<>>, <<>>, <<>>)
     \/ /\ "cmb" \in Machines
        /\ \E l0 \in CombInits : New("cmb", CMM_New(l0), CMI_New(l0), [op |-> "new", init |-> l0, ist |-> CMI_Compact(CMI_New(l0)), mst |-> <<>>])

(* ------------------------- ParameterTable(keys=True) ------------------------- *)
PTDo(op) ==
  LET ms == PTM_Step(m, op)
      sp == PTI_Specified(i, op)
      is == IF sp THEN PTI_Step(i, op) ELSE [t |-> i, err |-> FALSE]
  IN /\ m' = ms.m /\ i' = is.t /\ judged' = (judged /\ sp)
     /\ ret' = [i |-> is.err, m |-> ms.err]
     /\ Log([op |-> op, err |-> is.err, ist |-> PTI_Compact(is.t), mst |-> <<>>])
     /\ UNCHANGED <<which, tags>>
InPart(f, k) == (HistOn /\ Len(hist) = 1) => (k \in FirstKeys /\ f \in FirstFlavs)
PTNext ==
  /\ which = "pt" /\ Room /\ judged
  /\ \/ \E f \in {"append", "setitem"}, k \in Keys, v \in ValLists \cup ShortVals : InPart(f, k) /\ PTDo([op |-> f, k |-> k, v |-> v])
     \/ \E k \in Keys : InPart("delitem", k) /\ PTDo([op |-> "delitem", k |-> k])
     \/ AllowBad /\ \E k \in Keys : PTDo([op |-> "append_bad", k |-> k])

(* --------------------------- ParameterTable (list) --------------------------- *)
PLDo(op) ==
  LET ms == PLM_Step(m, op)
      sp == PLI_Specified(i, op)
      is == IF sp THEN PLI_Step(i, op) ELSE [t |-> i, err |-> FALSE]
  IN /\ m' = ms.m /\ i' = is.t /\ judged' = (judged /\ sp)
     /\ ret' = [i |-> is.err, m |-> ms.err]
     /\ Log([op |-> op, err |-> is.err, ist |-> PLI_Compact(is.t), mst |-> <<>>])
     /\ UNCHANGED <<which, tags>>
PLNext ==
  /\ which = "pl" /\ Room /\ judged
  /\ \/ Len(m.data) < MaxRecs /\ \E v \in ValLists \cup ShortVals : PLDo([op |-> "append", v |-> v])
     \/ \E p \in 1..(MaxRecs + 1) : PLDo([op |-> "delitem", p |-> p])

(* -------------------------------- RowCollector ------------------------------- *)
TruncTags(op) ==
  IF op.op = "append_list"
  THEN IF \E q \in 1..Min2(Len(op.row), Len(m.columns)) : RCM_TruncHere(m, m.columns[q], op.row[q]) THEN {"array_str_trunc"} ELSE {}
  ELSE IF \E n \in 1..Len(op.row) : op.row[n][1] \in DOMAIN m.kindof /\ RCM_TruncHere(m, op.row[n][1], op.row[n][2])
       THEN {"array_str_trunc"} ELSE {}
RCDo(op) ==
  LET ms == RCM_Step(m, op)
      sp == RCI_Specified(i, op)
      is == IF sp THEN RCI_Step(i, op) ELSE [t |-> i, err |-> FALSE]
  IN /\ m' = ms.m /\ i' = is.t /\ judged' = (judged /\ sp)
     /\ ret' = [i |-> is.err, m |-> ms.err]
     /\ tags' = tags \cup TruncTags(op)
     /\ Log([op |-> op, err |-> is.err, ist |-> RCI_Compact(is.t), mst |-> IF tags' = {} THEN <<>> ELSE RCM_Compact(ms.m)])
     /\ UNCHANGED which
RCSort(name, rev) ==
  LET op == [op |-> "sort", name |-> name, rev |-> rev] IN
  IF RCM_SortFails(m, op)
  THEN /\ UNCHANGED <<which, m, i, judged, tags>>
       /\ ret' = [i |-> RCI_SortFails(i, op), m |-> TRUE]
       /\ Log([op |-> op, err |-> RCI_SortFails(i, op), ist |-> RCI_Compact(i), mst |-> IF tags = {} THEN <<>> ELSE RCM_Compact(m)])
  ELSE /\ \E mm \in RCM_SortResults(m, name, rev) :
            /\ m' = mm
            /\ IF ~judged THEN i' = i
               ELSE IF tags = {} THEN i' = RCM_Abs(mm)                   \* admissibility of this choice: SortRefines
               ELSE i' \in RCI_SortResults(i, name, rev)                 \* the machine already deviates: all pairs of branches
       /\ ret' = NoRet
       /\ Log([op |-> op, err |-> FALSE, ist |-> RCI_Compact(i'), mst |-> IF tags = {} THEN <<>> ELSE RCM_Compact(m')])
       /\ UNCHANGED <<which, judged, tags>>
RCNext ==
  /\ IsRC /\ Room /\ judged
  /\ \/ /\ RCM_Size(m) < MaxRows /\ ~RCM_Ragged(m)
        /\ \/ \E r \in Conf.rows \cup Conf.short : RCDo([op |-> "append_list", row |-> r])
           \/ \E r \in Conf.dicts \cup Conf.baddicts : RCDo([op |-> "append_dict", row |-> r])
     \/ /\ ~RCM_Ragged(m) /\ RCM_Size(m) <= SortMaxRows
        /\ \E name \in Conf.sortnames, rev \in BOOLEAN : RCSort(name, rev)

(* -------------------------------- DataPlotGrid ------------------------------- *)
GridNext ==
  /\ which = "grid"
  /\ \/ m.n < GridMaxN /\ m' = [m EXCEPT !.n = @ + 1]
     \/ m.nc < GridMaxCols /\ m' = [m EXCEPT !.nc = @ + 1]
     \/ ~m.tr /\ m' = [m EXCEPT !.tr = TRUE]
  /\ UNCHANGED <<which, i, judged, tags, ret, hist>>
GridRec == [kind |-> "grid", n |-> m.n, nc |-> m.nc, tr |-> m.tr, nrows |-> GridM_NRows(m.n, m.nc),
            items |-> GridM_Items(m.n, m.nc, m.tr), missing |-> GridM_Missing(m.n, m.nc, m.tr),
            figsize |-> GridM_Figsize(m.n, m.nc, AxSize)]
GridRefines == which = "grid" =>
  GridI_Verdict(m.n, m.nc, m.tr, GridM_NRows(m.n, m.nc), GridM_Items(m.n, m.nc, m.tr), GridM_Missing(m.n, m.nc, m.tr)) = "ok"

(* ------------------------------- DataCombination ----------------------------- *)
CombNext ==
  /\ which = "comb"
  /\ \/ Len(m) < CombMaxLists /\ m' = Append(m, <<>>)
     \/ /\ Len(m) > 0 /\ Len(m[Len(m)]) < CombMaxLen
        /\ \E v \in CombVals : m' = [m EXCEPT ![Len(m)] = Append(@, v)]
  /\ UNCHANGED <<which, i, judged, tags, ret, hist>>
CombRec == [kind |-> "comb", lists |-> m, keys |-> CombM_Keys(m), values |-> CombM_Values(m), items |-> CombM_Items(m)]
CombRefines == which = "comb" =>
  LET it == CombM_Items(m) IN
  /\ CombI_Verdict(m, it) = "ok"
  /\ CombM_Keys(m) = [j \in 1..Len(it) |-> it[j][1]]
  /\ CombM_Values(m) = [j \in 1..Len(it) |-> it[j][2]]

(* ------------------- DataCombination, lists changed in place ----------------- *)
CMDo(op) ==
  /\ m' = CMM_Step(m, op) /\ i' = CMI_Step(i, op) /\ ret' = NoRet
  /\ Log([op |-> op, err |-> FALSE, ist |-> CMI_Compact(i'), mst |-> <<>>])
  /\ UNCHANGED <<which, judged, tags>>
CMNext ==
  /\ which = "cmb" /\ Room
  /\ \/ \E l \in 1..Len(m.items) : Len(m.items[l]) < 2 /\ CMDo([op |-> "append", l |-> l, v |-> 2])
     \/ \E l \in 1..Len(m.items) : Len(m.items[l]) > 0 /\ CMDo([op |-> "pop", l |-> l])
     \/ \E l \in 1..Len(m.items) : Len(m.items[l]) = 0 /\ CMDo([op |-> "extend", l |-> l, vs |-> <<1, 2>>])
     \/ Len(m.items) < 3 /\ CMDo([op |-> "addlist", vs |-> <<1>>])
\* the machine's output is one of the admissible ones and meets the product requirement for the lists as they are
CombLiveRefines == which = "cmb" =>
  /\ CMM_Obs(m).alt[1] \in Range(CMI_Obs(i).alt)
  /\ CombI_VerdictAll(i.lists, CMM_Obs(m).alt[1]) = "ok"

Next == Choose \/ PTNext \/ PLNext \/ RCNext \/ GridNext \/ CombNext \/ CMNext
Spec == Init /\ [][Next]_vars

(* --------------------------------- properties -------------------------------- *)
IObs == CASE which = "pt" -> PTI_Obs(i, ProbeKeys, NProbe)
          [] which = "pl" -> PLI_Obs(i, NProbe)
          [] IsRC -> RCI_Obs(i)
          [] which = "cmb" -> CMI_Obs(i)
MObs == CASE which = "pt" -> PTM_Obs(m, ProbeKeys, NProbe)
          [] which = "pl" -> PLM_Obs(m, NProbe)
          [] IsRC -> RCM_Obs(m)
          [] which = "cmb" -> CMM_Obs(m)
ICompact == CASE which = "pt" -> PTI_Compact(i) [] which = "pl" -> PLI_Compact(i) [] IsRC -> RCI_Compact(i) [] which = "cmb" -> CMI_Compact(i)
MCompact == CASE which = "pt" -> PTM_Compact(m) [] which = "pl" -> PLM_Compact(m) [] IsRC -> RCM_Compact(m) [] which = "cmb" -> CMM_Compact(m)
Stateful == which \in {"pt", "pl", "cmb"} \/ IsRC
Excused == tags # {} /\ tags \subseteq KnownDevs          \* a named deviation recorded as an open finding was taken

Refines == (Stateful /\ which # "cmb" /\ judged /\ ~Excused) => (MObs = IObs /\ ret.m = ret.i)          \* "cmb": CombLiveRefines
PTSync == (which = "pt" /\ judged) => (m.keys = D_Keys(m.data) /\ m.keys = i.order)
SortRefines == (IsRC /\ judged /\ tags = {} /\ Len(i.rows) <= SortMaxRows) =>
  \A name \in Range(i.cols), rev \in BOOLEAN :
     {RCM_Abs(mm) : mm \in RCM_SortResults(m, name, rev)} = RCI_SortResults(i, name, rev)
SortForms == (IsRC /\ judged /\ Len(i.rows) <= SortMaxRows) =>
  \A name \in Range(i.cols), rev \in BOOLEAN :
     {t2.rows : t2 \in RCI_SortResults(i, name, rev)}
       = {rr \in [1..Len(i.rows) -> Range(i.rows)] : RCI_SortOK(i, [i EXCEPT !.rows = rr], name, rev)}
\* a call that raised left the object as it was (violated exactly by the named partial failures)
AtomicPT == which = "pt" => m.keys = D_Keys(m.data)
AtomicRC == IsRC => ~RCM_Ragged(m)

Emit ==
  IF ~HistOn
  THEN /\ (Stateful /\ judged) =>
            PrintT(ToJson([kind |-> "state", w |-> which, ist |-> ICompact, iobs |-> IObs, mst |-> MCompact, mobs |-> MObs]))
       /\ which = "grid" => PrintT(ToJson(GridRec))
       /\ which = "comb" => PrintT(ToJson(CombRec))
  ELSE (Stateful /\ Len(hist) = MaxDepth + 1) =>
            PrintT(ToJson([kind |-> "hist", w |-> which, hist |-> hist, tags |-> tags, judged |-> judged]))
=============================================================================
