--------------------------- MODULE Helpers2Trace ---------------------------
(***************************************************************************)
(* Validation of executions recorded from the real CachedFunction,         *)
(* Stopwatch, ProgressBar and NormalizeData against Helpers2.tla.          *)
(*                                                                         *)
(* env TRACE_FILE: JSON array of traces; a trace is                        *)
(*   {ev:"new", obj:"cf"|"sw"|"pb"|"nd", <parameters>, obs}                *)
(*   {ev:"op", op:{op:..}, err, ret, obs} ...                              *)
(* One behaviour consumes one trace.  At every event the logged public     *)
(* observation must be what the ideal says (where it decides and no named  *)
(* deviation of the machine is in play) or else what the machine says;     *)
(* the names of the deviations that were needed are collected in expl      *)
(* ("UNNAMED": the machine explains an observation the ideal rejects and   *)
(* no named deviation applies - a new finding).  An event that neither     *)
(* explains has no successor (the machine spec has drifted from the code). *)
(* Accepted: <<"ACCEPT2", tid, expl>>.                                     *)
(***************************************************************************)
EXTENDS Helpers2, Json, IOUtils

Traces == JsonDeserialize(IOEnv.TRACE_FILE)
VARIABLES tid, ln, obj, m, i, judged, tags, expl
tvars == <<tid, ln, obj, m, i, judged, tags, expl>>
Tr == IF tid = 0 THEN <<>> ELSE Traces[tid]
Ev == Tr[ln]
P == Tr[1]                                   \* the creation event carries the parameters
Consume(e) == ln <= Len(Tr) /\ Ev.ev = e /\ ln' = ln + 1 /\ tid' = tid

TInit == tid = 0 /\ ln = 1 /\ obj = "none" /\ m = <<>> /\ i = <<>> /\ judged = TRUE /\ tags = {} /\ expl = {}
TChoose == tid = 0 /\ tid' \in 1..Len(Traces) /\ ln' = 1 /\ UNCHANGED <<obj, m, i, judged, tags, expl>>

Abs(x) == IF x < 0 THEN -x ELSE x
\* a printed time text [unit, v10 = ten times the printed number] against [unit, num, den]
TextMatch(exp, got) == exp.unit = got.unit /\ 2 * Abs(got.v10 * exp.den - 10 * exp.num) <= exp.den
SortedByTime(rows) == \A a, b \in 1..Len(rows) : a < b => rows[a][2] <= rows[b][2]

\* exp: an observation record of the specification, got: the logged one, open: the option-valued fields of the ideal
Match(o, exp, got, open) ==
  CASE o = "sw" ->
         /\ got.ratio                                    \* (the stack of open nodes has no public accessor)
         /\ (exp.report = <<>>) = (got.report = <<>>)
         /\ got.report # <<>> => /\ Range2(got.report[1]) = exp.report[1]
                                 /\ Len(got.report[1]) = Cardinality(exp.report[1])
                                 /\ SortedByTime(got.report[1])
    [] o = "pb" ->
         /\ exp.cur = got.cur /\ exp.n = got.n /\ exp.fill = got.fill /\ exp.info = got.info
         /\ TextMatch(exp.et, got.et)
         /\ IF open THEN exp.tot = <<>> \/ TextMatch(exp.tot[1], got.tot) ELSE TextMatch(exp.tot, got.tot)
    [] o = "nd" ->
         /\ \A f \in DOMAIN exp \ {"items"} : exp[f] = got[f]
         /\ IF open THEN exp.items = <<>> \/ exp.items[1] = got.items ELSE exp.items = got.items
    [] OTHER -> exp = got

IObsOf(o, t) == CASE o = "cf" -> CFI_Obs(t, P.args) [] o = "sw" -> SWI_Obs(t) [] o = "pb" -> PBI_Obs(t) [] o = "nd" -> NDI_Obs(t)
MObsOf(o, x) == CASE o = "cf" -> CFM_Obs(x, P.args) [] o = "sw" -> SWM_Obs(x) [] o = "pb" -> PBM_Obs(x) [] o = "nd" -> NDM_Obs(x)
DevNowOf(o, x) == CASE o = "sw" -> SW_DevNow(x) [] o = "pb" -> PB_DevNow(x) [] OTHER -> {}

\* i2, m2: the states the specification computes; ic, mc: does the outcome of the call (failure, returned value) agree
Judge(o, i2, m2, jd, tg, ic, mc) ==
  LET dev == tg \cup DevNowOf(o, m2)
      im == jd /\ ic /\ Match(o, IObsOf(o, i2), Ev.obs, TRUE)
      mm == mc /\ Match(o, MObsOf(o, m2), Ev.obs, FALSE)
  IN /\ i' = i2 /\ m' = m2 /\ obj' = o /\ judged' = jd /\ tags' = tg
     /\ IF im THEN expl' = expl
        ELSE IF mm THEN expl' = expl \cup (IF ~jd THEN {"not decided by the ideal"} ELSE IF dev # {} THEN dev ELSE {"UNNAMED"})
        ELSE PrintT(<<"REJECT2", tid, ln>>) /\ FALSE

TNew ==
  /\ Consume("new") /\ ln = 1
  /\ CASE Ev.obj = "cf" -> Judge("cf", CFI_New, CFM_New(Ev.ext), TRUE, {}, TRUE, TRUE)
       [] Ev.obj = "sw" -> Judge("sw", SWI_New, SWM_New(Ev.tk), Ev.tk = 0, {}, TRUE, TRUE)
       [] Ev.obj = "pb" -> Judge("pb", PBI_New(Ev.n, 0), PBM_New(Ev.n, 0), TRUE, {}, TRUE, TRUE)
       [] Ev.obj = "nd" -> Judge("nd", NDI_New(Ev.xa, Ev.ya), NDM_New(Ev.xa, Ev.ya), TRUE, {}, TRUE, TRUE)

TOp ==
  /\ Consume("op") /\ ln > 1
  /\ LET op == Ev.op IN
     CASE obj = "cf" ->
            LET is == CFI_Step(i, op)  ms == CFM_Step(m, op) IN
            Judge("cf", is.t, ms.m, judged, tags \cup CF_Dev(m, op, P.args),
                  is.err = Ev.err /\ is.ret = Ev.ret, ms.err = Ev.err /\ ms.ret = Ev.ret)
       [] obj = "sw" ->
            LET is == SWI_Step(i, op)  ms == SWM_Step(m, op) IN
            Judge("sw", is.t, ms.m, judged, tags, is.err = Ev.err, ms.err = Ev.err)
       [] obj = "pb" ->
            Judge("pb", PBI_Step(i, op), PBM_Step(m, op), judged /\ PBI_Specified(i, op), tags, ~Ev.err, ~Ev.err)
       [] obj = "nd" ->
            LET is == NDI_Step(i, op)  ms == NDM_Step(m, op) IN
            Judge("nd", is.t, ms.m, judged, tags, is.err = Ev.err, ms.err = Ev.err)

TNext == TChoose \/ TNew \/ TOp
TSpec == TInit /\ [][TNext]_tvars
Accept == (tid > 0 /\ ln = Len(Tr) + 1) => PrintT(<<"ACCEPT2", tid, expl>>)
=============================================================================
