--------------------------- MODULE TemperatureGen ---------------------------
(***************************************************************************)
(* C05, temperature: all ordered pairs of TUnits x the rational Grid.      *)
(* Lemmas on the ideal (exact rationals): Identity, Inverse, Composition   *)
(* through every third unit.  MachineRefines: the transcription of the ten *)
(* pairwise formulas computes the ideal value wherever it converts, and it *)
(* converts every pair - except the named deviation "identity" (no method  *)
(* for Cel -> Cel and degF -> degF).  One record per (u, v, x).            *)
(***************************************************************************)
EXTENDS Temperature, Json

CONSTANTS TUnits,      \* sequence of [name, p]
          Grid,        \* set of rationals <<n, d>>
          KnownDevs, Emit

VARIABLES v_u, v_v, v_x, v_st
Below(q, n) == (q[1] \div q[2]) < n          \* floor(q) < n, no multiplication

Init == v_st = "root" /\ v_u = 0 /\ v_v = 0 /\ v_x = QZero
Next == \/ v_st = "root" /\ v_st' = "u" /\ v_u' \in 1..Len(TUnits) /\ UNCHANGED <<v_v, v_x>>
        \/ v_st = "u" /\ v_st' = "uv" /\ v_v' \in 1..Len(TUnits) /\ UNCHANGED <<v_u, v_x>>
        \/ v_st = "uv" /\ v_st' = "leaf" /\ v_x' \in {QNorm(g) : g \in {h \in Grid : Meaningful(TUnits[v_u], h) /\ Below(ToK(TUnits[v_u], h), 100000)}} /\ UNCHANGED <<v_u, v_v>>
Leaf == v_st = "leaf"
U == TUnits[v_u]
W == TUnits[v_v]

Identity == Leaf => Conv(U, U, v_x) = v_x
Inverse  == Leaf => Conv(W, U, Conv(U, W, v_x)) = v_x
Composition == Leaf => \A k \in 1..Len(TUnits) : Conv(TUnits[k], W, Conv(U, TUnits[k], v_x)) = Conv(U, W, v_x)
\* a conversion never leaves the physically meaningful range
StaysMeaningful == Leaf => Meaningful(W, Conv(U, W, v_x))

Tags == (IF U = W THEN {"identity", U.name, "identity:" \o U.name} ELSE {}) \cup (IF U.name = W.name THEN {"same_unit"} ELSE {})
MachineRefines == Leaf => LET m == Mach(U, W, v_x) IN
                    IF m.ok THEN m.q = Conv(U, W, v_x) ELSE Tags \cap KnownDevs # {}

PrefName(p) == IF p = 0 THEN "" ELSE Prefixes[CHOOSE i \in 1..NP : Prefixes[i].p10 = p /\ Len(Prefixes[i].sym) = 1].name
Text(t) == PrefName(t.p) \o t.name
Record == [u |-> Text(U), v |-> Text(W), x |-> v_x, expect |-> Conv(U, W, v_x), mach_ok |-> Mach(U, W, v_x).ok,
           tags |-> Tags, known |-> Tags \cap KnownDevs # {}]
EmitInv == Emit /\ Leaf => PrintT(ToJson(Record))
=============================================================================
