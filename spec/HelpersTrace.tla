---------------------------- MODULE HelpersTrace ----------------------------
(***************************************************************************)
(* C20 trace validation: executions recorded from the real classes must be *)
(* behaviours of the specification in Helpers.tla.                         *)
(*                                                                         *)
(* The file named by env TRACE_FILE holds a JSON array of traces, each a   *)
(* JSON array of events; one behaviour of this spec consumes one trace.    *)
(*                                                                         *)
(*   {ev:"new", obj:"pt"|"pl"|"rc", <constructor arguments>, obs, priv}    *)
(*   {ev:"op",  op:{op:<name>, ...}, err:<the call raised>, obs, priv}     *)
(*   {ev:"grid", n, nc, tr, nrows, items, missing, figsize, payload, data} *)
(*   {ev:"comb", lists, snap, keys, values, items} ... (one per reading)    *)
(*                                                                         *)
(* obs  = what the PUBLIC accessors returned after the call (any subset of *)
(*        the fields of the ..._Obs records of Helpers.tla);               *)
(* priv = the private state (_keys/_data, column attributes).              *)
(*                                                                         *)
(* Two levels of judgement, as the verdict rule requires:                  *)
(*  - the IDEAL is followed on the public observations.  A step whose obs  *)
(*    or error status the ideal does not allow has no successor: the trace *)
(*    is not accepted (=> VIOLATION), the line REJECT says which accessor. *)
(*    sort is judged by the relation RCI_SortOK (monotone in the column,   *)
(*    same multiset of whole rows), whatever order ties come out in.       *)
(*  - the MACHINE is followed on priv (and on obs where the ideal has no   *)
(*    opinion); a mismatch only clears the flag mok (=> model drift).      *)
(* After an operation outside the property (judged = FALSE) and after the  *)
(* machine's named deviation explained an observation the ideal does not   *)
(* allow (via = TRUE; open finding) only the machine is followed.          *)
(* An accepted trace prints <<"ACCEPT", tid, mok, via, judged>>.           *)
(***************************************************************************)
EXTENDS Helpers, Json, IOUtils

Traces == JsonDeserialize(IOEnv.TRACE_FILE)

VARIABLES tid, ln, obj, m, i, judged, via, mok, tags
tvars == <<tid, ln, obj, m, i, judged, via, mok, tags>>

Tr == IF tid = 0 THEN <<>> ELSE Traces[tid]
Ev == Tr[ln]
Consume(e) == ln <= Len(Tr) /\ Ev.ev = e /\ ln' = ln + 1 /\ tid' = tid

TInit == tid = 0 /\ ln = 1 /\ obj = "none" /\ m = <<>> /\ i = <<>> /\ judged = TRUE /\ via = FALSE /\ mok = TRUE /\ tags = {}
TChoose == /\ tid = 0 /\ tid' \in 1..Len(Traces) /\ ln' = 1
           /\ UNCHANGED <<obj, m, i, judged, via, mok, tags>>

\* fields of a logged observation that differ from the specification's
Bad(exp, got) == {f \in DOMAIN got : f \in DOMAIN exp /\ got[f] # exp[f]} \cup {f \in DOMAIN got : f \notin DOMAIN exp}
Reject(what, detail) == PrintT(<<"REJECT", tid, ln, what, ToJson(detail)>>) /\ FALSE

IObsOf(o, t) == CASE o = "pt" -> PTI_Obs(t, Range(Tr[1].probes), Tr[1].npos)
                  [] o = "pl" -> PLI_Obs(t, Tr[1].npos)
                  [] o = "rc" -> RCI_Obs(t)
MObsOf(o, x) == CASE o = "pt" -> PTM_Obs(x, Range(Tr[1].probes), Tr[1].npos)
                  [] o = "pl" -> PLM_Obs(x, Tr[1].npos)
                  [] o = "rc" -> RCM_Obs(x)
MPrivOf(o, x) == CASE o = "pt" -> PTM_Compact(x) [] o = "pl" -> PLM_Compact(x) [] o = "rc" -> RCM_Compact(x)

\* common tail of every step: i2/m2 = the states the specification computes, track = the ideal is being followed
Judge(o, i2, m2, track, ierr, merr, dev, mx) ==
  LET ibad == Bad(IObsOf(o, i2), Ev.obs)
      mbad == Bad(MObsOf(o, m2), Ev.obs)
      iok == ibad = {} /\ ierr = Ev.err
      mallok == mbad = {} /\ merr = Ev.err
      pok == MPrivOf(o, m2) = Ev.priv
      Drift(c, what) == IF c THEN TRUE ELSE PrintT(<<"DRIFT", tid, ln, what>>) /\ FALSE
  IN /\ i' = i2 /\ m' = m2 /\ obj' = o
     /\ IF ~track THEN via' = via /\ mok' = (mok /\ Drift(mx, "step") /\ Drift(mallok, mbad) /\ Drift(pok, "private state"))
        ELSE IF iok THEN via' = via /\ mok' = (mok /\ Drift(mx, "step") /\ Drift(pok, "private state"))
        ELSE IF dev # {} /\ mallok THEN via' = TRUE /\ mok' = (mok /\ Drift(mx, "step") /\ Drift(pok, "private state"))
        ELSE Reject(IF ierr # Ev.err THEN "error status" ELSE "accessors",
                    [fields |-> ibad, expected_err |-> ierr, got_err |-> Ev.err,
                     expected |-> [f \in ibad \cap DOMAIN IObsOf(o, i2) |-> IObsOf(o, i2)[f]]])

RECURSIVE RowsFold(_, _), RowsFoldM(_, _)
RowsFold(t, rows) == IF rows = <<>> THEN t ELSE RowsFold(RCI_Step(t, [op |-> "append_list", row |-> Head(rows)]).t, Tail(rows))
RowsFoldM(x, rows) == IF rows = <<>> THEN x ELSE RowsFoldM(RCM_AppendRow(x, Head(rows)).m, Tail(rows))

TruncTagsT(x, op) ==
  IF op.op = "append_list"
  THEN IF \E q \in 1..Min2(Len(op.row), Len(x.columns)) : RCM_TruncHere(x, x.columns[q], op.row[q]) THEN {"array_str_trunc"} ELSE {}
  ELSE IF op.op = "append_dict"
  THEN IF \E n \in 1..Len(op.row) : op.row[n][1] \in DOMAIN x.kindof /\ RCM_TruncHere(x, op.row[n][1], op.row[n][2])
       THEN {"array_str_trunc"} ELSE {}
  ELSE {}

TNew ==
  /\ Consume("new") /\ ln = 1
  /\ judged' = TRUE
  /\ tags' = IF Ev.obj = "rc" /\ (\E n \in 1..Len(Ev.rows) : TruncTagsT(RCM_New(Ev.mode, Ev.cols, Ev.kindof), [op |-> "append_list", row |-> Ev.rows[n]]) # {})
             THEN {"array_str_trunc"} ELSE {}
  /\ CASE Ev.obj = "pt" -> Judge("pt", PTI_Fold(PTI_New(Ev.settings, Ev.keyname), Ev.init),
                                 PTM_Fold(PTM_New(Ev.settings, Ev.keyname), Ev.init), TRUE, FALSE, FALSE, {}, TRUE)
       [] Ev.obj = "pl" -> Judge("pl", PLI_New(Ev.settings), PLM_New(Ev.settings), TRUE, FALSE, FALSE, {}, TRUE)
       [] Ev.obj = "rc" -> Judge("rc", RowsFold(RCI_New(Ev.cols, Ev.kindof), Ev.rows),
                                 RowsFoldM(RCM_New(Ev.mode, Ev.cols, Ev.kindof), Ev.rows), TRUE, FALSE, FALSE, tags', TRUE)

TOp ==
  /\ Consume("op") /\ ln > 1
  /\ LET op == Ev.op IN
     CASE obj = "pt" ->
            LET sp == PTI_Specified(i, op)
                ms == PTM_Step(m, op)
                is == IF judged /\ sp /\ ~via THEN PTI_Step(i, op) ELSE [t |-> i, err |-> FALSE]
            IN judged' = (judged /\ sp) /\ tags' = tags
               /\ Judge("pt", is.t, ms.m, judged /\ sp /\ ~via, is.err, ms.err, {}, TRUE)
       [] obj = "pl" ->
            LET sp == PLI_Specified(i, op)
                ms == PLM_Step(m, op)
                is == IF judged /\ sp /\ ~via THEN PLI_Step(i, op) ELSE [t |-> i, err |-> FALSE]
            IN judged' = (judged /\ sp) /\ tags' = tags
               /\ Judge("pl", is.t, ms.m, judged /\ sp /\ ~via, is.err, ms.err, {}, TRUE)
       [] obj = "rc" /\ op.op # "sort" ->
            LET sp == RCI_Specified(i, op)
                ms == RCM_Step(m, op)
                is == IF judged /\ sp /\ ~via THEN RCI_Step(i, op) ELSE [t |-> i, err |-> FALSE]
                dev == TruncTagsT(m, op)
            IN judged' = (judged /\ sp) /\ tags' = tags \cup dev
               /\ Judge("rc", is.t, ms.m, judged /\ sp /\ ~via, is.err, ms.err, tags \cup dev, TRUE)
       [] obj = "rc" /\ op.op = "sort" ->
            /\ UNCHANGED <<judged, tags>>
            /\ LET track == judged /\ ~via
                   \* the machine: the logged columns must be a sorting permutation of the current ones
                   known == "d" \in DOMAIN Ev.priv /\ Len(Ev.priv.d) = Len(m.col)
                   mlog == IF RCM_SortFails(m, op) \/ RCM_Ragged(m) \/ ~known THEN m ELSE [m EXCEPT !.col = Ev.priv.d]
                   mstep == IF RCM_SortFails(m, op) THEN Ev.err
                            ELSE known /\ ~RCM_Ragged(m) /\ ~RCM_Ragged(mlog) /\ ~Ev.err
                                 /\ RCI_SortOK(RCM_Abs(m), RCM_Abs(mlog), op.name, op.rev)
               IN IF ~track THEN /\ i' = i /\ m' = mlog /\ obj' = obj /\ via' = via
                                 /\ mok' = (mok /\ mstep /\ Bad(RCM_Obs(mlog), Ev.obs) = {})
                  ELSE IF RCI_SortFails(i, op)
                  THEN Judge("rc", i, mlog, TRUE, TRUE, RCM_SortFails(m, op), {}, mstep)       \* unknown column: fails, nothing changes
                  ELSE IF Ev.err THEN Reject("error status", [expected_err |-> FALSE, got_err |-> TRUE])
                  ELSE IF \E q \in 1..Len(Ev.obs.dict) : Len(Ev.obs.dict[q][2]) # Len(Ev.obs.dict[1][2])
                       THEN Reject("accessors", [fields |-> {"dict"}])                       \* columns of different length
                  ELSE LET d == Ev.obs.dict                                                  \* the rows that to_dict() shows now
                           i2 == [i EXCEPT !.rows = [n \in 1..(IF d = <<>> THEN 0 ELSE Len(d[1][2])) |-> [q \in 1..Len(d) |-> d[q][2][n]]]] IN
                       IF ~SameBag(i.rows, i2.rows) THEN Reject("sort changed the multiset of rows", [before |-> i.rows, after |-> i2.rows])
                       ELSE IF ~RCI_SortOK(i, i2, op.name, op.rev) THEN Reject("sort: rows not in order of the column", [after |-> i2.rows])
                       ELSE Judge("rc", i2, mlog, TRUE, FALSE, FALSE, tags, mstep)

TGrid ==
  /\ Consume("grid") /\ ln = 1
  /\ LET v == GridI_Verdict(Ev.n, Ev.nc, Ev.tr, Ev.nrows, Ev.items, Ev.missing)
         pay == IF Ev.payload = Ev.data THEN "ok" ELSE "payload"               \* the i-th position carries the i-th item
     IN IF Ev.raised THEN Reject("grid", [clause |-> "raised"])
        ELSE IF v = "ok" /\ pay = "ok"
        THEN mok' = (/\ Ev.items = GridM_Items(Ev.n, Ev.nc, Ev.tr) /\ Ev.missing = GridM_Missing(Ev.n, Ev.nc, Ev.tr)
                     /\ Ev.nrows = GridM_NRows(Ev.n, Ev.nc) /\ Ev.figsize = GridM_Figsize(Ev.n, Ev.nc, Ev.axsize))
        ELSE Reject("grid", [clause |-> IF v # "ok" THEN v ELSE pay])
  /\ UNCHANGED <<obj, m, i, judged, via, tags>>

\* one event per reading of a DataCombination: lists = the caller's lists at that moment, snap = at construction
TComb ==
  /\ Consume("comb")
  /\ LET out == [keys |-> Ev.keys, values |-> Ev.values, items |-> Ev.items]
         v == CombI_VerdictAll(Ev.lists, out)
         vs == CombI_VerdictAll(Ev.snap, out)
     IN IF Ev.raised THEN Reject("comb", [clause |-> "raised"])
        ELSE IF v = "ok" \/ vs = "ok"                                        \* the product of ONE state of the lists, all three aligned
        THEN mok' = (mok /\ out = CombOut(Ev.lists))
        ELSE Reject("comb", [clause |-> v])
  /\ UNCHANGED <<obj, m, i, judged, via, tags>>

TNext == TChoose \/ TNew \/ TOp \/ TGrid \/ TComb
TSpec == TInit /\ [][TNext]_tvars

Accept == (tid > 0 /\ ln = Len(Tr) + 1) => PrintT(<<"ACCEPT", tid, mok, via, judged>>)
=============================================================================
