----------------------------- MODULE LogUnitsGen -----------------------------
(***************************************************************************)
(* C05, logarithmic units.                                                 *)
(*                                                                         *)
(* Lattice (st = "lat"): for every documented bel-type unit L and n in     *)
(* -3..3 the machine table, evaluated exactly, gives  level(ref*10^n) =    *)
(* k*n bels and back; dB <-> dB offsets of the machine equal the offsets   *)
(* DERIVED from the reference levels.                                      *)
(*                                                                         *)
(* Pairs (st = "pair"): every documented pair of sides                     *)
(*   L (each admissible prefix)  <->  its linear counterpart (prefix none, *)
(*   m, u, k on the leading unit),  B / Np <-> PR / AR,  B <-> Np,         *)
(*   L <-> L with every pair of prefixes,  dB-type units with a common     *)
(*   counterpart, and the documented fraction form  L/R <-> C/R;           *)
(* one record each with the obligation term, tolerance, exact lattice      *)
(* points.  Sums (st = "sum"): level addition / subtraction in every       *)
(* bel-type unit.                                                          *)
(***************************************************************************)
EXTENDS UnitConv, Json

CONSTANTS KnownDevs, Emit, LinPrefixes, Rests,
          LatMax        \* the lattice ref*10^n is explored for n in -LatMax..LatMax (the physically meaningful range:
                        \* thermal noise is -174 dBm, ratios of 1e-18 .. 1e18)

VARIABLES v_st, v_a, v_b, v_n

LogIdx == {u \in 1..NU : Units[u].name \in LogNames}
AdmP(u) == {0} \cup {p \in 1..NP : Prefixes[p].name \in Units[u].adm}
One(p, u) == << <<<<"u", p, u>>, QOne>> >>
\* counterpart expression of a documented unit with prefix q on its leading unit
CpSide(name, q) == LET m == CpMap(LDef(name).cp) IN
                   [i \in 1..Len(m) |-> IF i = 1 THEN << <<"u", q, m[1][1][3]>>, m[1][2] >> ELSE m[i]]
LinP == {0} \cup {p \in 1..NP : Prefixes[p].name \in LinPrefixes}
RestSide(r) == << <<"u", IF r.p = "" THEN 0 ELSE PIdx(r.p), UIdx(r.u)>>, <<r.e, 1>> >>

\* the partner sides of the log unit u carrying prefix p
Partners(p, u) ==
  LET name == Units[u].name IN
  {One(q, u) : q \in AdmP(u)}
  \cup (IF HasDef(name) THEN {CpSide(name, q) : q \in {x \in LinP : x \in AdmP(CpMap(LDef(name).cp)[1][1][3])}} ELSE {})
  \cup (IF name \in GenericLog THEN {One(0, UIdx(r)) : r \in RatioUnits} ELSE {})
  \cup (IF name = "B" THEN {One(q, UIdx("Np")) : q \in AdmP(UIdx("Np"))} ELSE {})
  \cup (IF name = "Np" THEN {One(q, UIdx("B")) : q \in AdmP(UIdx("B"))} ELSE {})
  \cup (IF HasDef(name) THEN {One(q, w) : w \in {x \in LogIdx : HasDef(Units[x].name) /\ x # u /\ LDef(Units[x].name).fam = LDef(name).fam
                                                           /\ LDef(Units[x].name).cp = LDef(name).cp}, q \in {0, PIdx("d")}} ELSE {})

Init == v_st = "root" /\ v_a = <<>> /\ v_b = <<>> /\ v_n = 0
Next ==
  \/ /\ v_st = "root" /\ v_st' = "lat" /\ v_n' \in (0 - LatMax)..LatMax
     /\ \E i \in 1..Len(LogDefs) : v_a' = One(0, UIdx(LogDefs[i].name)) /\ v_b' = <<>>
  \/ /\ v_st = "root" /\ v_st' = "a" /\ v_n' = 0 /\ v_b' = <<>>
     /\ \E u \in LogIdx : \E p \in AdmP(u) : v_a' = One(p, u)
  \/ /\ v_st = "a" /\ v_st' = "pair" /\ v_n' \in {0, 1}                       \* 0: A -> B, 1: B -> A
     /\ v_b' \in Partners(v_a[1][1][2], v_a[1][1][3]) /\ UNCHANGED v_a
  \/ /\ v_st = "a" /\ v_st' = "frac" /\ v_n' \in 1..(2 * Len(Rests))          \* odd: A/R -> C/R, even: C/R -> A/R
     /\ HasDef(Units[v_a[1][1][3]].name) /\ v_b' = CpSide(Units[v_a[1][1][3]].name, 0) /\ UNCHANGED v_a
  \* 1: a + b, -1: a - b, 2: q + q with THE SAME quantity on both sides, 3: s + s where s is itself a level sum
  \/ /\ v_st = "a" /\ v_st' = "sum" /\ v_n' \in {1, 0 - 1, 2, 3} /\ Units[v_a[1][1][3]].name \in BelNames
     /\ v_a[1][1][2] \in {0, PIdx("d")} /\ UNCHANGED <<v_a, v_b>>

(* ---- lattice lemmas *)
LName == Units[v_a[1][1][3]].name
LatticeOK == v_st = "lat" =>
   /\ CpM10ok(LDef(LName).cp)
   /\ LET m == MachLevelB(LName, v_n) IN m.ok /\ m.q = <<IdealLevelB(LName, v_n), 1>>
   /\ LET m == MachLin(LName, v_n) IN m.ok /\ m.v = IdealLin(LName, v_n)
OffsetsOK == v_st = "lat" /\ v_n = 0 =>
   \A j \in 1..Len(LogDefs) : LET o == LogDefs[j].name IN
      (LDef(o).fam = LDef(LName).fam /\ LDef(o).cp = LDef(LName).cp /\ MachOffsetB(LName, o).ok)
         => IdealOffsetB(LName, o).ok /\ MachOffsetB(LName, o).q = <<IdealOffsetB(LName, o).q, 1>>

(* ---- pairs *)
From == IF v_st = "pair" THEN (IF v_n = 0 THEN v_a ELSE v_b)
        ELSE IF v_st = "frac" THEN (IF v_n % 2 = 1 THEN v_a \o <<RestSide(Rests[(v_n + 1) \div 2])>> ELSE v_b \o <<RestSide(Rests[(v_n + 1) \div 2])>>)
        ELSE v_a
To   == IF v_st = "pair" THEN (IF v_n = 0 THEN v_b ELSE v_a)
        ELSE IF v_st = "frac" THEN (IF v_n % 2 = 1 THEN v_b \o <<RestSide(Rests[(v_n + 1) \div 2])>> ELSE v_a \o <<RestSide(Rests[(v_n + 1) \div 2])>>)
        ELSE v_a
\* for the fraction form the level part converts as without the rest
Core(A) == IF v_st = "frac" THEN <<A[1]>> ELSE A
Kind == LogPair(Core(From), Core(To))
Identical == From = To
RestScaled == v_st = "frac" /\ LET r == RestSide(Rests[(v_n + 1) \div 2])[1] IN r[2] # 0 \/ ~Units[r[3]].m10ok \/ Units[r[3]].m10 # 0
Tags == (IF Identical THEN {"identity"} ELSE {})
        \cup (IF Kind = "log_same" THEN {"same_unit", SingleName(Core(From)), "same_unit:" \o SingleName(Core(From))} ELSE {})
        \cup (IF v_st = "frac" THEN {"log_fraction"} ELSE {})
        \cup (IF RestScaled THEN {"log_fraction_scaled"} ELSE {})
        \cup {Kind}
\* exact points: level k*n bels  <->  ref * 10^n
LatPts == <<0 - LatMax, 0 - 17, 0 - 9, 0 - 3, 0 - 1, 0, 2, 9, LatMax>>
LatPoint(n) ==
  LET a == SingleName(Core(From))  b == SingleName(Core(To)) IN
  CASE Kind = "log_lin" -> [x |-> <<"div", Q(KOf(LDef(a).fam) * n, 1), PrefixTerm(Core(From))>>,
                            y |-> <<"div", <<"mul", Q(LDef(a).ref[1], LDef(a).ref[2]), P10(LDef(a).ref[3] + n)>>, PrefixTerm(Core(To))>>]
    [] Kind = "lin_log" -> [x |-> <<"div", <<"mul", Q(LDef(b).ref[1], LDef(b).ref[2]), P10(LDef(b).ref[3] + n)>>, PrefixTerm(Core(From))>>,
                            y |-> <<"div", Q(KOf(LDef(b).fam) * n, 1), PrefixTerm(Core(To))>>]
    [] Kind = "log_ratio" /\ a = "B" -> [x |-> <<"div", Q((IF b = "PR" THEN 1 ELSE 2) * n, 1), PrefixTerm(Core(From))>>, y |-> P10(n)]
    [] Kind = "ratio_log" /\ b = "B" -> [x |-> P10(n), y |-> <<"div", Q((IF a = "PR" THEN 1 ELSE 2) * n, 1), PrefixTerm(Core(To))>>]
    [] OTHER -> [x |-> Q(0, 1), y |-> Q(0, 1)]
HasLattice == Kind \in {"log_lin", "lin_log"} \/ (Kind = "log_ratio" /\ SingleName(Core(From)) = "B") \/ (Kind = "ratio_log" /\ SingleName(Core(To)) = "B")

\* the machine's choice for this pair (UnitConv!MRule) - accepted or not
MachAccepts == MRule(From, To) # "reject"
PairRefines == v_st \in {"pair", "frac"} /\ Kind # "" /\ Kind # "log_offset" => MachAccepts \/ Tags \cap KnownDevs # {}

PairRecord == [st |-> v_st, a |-> Join(Render(From)), b |-> Join(Render(To)), kind |-> Kind, expect |-> LogExpect(Kind, Core(From), Core(To)),
               scale |-> PrefixTerm(Core(From)), tol |-> LogTol(Kind), positive |-> NeedsPositive(Kind), optional |-> Kind = "log_offset",
               lattice |-> IF HasLattice THEN [i \in 1..Len(LatPts) |-> LatPoint(LatPts[i])] ELSE <<>>,
               mach |-> MRule(From, To), tags |-> Tags, known |-> Tags \cap KnownDevs # {}]
\* the operands of a level sum may be one and the same quantity: the sum is then LevelSum(x, x)
SumRecord == [st |-> "sum", a |-> Join(Render(v_a)), sign |-> IF v_n = 0 - 1 THEN 0 - 1 ELSE 1,
              alias |-> IF v_n = 2 THEN "same_object" ELSE IF v_n = 3 THEN "sum_of_sum" ELSE "distinct",
              scale |-> PrefixTerm(v_a),
              expect |-> LevelSumTerm(v_a, <<"x">>, IF v_n \in {2, 3} THEN <<"x">> ELSE <<"y">>, IF v_n = 0 - 1 THEN 0 - 1 ELSE 1),
              tags |-> {"level_sum", LName} \cup (IF v_n \in {2, 3} THEN {"same_operand"} ELSE {})]
\* scenario classes that apply to every pair (temperature pairs included): uncertain sources
Header == [st |-> "header", uncertainties |-> Uncertainties,
           sum_pairs |-> [k \in 1..Len(SumPairsdB) |-> [a |-> SumPairsdB[k][1], b |-> SumPairsdB[k][2], sub |-> SubDefined(SumPairsdB[k])]]]
EmitInv == Emit =>
   /\ v_st = "root" => PrintT(ToJson(Header))
   /\ v_st \in {"pair", "frac"} /\ Kind # "" => PrintT(ToJson(PairRecord))
   /\ v_st = "sum" => PrintT(ToJson(SumRecord))
=============================================================================
