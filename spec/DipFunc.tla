------------------------------- MODULE DipFunc -------------------------------
(***************************************************************************)
(* User functions (`name type = (fn)`, DIP.add_function, FunctionSolver):  *)
(* "functions ... receive an argument data that holds a COPY of current    *)
(* node values" (docs/source/dip/syntax/functions.rst).                    *)
(*                                                                         *)
(* Non-interference: whatever a function does to the argument it receives  *)
(* - overwrite a value, convert it in place (as the documented example     *)
(* does), change an element of an array value, delete / add / replace      *)
(* entries - cannot change the environment, nor what a later function      *)
(* sees.                                                                   *)
(*                                                                         *)
(* MACHINE: node values are OBJECTS on a heap; env.data(Format.TYPE) builds *)
(* a fresh dict name -> object; FunctionSolver.solve hands the function    *)
(*    CopyMode "deep"    copy.deepcopy(data)      (the code)               *)
(*             "shallow" dict(data): same value objects                    *)
(*             "none"    data itself: same value objects (the dict is      *)
(*                       fresh anyway)                                     *)
(* Each call: the function first reads a (the returned value, stored in a  *)
(* new host node), then performs its behaviour on the argument.            *)
(* IDEAL: every call reads the ORIGINAL a; the nodes keep their values.    *)
(***************************************************************************)
EXTENDS Naturals, Sequences, FiniteSets, TLC, Json

CONSTANTS Behaviours,   \* set of behaviours a function may have
          MaxCalls, CopyMode, Emit,
          A0, B0        \* original values of the scalars a and b
V0 == <<1, 2, 3>>       \* original value of the array v

VARIABLES heap,   \* sequence of value objects: [val |-> scalar or sequence, unit |-> string]
          env,    \* sequence of [name, oid]
          hist    \* behaviours of the calls so far, with the value each function returned in the machine
vars == <<heap, env, hist>>

Init == /\ heap = << [val |-> A0, unit |-> "cm"], [val |-> B0, unit |-> ""], [val |-> V0, unit |-> ""] >>
        /\ env = << [name |-> "a", oid |-> 1], [name |-> "b", oid |-> 2], [name |-> "v", oid |-> 3] >>
        /\ hist = <<>>

Oid(nm) == (CHOOSE j \in 1..Len(env) : env[j].name = nm)
OidOf(nm) == env[Oid(nm)].oid

\* data handed to the function: name -> object id, and the heap that goes with it
Given == IF CopyMode = "deep"
         THEN [heap |-> heap \o [j \in 1..Len(env) |-> heap[env[j].oid]],
               data |-> [j \in 1..Len(env) |-> [name |-> env[j].name, oid |-> Len(heap) + j]]]
         ELSE [heap |-> heap, data |-> env]

DOid(d, nm) == d[CHOOSE j \in 1..Len(d) : d[j].name = nm].oid

\* what the behaviour does to (heap, data); deleting / adding / replacing entries only touch the dict
Act(bh, h, d) ==
  CASE bh = "set_a"     -> [h EXCEPT ![DOid(d, "a")].val = 99]
    [] bh = "convert_a" -> [h EXCEPT ![DOid(d, "a")].val = @ * 10, ![DOid(d, "a")].unit = "mm"]    \* in-place convert('mm')
    [] bh = "set_v0"    -> [h EXCEPT ![DOid(d, "v")].val[1] = 99]
    [] bh = "set_b"     -> [h EXCEPT ![DOid(d, "b")].val = 77]
    [] OTHER            -> h                                     \* read, del_a, add_key, replace_a: dict-level only

Call(bh) ==
  /\ Len(hist) < MaxCalls
  /\ LET g   == Given
         ret == g.heap[DOid(g.data, "a")].val                   \* the function reads a first and returns it
         h1  == Act(bh, g.heap, g.data)
         hid == Len(h1) + 1
     IN /\ heap' = Append(h1, [val |-> ret, unit |-> "cm"])      \* the host node takes the returned value
        /\ env' = Append(env, [name |-> "h" \o ToString(Len(hist) + 1), oid |-> hid])
        /\ hist' = Append(hist, [bh |-> bh, ret |-> ret])
Next == \E bh \in Behaviours : Call(bh)
Spec == Init /\ [][Next]_vars

Val(nm) == heap[OidOf(nm)]
\* the environment keeps its values and units; every function saw the original a
NonInterference ==
  /\ Val("a") = [val |-> A0, unit |-> "cm"] /\ Val("b") = [val |-> B0, unit |-> ""] /\ Val("v") = [val |-> V0, unit |-> ""]
  /\ \A k \in 1..Len(hist) : hist[k].ret = A0

Record == [calls |-> [k \in 1..Len(hist) |-> hist[k].bh],
           expect |-> [a |-> A0, b |-> B0, v |-> V0, ret |-> [k \in 1..Len(hist) |-> A0]]]
EmitInv == (Emit /\ hist # <<>>) => PrintT(ToJson(Record))
=============================================================================
