------------------------------ MODULE Helpers2 ------------------------------
(***************************************************************************)
(* Growth of the C20 specification beyond the listed property: the other   *)
(* stateful helpers of the package, each as an IDEAL (what its             *)
(* documentation says) and a MACHINE (what the code keeps and does).       *)
(*                                                                         *)
(*   CachedFunction  decorator with a file cache: one cache file per       *)
(*                   combination of arguments, first call evaluates and    *)
(*                   stores, later calls load (also after the function was *)
(*                   redefined: stale); a deleted file is recomputed.      *)
(*   Stopwatch       stack of named nodes, laps and accumulated time per   *)
(*                   node path, report sorted by time.  Time is an integer *)
(*                   clock that only the environment advances (tick).      *)
(*   ProgressBar     step accounting: printed step counter, filled part of *)
(*                   the bar, elapsed / estimated time texts.              *)
(*   NormalizeData   running ranges (smallest positive, min, max) of the   *)
(*                   appended data and of the optional x / y axes.         *)
(*                                                                         *)
(* These behaviours are not part of property C20: a disagreement between   *)
(* the code and an ideal here is reported as a note (drift), never as a    *)
(* violation.  Known disagreements are NAMED DEVIATIONS of the machines:   *)
(*   "json_alias"    cache file name = hash of json.dumps(arguments): a    *)
(*                   tuple and the equal list (an int and a str dict key)  *)
(*                   share one cache file                                  *)
(*   "arg_not_json"  an argument that json cannot serialise: the call      *)
(*                   raises TypeError                                      *)
(*   "ext_not_npy"   cache file name not ending in .npy: np.save appends   *)
(*                   .npy, the isfile test never succeeds, np.load of the  *)
(*                   name without .npy raises - every call evaluates the   *)
(*                   function and then fails                               *)
(*   "report_before_first_start"  Stopwatch.report() divides the time of   *)
(*                   the stopwatch's own row by its 0 laps                 *)
(*   "time_text_boundary"  ProgressBar._time_text multiplies by 1.666666e-2*)
(*                   and 2.777777e-4: exactly 60 s print as 60.0s, 3600 s  *)
(*                   as 60.0m                                              *)
(* Observation fields of an ideal that may be left open are options:       *)
(* <<>> = the documentation does not decide, <<v>> = must be v.            *)
(***************************************************************************)
EXTENDS Integers, Sequences, FiniteSets, TLC

Range2(s) == {s[n] : n \in 1..Len(s)}
NoneV == <<>>
SomeV(x) == <<x>>
DropLast(s) == SubSeq(s, 1, Len(s) - 1)
SetMin(S) == CHOOSE x \in S : \A y \in S : x <= y
SetMax(S) == CHOOSE x \in S : \A y \in S : x >= y

(***************************************************************************)
(*                            CachedFunction                               *)
(* An argument combination is [id |-> name, json |-> text]: id is its      *)
(* identity (what the caller passed), json what json.dumps makes of it     *)
(* ("#err": not serialisable).  The wrapped function returns <<id, ver>>,  *)
(* ver = how often it has been redefined.                                  *)
(***************************************************************************)
CFI_New == [cache |-> {}, evals |-> 0, ver |-> 0]
CFI_Has(t, a) == \E p \in t.cache : p[1] = a.id
CFI_Val(t, a) == (CHOOSE p \in t.cache : p[1] = a.id)[2]
\* -> [t, ret (option), err]
CFI_Step(t, op) ==
  CASE op.op = "call" ->
         IF CFI_Has(t, op.arg) THEN [t |-> t, ret |-> SomeV(CFI_Val(t, op.arg)), err |-> FALSE]          \* load, no evaluation
         ELSE LET v == <<op.arg.id, t.ver>> IN
              [t |-> [t EXCEPT !.cache = @ \cup {<<op.arg.id, v>>}, !.evals = @ + 1], ret |-> SomeV(v), err |-> FALSE]
    [] op.op = "delete" -> [t |-> [t EXCEPT !.cache = {p \in @ : p[1] # op.arg.id}], ret |-> NoneV, err |-> FALSE]
    [] op.op = "redefine" -> [t |-> [t EXCEPT !.ver = @ + 1], ret |-> NoneV, err |-> FALSE]
CFI_Obs(t, args) == [evals |-> t.evals, nfiles |-> Cardinality(t.cache),
                     cached |-> [n \in 1..Len(args) |-> CFI_Has(t, args[n])]]

\* files: set of <<json text, stored value>> ; stray: the misnamed files <name>.npy of a cache whose name does not end in .npy
CFM_New(ext) == [files |-> {}, evals |-> 0, ver |-> 0, ext |-> ext, stray |-> {}]
CFM_Has(m, a) == \E p \in m.files : p[1] = a.json
CFM_Val(m, a) == (CHOOSE p \in m.files : p[1] = a.json)[2]
CFM_Step(m, op) ==
  CASE op.op = "call" ->
         IF op.arg.json = "#err" THEN [m |-> m, ret |-> NoneV, err |-> TRUE]                  \* json.dumps raises TypeError
         ELSE IF m.ext # "npy"
         THEN [m |-> [m EXCEPT !.evals = @ + 1, !.stray = @ \cup {op.arg.json}], ret |-> NoneV, err |-> TRUE]  \* np.save(name) writes name.npy ; np.load(name) fails
         ELSE IF CFM_Has(m, op.arg) THEN [m |-> m, ret |-> SomeV(CFM_Val(m, op.arg)), err |-> FALSE]
         ELSE LET v == <<op.arg.id, m.ver>> IN
              [m |-> [m EXCEPT !.files = @ \cup {<<op.arg.json, v>>}, !.evals = @ + 1], ret |-> SomeV(v), err |-> FALSE]
    [] op.op = "delete" -> [m |-> [m EXCEPT !.files = {p \in @ : p[1] # op.arg.json}], ret |-> NoneV, err |-> FALSE]
    [] op.op = "redefine" -> [m |-> [m EXCEPT !.ver = @ + 1], ret |-> NoneV, err |-> FALSE]
CFM_Obs(m, args) == [evals |-> m.evals, nfiles |-> Cardinality(m.files) + Cardinality(m.stray),
                     cached |-> [n \in 1..Len(args) |-> args[n].json # "#err" /\ CFM_Has(m, args[n])]]
\* which named deviations an operation can take
CF_Dev(m, op, args) ==
  IF op.op = "redefine" THEN {}
  ELSE (IF op.arg.json = "#err" THEN {"arg_not_json"} ELSE {})
       \cup (IF op.op = "call" /\ m.ext # "npy" THEN {"ext_not_npy"} ELSE {})
       \cup (IF \E n \in 1..Len(args) : args[n].id # op.arg.id /\ args[n].json = op.arg.json /\ op.arg.json # "#err"
             THEN {"json_alias"} ELSE {})

(***************************************************************************)
(*                               Stopwatch                                 *)
(* A node is the path of the open names (a sequence; printed joined by /). *)
(* tk = how much the clock advances by itself at every reading of the      *)
(* time (0: only the environment's tick moves it - the setting in which    *)
(* the ideal is defined).                                                  *)
(***************************************************************************)
SWI_New == [stack |-> <<>>, watch |-> <<>>, calls |-> 0, now |-> 0]
W_Has(w, path) == \E n \in 1..Len(w) : w[n].node = path
W_Idx(w, path) == CHOOSE n \in 1..Len(w) : w[n].node = path
SWI_Step(t, op) ==
  CASE op.op = "tick" -> [t |-> [t EXCEPT !.now = @ + op.d], err |-> FALSE]
    [] op.op = "start" ->
         LET path == Append(t.stack, op.name)
             w1 == IF W_Has(t.watch, path) THEN t.watch ELSE Append(t.watch, [node |-> path, laps |-> 0, time |-> 0, start |-> 0])
             k == W_Idx(w1, path)
         IN [t |-> [t EXCEPT !.stack = path, !.calls = @ + 1,
                             !.watch = [w1 EXCEPT ![k].laps = @ + 1, ![k].start = t.now]], err |-> FALSE]
    [] op.op = "stop" ->
         IF t.stack = <<>> \/ t.stack[Len(t.stack)] # op.name THEN [t |-> t, err |-> TRUE]     \* nodes are closed in the opposite order
         ELSE LET k == W_Idx(t.watch, t.stack) IN
              [t |-> [t EXCEPT !.stack = DropLast(@), !.calls = @ + 1,
                               !.watch = [@ EXCEPT ![k].time = @ + (t.now - t.watch[k].start), ![k].start = 0]], err |-> FALSE]
\* report: one row <<laps, time, node>> per node and the stopwatch's own row (its laps = start and stop calls, its time = overhead)
SW_Rows(watch, calls, overhead) == {<<calls, overhead, <<"stopwatch">>>>} \cup {<<watch[n].laps, watch[n].time, watch[n].node>> : n \in 1..Len(watch)}
\* sorted: the rows come in non-decreasing order of time ; ratio: the column Time/Lap is time / laps (evaluated by the harness on floats)
SWI_Obs(t) == [stack |-> t.stack, report |-> SomeV(SW_Rows(t.watch, t.calls, 0)), sorted |-> TRUE, ratio |-> TRUE]

SWM_New(tk) == [nodes |-> <<>>, watch |-> <<>>, laps |-> 0, time |-> 0, now |-> 0, tk |-> tk]      \* watch: _watches without 'stopwatch', in dict order
SWM_Step(m, op) ==
  LET c1 == m.now  c2 == m.now + m.tk  c3 == m.now + 2 * m.tk IN                                  \* the three readings of time.time()
  CASE op.op = "tick" -> [m |-> [m EXCEPT !.now = @ + op.d], err |-> FALSE]
    [] op.op = "start" ->
         LET path == Append(m.nodes, op.name)
             w1 == IF W_Has(m.watch, path) THEN m.watch ELSE Append(m.watch, [node |-> path, laps |-> 0, time |-> 0, start |-> 0])
             k == W_Idx(w1, path)
         IN [m |-> [m EXCEPT !.nodes = path, !.laps = @ + 1, !.time = @ + (c3 - c1), !.now = c3 + m.tk,
                             !.watch = [w1 EXCEPT ![k].laps = @ + 1, ![k].start = c2]], err |-> FALSE]
    [] op.op = "stop" ->
         IF m.nodes = <<>> \/ m.nodes[Len(m.nodes)] # op.name THEN [m |-> [m EXCEPT !.now = c2], err |-> TRUE]    \* raised after the first reading
         ELSE LET k == W_Idx(m.watch, m.nodes) IN
              [m |-> [m EXCEPT !.nodes = DropLast(@), !.laps = @ + 1, !.time = @ + (c3 - c1), !.now = c3 + m.tk,
                               !.watch = [@ EXCEPT ![k].time = @ + (c2 - m.watch[k].start), ![k].start = 0]], err |-> FALSE]
SWM_Obs(m) == [stack |-> m.nodes,
               report |-> IF m.laps = 0 THEN NoneV ELSE SomeV(SW_Rows(m.watch, m.laps, m.time)),    \* watch['time'] / watch['laps']
               sorted |-> TRUE, ratio |-> TRUE]
SW_DevNow(m) == IF m.laps = 0 THEN {"report_before_first_start"} ELSE {}

(***************************************************************************)
(*                              ProgressBar                                *)
(* A time text is [unit, num, den]: the number num/den printed with one    *)
(* decimal in the unit "s", "m" (num/den minutes) or "h".                  *)
(***************************************************************************)
\* IDEAL unit of x = num/den seconds
PBI_Text(num, den) == IF num >= 3600 * den THEN [unit |-> "h", num |-> num, den |-> den * 3600]
                      ELSE IF num >= 60 * den THEN [unit |-> "m", num |-> num, den |-> den * 60]
                      ELSE [unit |-> "s", num |-> num, den |-> den]
\* MACHINE: seconds*2.777777e-4 >= 1, seconds*1.666666e-2 >= 1 : true from just above 3600 / 60 seconds on
PBM_Text(num, den) == IF num > 3600 * den THEN [unit |-> "h", num |-> num, den |-> den * 3600]
                      ELSE IF num > 60 * den THEN [unit |-> "m", num |-> num, den |-> den * 60]
                      ELSE [unit |-> "s", num |-> num, den |-> den]
Fill(c, n) == (70 * c) \div n                                          \* floor(size * current / nsteps)

PBI_New(n, now) == [n |-> n, c |-> 0, t0 |-> now, now |-> now, stamps |-> <<now>>, info |-> FALSE, over |-> FALSE]
PBI_Step(t, op) ==
  CASE op.op = "tick" -> [t EXCEPT !.now = @ + op.d]
    [] op.op = "step" -> [t EXCEPT !.c = @ + 1, !.stamps = Append(@, t.now), !.info = op.info, !.over = @ \/ t.c + 1 > t.n]
    [] op.op = "close" -> [t EXCEPT !.c = t.n, !.stamps = Append(@, t.now), !.info = FALSE]
\* all steps so far took equally long
PB_Uniform(st) == \A a, b \in 1..(Len(st) - 1) : st[a + 1] - st[a] = st[b + 1] - st[b]
\* the line printed last, with the clock as it was when it was printed (stamps[1] = creation, last stamp = last print)
PBI_Obs(t) ==
  LET last == t.stamps[Len(t.stamps)]
      et == last - t.t0
      k == Len(t.stamps) - 1
  IN
  [cur |-> t.c, n |-> t.n, fill |-> Fill(t.c, t.n), info |-> t.info,
   et |-> PBI_Text(et, 1),
   \* the estimate of the total: decided where every reading agrees - nothing remains, or all steps were equally long
   tot |-> IF t.c = t.n \/ k = 0 THEN SomeV(PBI_Text(et, 1))
           ELSE IF k >= 2 /\ k = t.c /\ PB_Uniform(t.stamps) THEN SomeV(PBI_Text((t.stamps[2] - t.stamps[1]) * t.n, 1))
           ELSE NoneV]
PBI_Specified(t, op) == ~t.over /\ (op.op = "step" => t.c + 1 <= t.n)            \* more steps than announced: not documented

\* current, times (deque of at most 20 readings), the line printed last (computed when printed)
PBM_New(n, now) == [n |-> n, c |-> 0, t0 |-> now, now |-> now, times |-> <<now>>,
                    line |-> [cur |-> 0, n |-> n, fill |-> 0, info |-> FALSE, et |-> PBM_Text(0, 1), tot |-> PBM_Text(0, 1)]]
PBM_Info(m, c) ==
  LET et == m.now - m.t0  L == Len(m.times) IN
  IF L > 1 THEN [et |-> PBM_Text(et, 1),
                 tot |-> PBM_Text(et * (L - 1) + (m.times[L] - m.times[1]) * (m.n - c), L - 1)]     \* rt = mean(dt) * (nsteps - current)
  ELSE [et |-> PBM_Text(et, 1), tot |-> PBM_Text(et, 1)]
PBM_Print(m, c, info) ==
  LET x == PBM_Info(m, c)
      t2 == Append(m.times, m.now)
  IN [m EXCEPT !.c = c,
               !.line = [cur |-> c, n |-> m.n, fill |-> IF Fill(c, m.n) > 70 THEN 70 ELSE Fill(c, m.n),      \* pbar[:i] of a 70-character text
                         info |-> info, et |-> x.et, tot |-> x.tot],
               !.times = IF Len(t2) > 20 THEN Tail(t2) ELSE t2]
PBM_Step(m, op) ==
  CASE op.op = "tick" -> [m EXCEPT !.now = @ + op.d]
    [] op.op = "step" -> PBM_Print(m, m.c + 1, op.info)
    [] op.op = "close" -> PBM_Print(m, m.n, FALSE)                      \* self.current = self.nsteps - 1 ; self.step()
PBM_Obs(m) == m.line
\* exactly 60 s printed as seconds, exactly 60 min printed as minutes
AtBoundary(x) == x.unit \in {"s", "m"} /\ x.num = 60 * x.den
PB_DevNow(m) == IF AtBoundary(m.line.et) \/ AtBoundary(m.line.tot) THEN {"time_text_boundary"} ELSE {}

(***************************************************************************)
(*                              NormalizeData                              *)
(* Data arrays are sequences of integers; an axis setting is "none",       *)
(* "lin", "log" or "true".  Ranges are [minpos (option), min, max].        *)
(***************************************************************************)
Pos(S) == {x \in S : x > 0}
RangesOf(S) == [minpos |-> IF Pos(S) = {} THEN NoneV ELSE SomeV(SetMin(Pos(S))), min |-> SetMin(S), max |-> SetMax(S)]
NDI_New(xa, ya) == [xa |-> xa, ya |-> ya, items |-> <<>>]
NDI_Step(t, op) ==                                                        \* append(vdata, xdata, ydata); <<>> = not given
  IF (t.xa # "none" /\ op.x = <<>>) \/ (t.ya # "none" /\ op.y = <<>>) THEN [t |-> t, err |-> TRUE]
  ELSE [t |-> [t EXCEPT !.items = Append(@, [z |-> op.z, x |-> op.x, y |-> op.y])], err |-> FALSE]
NDI_All(t, f) == UNION {Range2(t.items[n][f]) : n \in 1..Len(t.items)}
NDI_Ranges(t, f, on) == IF ~on \/ t.items = <<>> THEN NoneV ELSE SomeV(RangesOf(NDI_All(t, f)))
OptMin(r, log) == IF log THEN r.minpos ELSE SomeV(r.min)
NDI_Extent(t, xlog, ylog) ==
  IF t.xa = "none" \/ t.ya = "none" \/ t.items = <<>> THEN NoneV
  ELSE LET xr == RangesOf(NDI_All(t, "x"))  yr == RangesOf(NDI_All(t, "y")) IN
       SomeV(<<OptMin(xr, xlog), SomeV(xr.max), OptMin(yr, ylog), SomeV(yr.max)>>)
NDI_Item(t, n) ==
  LET it == t.items[n] IN
  IF t.xa = "none" \/ t.ya = "none" THEN [z |-> it.z, extent |-> NoneV]                           \* the data alone
  ELSE LET xr == RangesOf(Range2(it.x))  yr == RangesOf(Range2(it.y)) IN
       [z |-> it.z, extent |-> SomeV(<<OptMin(xr, t.xa = "log"), SomeV(xr.max), OptMin(yr, t.ya = "log"), SomeV(yr.max)>>)]
NDI_Obs(t) ==
  [len |-> Len(t.items),
   zr |-> NDI_Ranges(t, "z", TRUE), xr |-> NDI_Ranges(t, "x", t.xa # "none"), yr |-> NDI_Ranges(t, "y", t.ya # "none"),
   lin |-> IF t.items = <<>> THEN NoneV ELSE SomeV(<<SetMin(NDI_All(t, "z")), SetMax(NDI_All(t, "z"))>>),
   ext |-> <<NDI_Extent(t, FALSE, FALSE), NDI_Extent(t, TRUE, FALSE), NDI_Extent(t, FALSE, TRUE), NDI_Extent(t, TRUE, TRUE)>>,
   \* items(): with an axis setting other than lin/log the documentation does not say what the extent is
   items |-> IF "true" \in {t.xa, t.ya} /\ "none" \notin {t.xa, t.ya} THEN NoneV
             ELSE SomeV(SomeV([n \in 1..Len(t.items) |-> NDI_Item(t, n)]))]

\* the RowCollector columns zdata zminpos zmin zmax [xminpos xmin xmax] [yminpos ymin ymax]
NDM_New(xa, ya) == [xa |-> xa, ya |-> ya, z |-> <<>>, zr |-> <<>>, xr |-> <<>>, yr |-> <<>>]
NDM_Step(m, op) ==
  IF (m.xa # "none" /\ op.x = <<>>) \/ (m.ya # "none" /\ op.y = <<>>) THEN [m |-> m, err |-> TRUE]      \* raised before _collector.append
  ELSE [m |-> [m EXCEPT !.z = Append(@, op.z), !.zr = Append(@, RangesOf(Range2(op.z))),
                        !.xr = IF m.xa # "none" THEN Append(@, RangesOf(Range2(op.x))) ELSE @,
                        !.yr = IF m.ya # "none" THEN Append(@, RangesOf(Range2(op.y))) ELSE @], err |-> FALSE]
\* np.nanmin over the per-item columns
NDM_Total(rs) ==
  LET mp == {rs[n].minpos[1] : n \in {q \in 1..Len(rs) : rs[q].minpos # <<>>}} IN
  [minpos |-> IF mp = {} THEN NoneV ELSE SomeV(SetMin(mp)),
   min |-> SetMin({rs[n].min : n \in 1..Len(rs)}), max |-> SetMax({rs[n].max : n \in 1..Len(rs)})]
NDM_Ranges(rs, on) == IF ~on \/ rs = <<>> THEN NoneV ELSE SomeV(NDM_Total(rs))                          \* no such column / empty column: raises
NDM_Extent(m, xlog, ylog) ==
  IF m.xa = "none" \/ m.ya = "none" \/ m.z = <<>> THEN NoneV
  ELSE LET xr == NDM_Total(m.xr)  yr == NDM_Total(m.yr) IN
       SomeV(<<OptMin(xr, xlog), SomeV(xr.max), OptMin(yr, ylog), SomeV(yr.max)>>)
NDM_Item(m, n) ==
  IF m.xa = "none" \/ m.ya = "none" THEN [z |-> m.z[n], extent |-> NoneV]
  ELSE [z |-> m.z[n], extent |-> SomeV(<<OptMin(m.xr[n], m.xa = "log"), SomeV(m.xr[n].max), OptMin(m.yr[n], m.ya = "log"), SomeV(m.yr[n].max)>>)]
NDM_Obs(m) ==
  [len |-> Len(m.z),
   zr |-> NDM_Ranges(m.zr, TRUE), xr |-> NDM_Ranges(m.xr, m.xa # "none"), yr |-> NDM_Ranges(m.yr, m.ya # "none"),
   lin |-> IF m.z = <<>> THEN NoneV ELSE SomeV(<<NDM_Total(m.zr).min, NDM_Total(m.zr).max>>),
   ext |-> <<NDM_Extent(m, FALSE, FALSE), NDM_Extent(m, TRUE, FALSE), NDM_Extent(m, FALSE, TRUE), NDM_Extent(m, TRUE, TRUE)>>,
   \* __getitem__ : the extent is assigned only for lin/log settings (otherwise UnboundLocalError, unless there is nothing to yield)
   items |-> IF "true" \in {m.xa, m.ya} /\ "none" \notin {m.xa, m.ya} /\ m.z # <<>> THEN NoneV
             ELSE SomeV([n \in 1..Len(m.z) |-> NDM_Item(m, n)])]
=============================================================================
