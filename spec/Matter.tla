------------------------------- MODULE Matter -------------------------------
(***************************************************************************)
(* C12: densities, volume and masses of matter.                            *)
(*                                                                         *)
(* IDEAL (from the property text only).  An object (element with a         *)
(* proportion, substance, material) has components with amounts a_i and    *)
(* masses m_i; one formula unit has the mass M1 = SUM a_i m_i.  Given a    *)
(* mass density rho or a number density n (and optionally a volume V):     *)
(*     rho = n M1      mass = rho V                                        *)
(*     n_i = a_i n     rho_i = a_i m_i n     M_i = rho_i V                 *)
(*     SUM rho_i = rho SUM M_i = mass                                      *)
(* in whatever compatible units rho, n, V were given - and again after a   *)
(* component that is already there was topped up by add(), and after the   *)
(* caller converted the reported quantities / density attributes in place  *)
(* to other units.  a_i is the given proportion (count, number fraction)   *)
(* or, for mass fractions, p_i / m_i up to a common factor - the           *)
(* obligations for that mode are written so that they do not depend on     *)
(* the factor.                                                             *)
(*                                                                         *)
(* MACHINE: transcription of Composite._norm (composite_mass), Element     *)
(* (composite_mass = mass of ONE atom), Matter._norm and                   *)
(* Matter.data_matter, with the physical dimension of composite_mass       *)
(* tracked, because Quantity.to() raises on a dimension mismatch.  Known   *)
(* deviations of the pinned tree show up as feature tags of the scenario:  *)
(*   mass_fraction_mode   composite_mass is a bare number in that mode, so *)
(*                        attaching any density raises                     *)
(*   element_proportion   an Element with proportion q # 1 uses the mass   *)
(*                        of one atom as formula-unit mass but q in rows   *)
(*   number_density_dict_form   a composite built from a dict is filled by *)
(*                        add(), which re-normalises after EVERY component:*)
(*                        the first _norm derives rho from the given n and *)
(*                        the mass of the first component only, and every  *)
(*                        later _norm takes that rho as the given quantity *)
(*                                                                         *)
(* TLC, on a rational model (p_i in PVals, m_i in MVals, density in DVals, *)
(* volume in VVals, 1 Da = 1/7 g): the obligations hold of the ideal; the  *)
(* machine satisfies them except under the named deviations; whatever the  *)
(* machine or a named mutation of it reports that differs from the ideal   *)
(* breaks an obligation.                                                   *)
(* Units enter as exact powers of ten.                                     *)
(***************************************************************************)
EXTENDS MatTerms, FiniteSets, Json

CONSTANTS MaxK, PVals, MVals, DVals, VVals, Emit, Mutants,
          Deviations,   \* named deviations of the pinned code that the machine reproduces (those with an open finding;
                        \* a repaired one is switched off and the machine then does what the repaired code does)
          KnownDevs     \* feature tags of the open known findings

CDa == <<1, 7>>                               \* model value of tab(unit, Da, g)
CTerm == Tab("unit", "Da", "g")
UExp(u) == CASE u = "g/cm3" -> 0 [] u = "kg/m3" -> -3
             [] u = "cm-3"  -> 0 [] u = "m-3"   -> -6
             [] u = "cm3"   -> 0 [] u = "l"     -> 3  [] u = "m3" -> 6 [] OTHER -> 0
DUnits(given) == IF given = "rho" THEN {"g/cm3", "kg/m3"} ELSE {"cm-3", "m-3"}
DStd(given)   == IF given = "rho" THEN "g/cm3" ELSE "cm-3"
VUnits == {"cm3", "l", "m3"}

---------------------------------------------------------------------------
\* values of one object: [raises, rho, n, mass, rn, rrho, rM] (std units g/cm3, cm-3, g)
\* nr is the number density the rows are computed from (= n unless a mutation says otherwise)
Vals(rho, n, nr, V, a, ms, hasV) ==
  LET k == Len(a)
      rn   == [i \in 1..k |-> QMul(a[i], nr)]
      rrho == [i \in 1..k |-> QMul(QMul(QMul(a[i], ms[i]), CDa), nr)]
  IN  [raises |-> FALSE, rho |-> rho, n |-> n, mass |-> IF hasV THEN QMul(rho, V) ELSE <<0, 1>>,
       rn |-> rn, rrho |-> rrho, rM |-> [i \in 1..k |-> IF hasV THEN QMul(rrho[i], V) ELSE <<0, 1>>]]
Raises == [raises |-> TRUE, rho |-> <<0, 1>>, n |-> <<0, 1>>, mass |-> <<0, 1>>, rn |-> <<>>, rrho |-> <<>>, rM |-> <<>>]

\* ideal
Amounts(o, ps, ms) == [i \in 1..Len(ps) |-> IF o.mode = "MASS_FRACTION" THEN QDiv(ps[i], ms[i]) ELSE ps[i]]
Ideal(o, ps, ms, d, v) ==
  LET a  == Amounts(o, ps, ms)
      M1 == QMul(CDa, QSumSeq([i \in 1..Len(ps) |-> QMul(a[i], ms[i])]))
      ds == QMul(d, QP10(UExp(o.ud)))
      V  == QMul(v, QP10(UExp(o.uv)))
  IN  IF o.given = "rho" THEN Vals(ds, QDiv(ds, M1), QDiv(ds, M1), V, a, ms, o.vol)
      ELSE Vals(QMul(ds, M1), ds, ds, V, a, ms, o.vol)

\* machine
\*   ps    the proportions of the components now
\*   pn    the proportions when Matter._norm last ran (= ps in the code as it is: add() always ends in _norm())
\*   ctx   what happened before the object is observed:
\*           "perturbed"  the caller has converted the density attributes in place (number density to m-3)
\*           "operand"    the object was the right operand of a sum, and its last component was topped up IN THE SUM
\*           "second"     another composite with the same components and the proportions pn was made before
\*           ""           nothing
QLe1(q) == q[1] <= q[2]
\* Substance._add_expr writes a count only when it is > 1: the expression texts of two proportion vectors coincide
SameText(a, b) == \A i \in 1..Len(a) : a[i] = b[i] \/ (QLe1(a[i]) /\ QLe1(b[i]))
Machine(o, ps, pn, ctx, ms, d, v, mut) ==
  LET k  == Len(ps)
      pert == ctx = "perturbed"
      pd == IF mut = "stale_matter_norm" THEN pn
            ELSE IF mut = "norm_cached_by_text" /\ ctx = "second" /\ SameText(ps, pn) THEN pn
            ELSE ps
      \* composite_mass after the first j components, and whether it is a mass
      cmj(j) == IF o.cls = "element"
                THEN (IF "element_proportion" \in Deviations THEN QMul(CDa, ms[1])       \* Element: self.mass, one atom
                      ELSE QMul(CDa, QMul(pd[1], ms[1])))
                ELSE IF o.mode = "MASS_FRACTION"
                THEN (IF "mass_fraction_mode" \in Deviations THEN QSumSeq(SubSeq(pd, 1, j))   \* np.sum(proportion): a bare number
                      ELSE QMul(CDa, QSumSeq(SubSeq(pd, 1, j))))                            \* repaired: the fractions as masses in Da
                ELSE QMul(CDa, QSumSeq([i \in 1..j |-> QMul(pd[i], ms[i])]))
      cm == cmj(k)
      isMass == o.cls = "element" \/ o.mode # "MASS_FRACTION" \/ "mass_fraction_mode" \notin Deviations
      \* the amount of a component in the rows: m.proportion; repaired mass-fraction mode: proportion / mass in Da
      amt(p) == IF o.cls # "element" /\ o.mode = "MASS_FRACTION" /\ "mass_fraction_mode" \notin Deviations
                THEN [i \in 1..k |-> QDiv(p[i], ms[i])] ELSE p
      ds == QMul(d, QP10(UExp(o.ud)))                                                   \* .to(standard unit)
      V  == IF mut = "volume_ignored" THEN <<1, 1>> ELSE QMul(v, QP10(UExp(o.uv)))
      \* Composite.__init__ with a dict: add() + _norm() per component.  The first _norm sets BOTH densities;
      \* from then on "if self.mass_density:" wins.  A text expression is normalised once, at the end.
      \* (repaired by remembering which density was given: then every _norm derives the other one afresh)
      incremental == "number_density_dict_form" \in Deviations /\ o.cls # "element" /\ o.form = "dict"
      rho == IF o.given = "rho" THEN ds
             ELSE IF mut = "rho_is_n" THEN ds
             ELSE IF incremental THEN QMul(ds, cmj(1)) ELSE QMul(ds, cm)
      n   == IF o.given = "rho" THEN QDiv(ds, cm)
             ELSE IF incremental THEN QDiv(rho, cm) ELSE ds
      a   == IF mut = "n_not_scaled" THEN [i \in 1..k |-> <<1, 1>>]                     \* rows use m.proportion
             ELSE IF mut = "operand_aliased" /\ ctx = "operand"                          \* ... of a Component the sum shares
             THEN amt([i \in 1..k |-> IF i = k THEN QAdd(ps[i], <<2, 1>>) ELSE ps[i]])
             ELSE amt(ps)
      \* data_matter multiplies the Quantity number_density (unit-aware); a mutation takes its bare number instead
      nr  == IF mut = "n_unit_blind" /\ pert THEN QMul(n, QP10(6)) ELSE n
      w   == Vals(rho, n, nr, V, a, ms, o.vol)
  IN  IF ~isMass THEN Raises                                                            \* Quantity.to(): unsupported conversion
      ELSE IF mut = "n_not_scaled"
           THEN [w EXCEPT !.rrho = [i \in 1..k |-> QMul(QMul(QMul(amt(ps)[i], ms[i]), CDa), n)],
                          !.rM = [i \in 1..k |-> IF o.vol THEN QMul(QMul(QMul(QMul(amt(ps)[i], ms[i]), CDa), n), V) ELSE <<0, 1>>]]
           ELSE w

---------------------------------------------------------------------------
ObjEnv(nm, w, ms, o) ==
     (("obs:" \o nm \o ".rho") :> w.rho) @@ (("obs:" \o nm \o ".n") :> w.n) @@ (("obs:" \o nm \o ".mass") :> w.mass)
  @@ EnvSeq("obs:" \o nm \o ".m.", ms, 1)
  @@ EnvSeq("obs:" \o nm \o ".row.n.", w.rn, 1) @@ EnvSeq("obs:" \o nm \o ".row.rho.", w.rrho, 1)
  @@ EnvSeq("obs:" \o nm \o ".row.M.", w.rM, 1)
  @@ (("obs:" \o nm \o ".sum.n") :> QSumSeq(w.rn)) @@ (("obs:" \o nm \o ".sum.rho") :> QSumSeq(w.rrho))
  @@ (("obs:" \o nm \o ".sum.M") :> QSumSeq(w.rM))

\* obligations on one object; props, d, v are the terms of its inputs
ObjObl(nm, o, props, d, v) ==
  LET k == Len(props)
      ob(f) == Obs(nm \o "." \o f)
      row(f, i) == Obs(nm \o ".row." \o f \o "." \o IStr(i))
      m(i) == Obs(nm \o ".m." \o IStr(i))
      SumOf(F(_)) == Sum([i \in 1..k |-> F(i)])
      number == o.cls = "element" \/ o.mode # "MASS_FRACTION"
      RECURSIVE PerN(_), PerR(_)
      PerN(i) == IF i > k THEN <<>> ELSE <<Approx("n_i = a_i n", row("n", i), Mul(props[i], ob("n")))>> \o PerN(i + 1)
      PerR(i) == IF i > k THEN <<>> ELSE
                 <<Approx("n_i ~ p_i/m_i", Mul(Mul(row("n", i), m(i)), props[1]), Mul(Mul(row("n", 1), m(1)), props[i]))>> \o PerR(i + 1)
  IN  << IF o.given = "rho" THEN Approx("rho as given (any unit)", ob("rho"), Mul(d, P10(UExp(o.ud))))
                            ELSE Approx("n as given (any unit)", ob("n"), Mul(d, P10(UExp(o.ud)))) >>
      \o (IF number
          THEN << Approx("rho = n M1", ob("rho"), Mul(ob("n"), Mul(CTerm, SumOf(LAMBDA i : Mul(props[i], m(i)))))) >> \o PerN(1)
          ELSE << Approx("rho = sum n_i m_i", ob("rho"), Mul(CTerm, SumOf(LAMBDA i : Mul(row("n", i), m(i))))) >> \o PerR(2))
      \o << Approx("sum rho_i = rho", SumOf(LAMBDA i : row("rho", i)), ob("rho")) >>
      \o (IF o.cls # "element" THEN << Approx("row sum.rho = rho", ob("sum.rho"), ob("rho")) >> ELSE <<>>)
      \o (IF o.vol
          THEN << Approx("mass = rho V", ob("mass"), Mul(ob("rho"), Mul(v, P10(UExp(o.uv))))),
                  Approx("sum M_i = mass", SumOf(LAMBDA i : row("M", i)), ob("mass")) >>
               \o (IF o.cls # "element" THEN << Approx("row sum.M = mass", ob("sum.M"), ob("mass")) >> ELSE <<>>)
          ELSE <<>>)

SameObl(label, a, b, o, k) ==
  LET s(f) == Approx(label \o ": same " \o f, Obs(b \o "." \o f), Obs(a \o "." \o f))
      RECURSIVE Per(_)
      Per(i) == IF i > k THEN <<>> ELSE
                << s("row.n." \o IStr(i)), s("row.rho." \o IStr(i)) >> \o (IF o.vol THEN << s("row.M." \o IStr(i)) >> ELSE <<>>) \o Per(i + 1)
  IN  << s("rho"), s("n") >> \o (IF o.vol THEN << s("mass") >> ELSE <<>>) \o Per(1)

\* the second object of a "units" scenario: the same physical inputs written in other units
OtherObj(o) == [o EXCEPT !.ud = o.ud2, !.uv = o.uv2]
(***************************************************************************)
(* The objects of a scenario in the order the harness makes and observes   *)
(* them.  how: build (from props, then steps add(component i, q)) |        *)
(* perturb (the object of[1] after the caller converted every quantity it  *)
(* reports or holds as an attribute, in place, to another unit) | sum      *)
(* (of[1] + of[2], then steps) | again (of[1] observed once more).         *)
(* silent objects carry no density and are not observed; an object has the *)
(* first Len(eff) components.                                              *)
(***************************************************************************)
JOf(o, k) == IF o.j = 1 THEN 1 ELSE k
EffTerms(o, k) == LET props == [i \in 1..k |-> Inp("A.p." \o IStr(i))]
                  IN  IF o.kind = "add_existing" THEN [i \in 1..k |-> IF i = JOf(o, k) THEN Add(props[i], Inp("A.q")) ELSE props[i]]
                      ELSE props
Objects(o, k) ==
  LET props == [i \in 1..k |-> Inp("A.p." \o IStr(i))]
      pB    == [i \in 1..k |-> Inp("B.p." \o IStr(i))]
      A == [name |-> "A", how |-> "build", of |-> <<>>, silent |-> FALSE, cls |-> o.cls, mode |-> o.mode, form |-> o.form,
            props |-> props, eff |-> EffTerms(o, k),
            steps |-> IF o.kind = "add_existing" THEN <<[i |-> JOf(o, k), q |-> Inp("A.q")]>> ELSE <<>>,
            given |-> o.given, vol |-> o.vol, d |-> Inp("A.d"), ud |-> o.ud, v |-> Inp("A.v"), uv |-> o.uv]
  IN  CASE o.kind = "units" ->
             <<A, [A EXCEPT !.name = "B", !.ud = o.ud2, !.uv = o.uv2,
                            !.d = Mul(Inp("A.d"), P10(UExp(o.ud) - UExp(o.ud2))),
                            !.v = Mul(Inp("A.v"), P10(UExp(o.uv) - UExp(o.uv2)))]>>
        [] o.kind = "perturbed" -> <<A, [A EXCEPT !.name = "P", !.how = "perturb", !.of = <<"A">>]>>
        \* another composite of the same components, made afterwards in the same process
        [] o.kind = "second" -> <<A, [A EXCEPT !.name = "B", !.props = pB, !.eff = pB]>>
        \* L (without density, lacking A's last component) + A, then the sum's last component is topped up; A again
        [] o.kind = "sum_then_add" ->
             << A,
                [A EXCEPT !.name = "L", !.silent = TRUE, !.given = "", !.vol = FALSE,
                          !.props = SubSeq(props, 1, k - 1), !.eff = SubSeq(props, 1, k - 1)],
                [A EXCEPT !.name = "R", !.how = "sum", !.of = <<"L", "A">>, !.silent = TRUE, !.given = "", !.vol = FALSE,
                          !.props = <<>>, !.steps = <<[i |-> k, q |-> Inp("A.q")]>>],
                [A EXCEPT !.name = "A2", !.how = "again", !.of = <<"A">>] >>
        [] OTHER -> <<A>>
Obligations(o, k) ==
  LET objs == Objects(o, k) IN
  ObjObl("A", o, EffTerms(o, k), objs[1].d, objs[1].v)
  \o (CASE o.kind = "units" -> ObjObl("B", OtherObj(o), objs[2].props, objs[2].d, objs[2].v) \o SameObl("units", "A", "B", o, k)
         [] o.kind = "perturbed" -> ObjObl("P", o, objs[2].props, objs[2].d, objs[2].v)
                                    \o SameObl("unit of a reported quantity changed", "A", "P", o, k)
         [] o.kind = "second" -> ObjObl("B", o, objs[2].props, objs[2].d, objs[2].v)
         [] o.kind = "sum_then_add" -> ObjObl("A2", o, objs[1].props, objs[1].d, objs[1].v)
                                       \o SameObl("operand unchanged after the sum was changed", "A", "A2", o, k)
         [] OTHER -> <<>>)

\* F(o, ps, pn, ctx, ms, d, v) yields the values (ideal or machine); raises propagates
QAdded == <<2, 1>>                                \* model value of inp(A.q)
ScVals(o, ps, ms, d, v, F(_, _, _, _, _, _, _)) ==
  CASE o.kind = "units" ->
         <<F(o, ps, ps, "", ms, d, v),
           F(OtherObj(o), ps, ps, "", ms, QMul(d, QP10(UExp(o.ud) - UExp(o.ud2))), QMul(v, QP10(UExp(o.uv) - UExp(o.uv2))))>>
    [] o.kind = "add_existing" ->
         <<F(o, [i \in 1..Len(ps) |-> IF i = JOf(o, Len(ps)) THEN QAdd(ps[i], QAdded) ELSE ps[i]], ps, "", ms, d, v)>>
    [] o.kind = "perturbed" -> <<F(o, ps, ps, "", ms, d, v), F(o, ps, ps, "perturbed", ms, d, v)>>
    [] o.kind = "second" -> <<F(o, ps, ps, "", ms, d, v), F(o, [i \in 1..Len(ps) |-> QDiv(ps[i], <<2, 1>>)], ps, "second", ms, d, v)>>
    [] o.kind = "sum_then_add" -> <<F(o, ps, ps, "", ms, d, v), F(o, ps, ps, "operand", ms, d, v)>>
    [] OTHER -> <<F(o, ps, ps, "", ms, d, v)>>
ScRaises(ws) == \E i \in 1..Len(ws) : ws[i].raises
ScEnv(o, ps, ms, d, v, ws) ==
  LET base == EnvSeq("inp:A.p.", ps, 1) @@ EnvSeq("inp:B.p.", [i \in 1..Len(ps) |-> QDiv(ps[i], <<2, 1>>)], 1) @@ ("inp:A.d" :> d) @@ ("inp:A.v" :> v) @@ ("inp:A.q" :> QAdded) @@ (TabKey(CTerm) :> CDa)
             @@ ObjEnv("A", ws[1], ms, o)
  IN  IF Len(ws) = 1 THEN base
      ELSE IF o.kind = "units" THEN base @@ ObjEnv("B", ws[2], ms, OtherObj(o))
      ELSE IF o.kind = "second" THEN base @@ ObjEnv("B", ws[2], ms, o)
      ELSE IF o.kind = "sum_then_add" THEN base @@ ObjEnv("A2", ws[2], ms, o)
      ELSE base @@ ObjEnv("P", ws[2], ms, o)

---------------------------------------------------------------------------
NoSc == [kind |-> "none", cls |-> "", mode |-> "", form |-> "", given |-> "", vol |-> FALSE, ud |-> "", uv |-> "", ud2 |-> "", uv2 |-> "", j |-> 0, ep |-> <<1, 1>>]
\* <<class, mode, form>> ; form: how the components are given - "dict" (filled by add()) or "text" (an expression)
ClsModes == {<<"element", "NUMBER", "text">>} \cup {<<"substance", "NUMBER", f>> : f \in {"dict", "text"}}
            \cup {<<"material", md, f>> : md \in {"NUMBER", "NUMBER_FRACTION", "MASS_FRACTION"}, f \in {"dict", "text"}}
Scenarios ==
  LET base == {[kind |-> "single", cls |-> c[1], mode |-> c[2], form |-> c[3], given |-> g, vol |-> FALSE, ud |-> u, uv |-> "", ud2 |-> "", uv2 |-> "", j |-> 0, ep |-> <<1, 1>>] :
                  c \in ClsModes, g \in {"rho", "n"}, u \in {"g/cm3", "kg/m3", "cm-3", "m-3"}}
              \cup {[kind |-> "single", cls |-> c[1], mode |-> c[2], form |-> c[3], given |-> g, vol |-> TRUE, ud |-> u, uv |-> w, ud2 |-> "", uv2 |-> "", j |-> 0, ep |-> <<1, 1>>] :
                  c \in ClsModes, g \in {"rho", "n"}, u \in {"g/cm3", "kg/m3", "cm-3", "m-3"}, w \in VUnits}
      \* a stand-alone Element holds q atoms per formula unit: whole (O2), sub-unit and other fractional amounts
      EProps == {<<1, 1>>, <<2, 1>>, <<1, 2>>, <<1, 4>>, <<3, 2>>}
      single0 == {s \in base : s.ud \in DUnits(s.given)}
      single == {s \in single0 : s.cls # "element"} \cup {[s EXCEPT !.ep = q] : s \in {t \in single0 : t.cls = "element"}, q \in EProps}
      \* the same inputs in standard units (A) and in any other combination of units (B)
      pairs == {[s EXCEPT !.kind = "units", !.ud2 = s.ud, !.uv2 = s.uv, !.ud = DStd(s.given), !.uv = IF s.vol THEN "cm3" ELSE ""] :
                  s \in {t \in single : t.ud # DStd(t.given) \/ (t.vol /\ t.uv # "cm3")}}
      \* histories: standard units, and the other density unit together with litres
      hist == {t \in single : (t.ud = DStd(t.given) /\ t.uv \in {"", "cm3"}) \/ (t.ud # DStd(t.given) /\ t.uv \in {"", "l"})}
      \* a component that is already there is topped up after construction (the first / the last one)
      adds == {[t EXCEPT !.kind = "add_existing", !.j = jj] : t \in {u \in hist : u.cls # "element"}, jj \in {1, 2}}
      \* the caller converts what the object reports / holds, in place, to other units
      perts == {[t EXCEPT !.kind = "perturbed"] : t \in hist}
      \* histories of several composites in one process
      seconds == {[t EXCEPT !.kind = "second"] : t \in {u \in hist : u.cls # "element"}}
      sumadds == {[t EXCEPT !.kind = "sum_then_add", !.j = 2] : t \in {u \in hist : u.cls # "element"}}
  IN  single \cup pairs \cup adds \cup perts \cup seconds \cup sumadds

VARIABLES comps, sc, dv
Init == comps = <<>> /\ sc = NoSc /\ dv = <<0, 0>>
Next == /\ sc = NoSc
        /\ \/ Len(comps) < MaxK /\ \E p \in PVals, m \in MVals : comps' = Append(comps, [p |-> p, m |-> m]) /\ UNCHANGED <<sc, dv>>
           \/ /\ Len(comps) >= 1
              /\ \E s \in Scenarios, d \in DVals, v \in VVals :
                    /\ s.cls = "element" => (Len(comps) = 1 /\ \A x \in PVals : comps[1].p <= x)   \* its proportion is s.ep
                    /\ s.j = 2 => Len(comps) >= 2
                    /\ sc' = s /\ dv' = <<d, v>>
              /\ UNCHANGED comps

K  == Len(comps)
Ps == IF sc.cls = "element" THEN <<sc.ep>> ELSE [i \in 1..K |-> QI(comps[i].p)]
Ms == [i \in 1..K |-> QI(comps[i].m)]
Ideal5(o, ps, pn, ctx, ms, d, v) == Ideal(o, ps, ms, d, v)
Mach5(o, ps, pn, ctx, ms, d, v)  == Machine(o, ps, pn, ctx, ms, d, v, "")

DevTags(o, ps) == (IF o.cls = "material" /\ o.mode = "MASS_FRACTION" /\ "mass_fraction_mode" \in Deviations THEN {"mass_fraction_mode"} ELSE {})
                  \cup (IF o.cls = "element" /\ ps[1] # <<1, 1>> THEN {"element_proportion"} ELSE {})
                  \cup (IF o.cls # "element" /\ o.form = "dict" /\ o.given = "n" /\ Len(ps) >= 2 THEN {"number_density_dict_form"} ELSE {})
Tags(o, k, ps) == {o.kind, o.cls, o.mode, "form_" \o o.form, "given_" \o o.given, IF o.vol THEN "volume" ELSE "no_volume", "k" \o IStr(k)} \cup DevTags(o, ps)

Record == [kind |-> sc.kind, cls |-> sc.cls, mode |-> sc.mode, k |-> K, given |-> sc.given, vol |-> sc.vol, j |-> sc.j,
           p |-> [i \in 1..K |-> comps[i].p], ep |-> sc.ep, d |-> dv[1], v |-> dv[2],
           \* may the harness re-draw the proportions?  (an element's proportion decides which scenario it is)
           pfree |-> sc.cls # "element",
           \* a Substance written as a formula has integer counts
           pint |-> sc.cls = "substance" /\ sc.form = "text",
           form |-> sc.form,
           objects |-> Objects(sc, K), obl |-> Obligations(sc, K), tags |-> Tags(sc, K, Ps),
           machine_raises |-> ScRaises(ScVals(sc, Ps, Ms, QI(dv[1]), QI(dv[2]), Mach5))]

OblNow == Obligations(sc, K)
DNow == QI(dv[1])
VNow == QI(dv[2])
WIdeal == ScVals(sc, Ps, Ms, DNow, VNow, Ideal5)
WMach  == ScVals(sc, Ps, Ms, DNow, VNow, Mach5)
\* the obligations are theorems of the ideal
SoundIdeal   == sc # NoSc => AllHoldQ(OblNow, ScEnv(sc, Ps, Ms, DNow, VNow, WIdeal))
\* the machine refines, up to the known deviations
SoundMachine == sc # NoSc => \/ DevTags(sc, Ps) \cap KnownDevs # {}
                              \/ (~ScRaises(WMach) /\ AllHoldQ(OblNow, ScEnv(sc, Ps, Ms, DNow, VNow, WMach)))
\* The obligations pin the observables down: whatever the machine or one of its named mutations reports, if it is
\* not what the ideal reports then some obligation fails (so the obligations are not vacuous, and a coincidence of
\* the model - a mutation that happens to compute the ideal values - is not held against them).
Complete ==
  sc # NoSc =>
    \A mu \in Mutants \cup {""} :
        LET MutF(o, ps, pn, ctx, ms, dd, vv) == Machine(o, ps, pn, ctx, ms, dd, vv, mu)
            wx == ScVals(sc, Ps, Ms, DNow, VNow, MutF)
        IN  (~ScRaises(wx) /\ wx # WIdeal) => ~AllHoldQ(OblNow, ScEnv(sc, Ps, Ms, DNow, VNow, wx))
EmitRec ==
  (sc # NoSc /\ Emit /\ dv = <<CHOOSE x \in DVals : TRUE, CHOOSE x \in VVals : TRUE>>
          /\ \A i \in 1..K : comps[i].m = ((i - 1) % Cardinality(MVals)) + 1) => PrintT(ToJson(Record))
Sound == SoundIdeal /\ SoundMachine /\ Complete /\ EmitRec
=============================================================================
