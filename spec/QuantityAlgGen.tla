--------------------------- MODULE QuantityAlgGen ---------------------------
(***************************************************************************)
(* C06 - scenario source and design-level lemmas for QuantityAlg.          *)
(*                                                                         *)
(* Source = "enum": every reachable final state is one scenario            *)
(*   operand pair over the exact-ratio units x values x operator x operand *)
(*   order x plain-number side x exponent form; TLC computes the ideal's   *)
(*   expectation (exponent map, dimension, base-dimension value exactly    *)
(*   and as a term) and checks the lemmas on the rational model.           *)
(* Source = "file": scenarios over arbitrary linear table units drawn by   *)
(*   the harness (env QALG_IN: {units: {id: {dim, fac}}, scenarios: [..]});*)
(*   TLC classifies them and emits the same record with terms only.        *)
(***************************************************************************)
EXTENDS QuantityAlg, Json, IOUtils, TLC

CONSTANTS Source, Emit,
          FixedDevs      \* named deviations repaired in the tree (from the fixed entries of known_findings)

FileIn == IF Source = "file" THEN JsonDeserialize(IOEnv.QALG_IN) ELSE [units |-> <<>>, scenarios |-> <<>>]
FileUnits == FileIn.units
FileScen == FileIn.scenarios
NFile == Len(FileScen)
Stride == 64

VARIABLES stage, sc, idx
vars == <<stage, sc, idx>>

EnumUnits == { <<>>, X1("m"), X1("c:m"), X1("k:m"), X1("s"), X1("m:s"), X1("g"), X1("k:g"), X1("%"),
               << [u |-> "m", e |-> ROne], [u |-> "s", e |-> RInt(-1)] >>, XP("c:m", 2),
               XP("s", -1), X1("rad"),           \* inverse dimension of s; the unit a bare number converts to
               << [u |-> "%", e |-> ROne], [u |-> "k:m", e |-> ROne] >> }   \* a dimensionless named unit that stays when km cancels
Vals == {RInt(-2), RZero, ROne, RInt(3)}
Dummy == [v |-> ROne, ex |-> <<>>]

\* <<form, literal as written, rational it denotes>>
PowCases ==
  { <<"int", <<2>>, RInt(2)>>, <<"int", <<-1>>, RInt(-1)>>, <<"int", <<3>>, RInt(3)>>, <<"int", <<0>>, RZero>>,
    <<"pair", <<1, 2>>, R(1, 2)>>, <<"pair", <<3, 2>>, R(3, 2)>>, <<"pair", <<2, 4>>, R(1, 2)>>,
    <<"pair", <<-1, 2>>, R(-1, 2)>>, <<"pair", <<2, 1>>, RInt(2)>>, <<"pair", <<1, 3>>, R(1, 3)>>,
    <<"float", <<2, 1>>, RInt(2)>>, <<"float", <<-1, 1>>, RInt(-1)>>, <<"float", <<1, 2>>, R(1, 2)>>,
    <<"float", <<3, 2>>, R(3, 2)>>, <<"float", <<-1, 2>>, R(-1, 2)>>, <<"float", <<1, 3>>, R(1, 3)>>,
    <<"fraction", <<1, 2>>, R(1, 2)>>, <<"fraction", <<2, 1>>, RInt(2)>>,
    \* the same numbers as NumPy scalars (an element of an array, the result of a NumPy computation)
    <<"np.float64", <<1, 2>>, R(1, 2)>>, <<"np.float64", <<3, 2>>, R(3, 2)>>, <<"np.float64", <<-1, 2>>, R(-1, 2)>>,
    <<"np.float64", <<2, 1>>, RInt(2)>>, <<"np.float32", <<1, 2>>, R(1, 2)>>, <<"np.float32", <<1, 4>>, R(1, 4)>>,
    <<"np.int64", <<2>>, RInt(2)>>, <<"np.int64", <<-1>>, RInt(-1)>>,
    <<"np.power", <<2>>, RInt(2)>>, <<"np.power", <<1, 2>>, R(1, 2)>>,
    <<"np.sqrt", <<>>, R(1, 2)>>, <<"np.cbrt", <<>>, R(1, 3)>> }

\* num: how a plain number is written ("py": Python int/float/list, "np": numpy.float64 / ndarray, "-": no plain number)
ScenN(op, side, num, form, lit, n, a, b) ==
  [op |-> op, side |-> side, num |-> num, form |-> form, lit |-> lit, n |-> n, a |-> a, b |-> b]
Scen(op, side, form, lit, n, a, b) == ScenN(op, side, "-", form, lit, n, a, b)

\* the scenarios of one operand-unit pair
Expand(ua, ub) ==
  {Scen(op, "qq", "-", <<>>, ROne, [v |-> va, ex |-> ua], [v |-> vb, ex |-> ub]) :
      op \in BinOps, va \in Vals, vb \in Vals}
  \cup {Scen(op, "qq", "-", <<>>, ROne, [v |-> va, ex |-> ua], [v |-> vb, ex |-> ub]) :
          op \in SpaceOps, va \in Vals, vb \in Vals}
  \cup (IF ub = <<>> THEN
          {ScenN(op, "qn", "py", "-", <<>>, ROne, [v |-> va, ex |-> ua], [v |-> vb, ex |-> <<>>]) :
              op \in SpaceOps, va \in Vals, vb \in Vals}
          \cup
          {ScenN(op, "qn", num, "-", <<>>, ROne, [v |-> va, ex |-> ua], [v |-> vb, ex |-> <<>>]) :
              op \in BinOps, va \in Vals, vb \in Vals, num \in {"py", "np"}}
          \cup {Scen("neg", "q", "-", <<>>, ROne, [v |-> va, ex |-> ua], Dummy) : va \in Vals}
          \cup {Scen("pow", "q", pc[1], pc[2], pc[3], [v |-> va, ex |-> ua], Dummy) : pc \in PowCases, va \in Vals}
        ELSE {})
  \cup (IF ua = <<>> THEN
          {ScenN(op, "nq", "py", "-", <<>>, ROne, [v |-> va, ex |-> <<>>], [v |-> vb, ex |-> ub]) :
              op \in SpaceOps, va \in Vals, vb \in Vals}
          \cup
          {ScenN(op, "nq", num, "-", <<>>, ROne, [v |-> va, ex |-> <<>>], [v |-> vb, ex |-> ub]) :
              op \in BinOps, va \in Vals, vb \in Vals, num \in {"py", "np"}}
        ELSE {})

Init == IF Source = "enum" THEN stage = 0 /\ sc = Scen("neg", "q", "-", <<>>, ROne, Dummy, Dummy) /\ idx = 0
        ELSE /\ stage = 2 /\ idx \in 1..(IF NFile < Stride THEN NFile ELSE Stride) /\ sc = FileScen[idx]

Next ==
  IF Source = "enum" THEN
       \/ /\ stage = 0 /\ stage' = 1 /\ idx' = idx
          /\ \E ua \in EnumUnits, ub \in EnumUnits : sc' = Scen("pair", "-", "-", <<>>, ROne, [v |-> ROne, ex |-> ua], [v |-> ROne, ex |-> ub])
       \/ /\ stage = 1 /\ stage' = 2 /\ idx' = idx
          /\ sc' \in Expand(sc.a.ex, sc.b.ex)
  ELSE /\ idx + Stride <= NFile /\ idx' = idx + Stride /\ sc' = FileScen[idx'] /\ stage' = 2

-----------------------------------------------------------------------------
\* a plain number given to linspace / logspace is read in the units the quantity argument carries (cancellation applied)
EffA(s) == IF s.op \in SpaceOps /\ s.side = "nq" THEN [v |-> s.a.v, ex |-> NEx(s.b)] ELSE s.a
EffB(s) == IF s.op \in SpaceOps /\ s.side = "qn" THEN [v |-> s.b.v, ex |-> NEx(s.a)] ELSE s.b
Class(s) == IF Unspecified(s.op, EffA(s), EffB(s), s.n) THEN "unspecified"
            ELSE IF Refused(s.op, EffA(s), EffB(s)) THEN "refused" ELSE "ok"

Record(s) ==
  LET c == Class(s)
      ex == IF c = "ok" THEN ResEx(s.op, EffA(s), EffB(s), s.n) ELSE <<>>
      bt == IF c = "ok" THEN ResBaseT(s.op, EffA(s), EffB(s), s.n) ELSE TQ(RZero)
      sp == c = "ok" /\ s.op \in SpaceOps
  IN [id |-> idx, op |-> s.op, side |-> s.side, num |-> s.num, form |-> s.form, lit |-> s.lit, n |-> s.n, a |-> s.a, b |-> s.b,
      cls |-> c, ex |-> ex, dim |-> IF c = "ok" THEN Dim(ex) ELSE <<>>,
      base |-> bt, val |-> TDiv(bt, TFac(ex)),
      seqb |-> IF sp THEN [k \in 1..SpaceN |-> SpaceBaseT(s.op, EffA(s), EffB(s), k - 1, ex)] ELSE <<>>,
      seqv |-> IF sp THEN [k \in 1..SpaceN |-> SpaceValT(s.op, EffA(s), EffB(s), k - 1, ex)] ELSE <<>>,
      exact |-> IF c = "ok" /\ Source = "enum" /\ ResExactOK(s.op, s.a, s.b, s.n)
                THEN ResBaseQ(s.op, s.a, s.b, s.n) ELSE <<>>,
      machex |-> IF c = "ok" /\ s.op = "pow" THEN MachPowEx(NEx(s.a), s.n, s.form, FixedDevs) ELSE ex,
      tags |-> (IF c = "ok" /\ s.op = "pow" THEN PowTags(s.a, s.n, s.form, FixedDevs) ELSE {}) \cup DispatchTags(s.side, s.num, FixedDevs)]

EmitInv == (stage = 2 /\ Emit) => PrintT(ToJson(Record(sc)))

-----------------------------------------------------------------------------
\* lemmas on the rational model (enumeration only)
VecAdd(x, y) == [k \in 1..NDim |-> RAdd(x[k], y[k])]
VecScale(x, n) == [k \in 1..NDim |-> RMul(x[k], n)]

Lemmas ==
  (stage = 2 /\ Source = "enum" /\ Class(sc) = "ok") =>
    LET a == sc.a  b == sc.b  n == sc.n  op == sc.op
        exq == ResExactOK(op, a, b, n)
    IN
    \* commutativity of + and . in base value; a-b = a+(-b)
    /\ (op \in {"add", "mul"} /\ exq) => ResBaseQ(op, a, b, n) = ResBaseQ(op, b, a, n)
    /\ (op = "sub" /\ exq) => ResBaseQ("sub", a, b, n) = RAdd(BaseQ(a), RNeg(BaseQ(b)))
    \* (a/b).b = a in value and in units
    /\ (op = "div" /\ exq) => RMul(ResBaseQ("div", a, b, n), BaseQ(b)) = BaseQ(a)
    /\ (op = "div") => ExSame(ExMerge(ExMerge(a.ex, b.ex, -1), b.ex, 1), a.ex)
    \* dimensions: product adds, quotient subtracts, power scales; cancellation keeps the dimension
    /\ (op = "mul") => Dim(ResEx(op, a, b, n)) = VecAdd(Dim(a.ex), Dim(b.ex))
    /\ (op = "div") => Dim(ResEx(op, a, b, n)) = VecAdd(Dim(a.ex), VecScale(Dim(b.ex), RInt(-1)))
    /\ (op = "pow") => Dim(ResEx(op, a, b, n)) = VecScale(Dim(a.ex), n)
    /\ (op \in {"add", "sub"}) => Dim(ResEx(op, a, b, n)) = Dim(b.ex)
    \* (a**n)**(1/n) restores the units; a**2 = a.a
    /\ (op = "pow" /\ ~RIsZero(n)) => ExSame(ExScale(ExScale(a.ex, n), RInv(n)), a.ex)
    /\ (op = "pow" /\ n = RInt(2) /\ exq) => ResBaseQ(op, a, b, n) = RMul(BaseQ(a), BaseQ(a))
    \* cancellation: dimensionless results carry only dimensionless named units
    /\ LET ex == ResEx(op, a, b, n) IN ZeroDim(ex) => \A i \in DOMAIN ex : ~UnitDimensional(ex[i].u)
    \* linspace / logspace keep the units of the first quantity argument; both end points have its dimension
    /\ (op \in SpaceOps) => Dim(ResEx(op, EffA(sc), EffB(sc), n)) = Dim(EffB(sc).ex)
    \* the transcribed exponent scaling agrees with the ideal except for non-integral float products
    /\ (op = "pow" /\ ~FloatForm(sc.form, n)) => PowTags(a, n, sc.form, {}) = {}
    /\ (op = "pow" /\ RIsInt(n)) => PowTags(a, n, sc.form, {}) = {}
    \* with the deviation repaired the transcription is the ideal
    /\ (op = "pow") => PowTags(a, n, sc.form, {"float_exponent_truncated", "npfloat32_exponent_truncated"}) = {}

Spec == Init /\ [][Next]_vars
=============================================================================
