---------------------------- MODULE FractionDim ----------------------------
(***************************************************************************)
(* Growth of the units specification beyond the listed properties (DESIGN  *)
(* section 6): the exponent arithmetic every unit expression rests on -     *)
(* classes Fraction and Dimensions (units/fraction.py, units/dimensions.py) *)
(* as documented in docs/source/units/quantities.rst, "Fractional           *)
(* exponents" and "Dimensions".                                            *)
(*                                                                         *)
(* IDEAL.  A Fraction denotes the rational num/den.  It is displayed "in   *)
(* the most basic form": reduced, sign on the numerator, only the          *)
(* numerator when the denominator is one, "0" when the numerator is zero;  *)
(* value() is that basic form as an int or a (num, den) pair; + - * / and  *)
(* unary minus are those of the rationals whether the other operand is a   *)
(* Fraction, a (num, den) tuple, an int or - for * and / - a float that    *)
(* denotes a small rational; == is equality of the rationals.  What a      *)
(* Fraction reports depends on the rational it denotes only - never on     *)
(* how it was constructed or on what was asked of the object before.       *)
(* A Dimensions object is the vector of its components, all operations     *)
(* component-wise; nodim holds iff every component is zero.                *)
(*                                                                         *)
(* MACHINE.  A Fraction is a mutable cell <<num, den>> that is NOT kept    *)
(* normalised: the operators build raw cells (a*d+c*b, b*d) and rebase()   *)
(* - zero reset, sign to the top, recursive division by np.gcd - is run by *)
(* __str__/__repr__ and by value(tuple) IN PLACE, i.e. printing an object  *)
(* changes its fields.  value() looks at the raw fields first               *)
(* (`if self.num==0 or self.den==1: return self.num`), so a cell such as   *)
(* 4/2 or 3/-1 reports (2, 1) / (-3, 1) instead of 2 / -3 - the named      *)
(* deviation "value-not-normalised" (switched off by ValueNormalises).     *)
(* Because __str__ normalises in place, the same object reports 2 after it *)
(* was printed: the observation is history dependent, which is what the    *)
(* state machine below exhibits (invariant HistoryIndependent fails with   *)
(* ValueNormalises = FALSE and holds with TRUE).                           *)
(*                                                                         *)
(* Cells with a zero denominator and division by a zero rational are       *)
(* outside the documentation: not generated.                               *)
(***************************************************************************)
EXTENDS Integers, Sequences, FiniteSets, TLC

CONSTANT ValueNormalises

Abs(x) == IF x < 0 THEN -x ELSE x
RECURSIVE Gcd(_, _)
Gcd(a, b) == IF b = 0 THEN a ELSE Gcd(b, a % b)          \* on naturals

(* ------------------------------ ideal ---------------------------------- *)
Norm(p) == IF p[1] = 0 THEN <<0, 1>>
           ELSE LET g == Gcd(Abs(p[1]), Abs(p[2]))
                    s == IF p[2] < 0 THEN -1 ELSE 1
                IN <<(s * p[1]) \div g, (s * p[2]) \div g>>
IAdd(a, b) == Norm(<<a[1] * b[2] + b[1] * a[2], a[2] * b[2]>>)
ISub(a, b) == Norm(<<a[1] * b[2] - b[1] * a[2], a[2] * b[2]>>)
IMul(a, b) == Norm(<<a[1] * b[1], a[2] * b[2]>>)
IDiv(a, b) == Norm(<<a[1] * b[2], a[2] * b[1]>>)          \* b # 0
INeg(a)    == Norm(<<-a[1], a[2]>>)
IEq(a, b)  == Norm(a) = Norm(b)
IStr(a)    == LET r == Norm(a) IN IF r[2] = 1 THEN ToString(r[1]) ELSE ToString(r[1]) \o ":" \o ToString(r[2])
IVal(a)    == LET r == Norm(a) IN IF r[2] = 1 THEN "i:" \o ToString(r[1]) ELSE "p:" \o ToString(r[1]) \o ":" \o ToString(r[2])

(* ------------------------------ machine -------------------------------- *)
\* rebase(): the three blocks of the method, in order
MZero(c) == IF c[1] = 0 THEN <<0, 1>> ELSE c
MSign(c) == IF c[2] < 0 THEN <<-c[1], -c[2]>> ELSE c              \* both branches of the if/elif negate both fields
RECURSIVE MReduce(_)
MReduce(c) == LET g == Gcd(Abs(c[1]), Abs(c[2]))                  \* np.gcd is non-negative
              IN IF g > 1 THEN MReduce(<<c[1] \div g, c[2] \div g>>) ELSE c
MRebase(c) == MReduce(MSign(MZero(c)))

MAdd(a, b) == <<a[1] * b[2] + b[1] * a[2], a[2] * b[2]>>
MSub(a, b) == <<a[1] * b[2] - b[1] * a[2], a[2] * b[2]>>
MMul(a, b) == <<a[1] * b[1], a[2] * b[2]>>                        \* Fraction, tuple and (through limit_denominator) float operand
MDiv(a, b) == <<a[1] * b[2], a[2] * b[1]>>
MMulI(a, k) == <<a[1] * k, a[2]>>                                 \* int operand: the `else` branch
MDivI(a, k) == <<a[1], a[2] * k>>
MNeg(a)    == <<-a[1], a[2]>>
MEq(a, b)  == a[1] * b[2] = b[1] * a[2]                           \* isclose on small integers is exact
MStr(c)    == LET r == MRebase(c) IN IF r[1] = 0 \/ r[2] = 1 THEN ToString(r[1]) ELSE ToString(r[1]) \o ":" \o ToString(r[2])
MValRaw(c) == c[1] = 0 \/ c[2] = 1                                \* the test value() makes on the raw fields
MVal(c)    == IF MValRaw(c) THEN "i:" \o ToString(c[1])
              ELSE LET r == MRebase(c)
                   IN IF ValueNormalises /\ r[2] = 1 THEN "i:" \o ToString(r[1])
                      ELSE "p:" \o ToString(r[1]) \o ":" \o ToString(r[2])
MValCell(c) == IF MValRaw(c) THEN c ELSE MRebase(c)               \* the cell after value(tuple)
ValDev(c)  == ~MValRaw(c) /\ MRebase(c)[2] = 1                     \* value-not-normalised is in play

(* ------------------------------ lemmas (checked per explored cell) ------ *)
RebaseIsNorm(c) == MRebase(c) = Norm(c)
StrAgrees(c)    == MStr(c) = IStr(c)
ValAgrees(c)    == ValDev(c) \/ MVal(c) = IVal(c)
OpsAgree(a, b)  == /\ Norm(MAdd(a, b)) = IAdd(a, b) /\ Norm(MSub(a, b)) = ISub(a, b)
                   /\ Norm(MMul(a, b)) = IMul(a, b) /\ (b[1] # 0 => Norm(MDiv(a, b)) = IDiv(a, b))
                   /\ Norm(MNeg(a)) = INeg(a) /\ MEq(a, b) = IEq(a, b)
=============================================================================
