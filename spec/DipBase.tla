------------------------------- MODULE DipBase -------------------------------
(***************************************************************************)
(* C17, last sentence - "parsing on top of a previously parsed environment *)
(* leaves that environment's nodes and units unchanged" - as a history     *)
(* property over environment OBJECTS.                                      *)
(*                                                                         *)
(* A history is a sequence of API calls                                    *)
(*     New(t)    : env_k = DIP().parse() of text t                         *)
(*     On(b, t)  : env_k = DIP(env_b).parse() of text t                    *)
(* over base environments of every kind (empty, units only, sources only,  *)
(* nodes, mixed) and child texts that define units, sources and nodes, use *)
(* custom units, inject from `{?*}` (sensitive to any foreign node), or    *)
(* end inside a @case clause.  Several children may start from the same    *)
(* base, the same text may be parsed twice, results may be bases again.    *)
(*                                                                         *)
(* IDEAL  : environments are VALUES.  On(b, t) = Eval(value of env_b, t);  *)
(*          every environment that exists keeps its value for ever; the    *)
(*          end of a text closes every open clause.                        *)
(* MACHINE: environments are objects made of four cells (nodes, units,     *)
(*          sources, branching).  DIP.parse works on target = copy(base):  *)
(*          CopyMode "deep"  copy.deepcopy - the code;                     *)
(*                   "alias_if_no_nodes"  no copy when the base has no     *)
(*                                        nodes;                           *)
(*                   "share_branching"    everything copied but branching; *)
(*                   "alias"              no copy at all.                  *)
(*          The parse mutates the target's cells line by line; an          *)
(*          exception leaves what was done so far; the open-clause state   *)
(*          stays in the branching cell of the returned environment.       *)
(* Isolated (machine observation of every live environment = its ideal     *)
(* value, after every call) holds for "deep" and must fail for the others. *)
(***************************************************************************)
EXTENDS Naturals, Sequences, FiniteSets, TLC, Json

CONSTANTS BaseTexts,    \* sequence of texts a first parse may read
          ChildTexts,   \* sequence of texts parsed on top of an environment
          MaxOps, CopyMode, Emit

VARIABLES cells, envs, ivals, hist
vars == <<cells, envs, ivals, hist>>

Null == [n |-> 0, u |-> 0, s |-> 0, b |-> 0]
INull == [live |-> FALSE, nodes |-> <<>>, units |-> <<>>, sources |-> <<>>]

Names(seq) == {seq[j].name : j \in 1..Len(seq)}
Idx(seq, nm) == CHOOSE j \in 1..Len(seq) : seq[j].name = nm

\* one line on an evaluation state [ok, nodes, units, sources, open]   (open: "none" | "true" | "false")
Line(E, ln) ==
  IF ~E.ok THEN E
  ELSE CASE ln.k = "case" -> [E EXCEPT !.open = IF ln.val THEN "true" ELSE "false"]
         [] ln.k = "end"  -> [E EXCEPT !.open = "none"]
         [] E.open = "false" -> E                                      \* lines of an unselected clause take no effect
         [] ln.k = "unit" -> IF ln.name \in Names(E.units) THEN [E EXCEPT !.ok = FALSE]
                             ELSE [E EXCEPT !.units = Append(@, [name |-> ln.name, val |-> ln.val])]
         [] ln.k = "source" -> IF ln.name \in Names(E.sources) THEN [E EXCEPT !.ok = FALSE]
                               ELSE [E EXCEPT !.sources = Append(@, [name |-> ln.name])]
         [] ln.k = "node" -> IF ln.unit \notin {"", "m"} \cup Names(E.units) THEN [E EXCEPT !.ok = FALSE]
                             ELSE IF ln.name \in Names(E.nodes)    \* re-definition = assignment (texts never re-state another unit)
                                  THEN [E EXCEPT !.nodes[Idx(E.nodes, ln.name)].val = ln.val]
                                  ELSE [E EXCEPT !.nodes = Append(@, [name |-> ln.name, val |-> ln.val, unit |-> ln.unit])]
         [] ln.k = "inj" -> IF Len(E.nodes) # 1 \/ ln.name \in Names(E.nodes) THEN [E EXCEPT !.ok = FALSE]   \* {?*} must select one
                            ELSE [E EXCEPT !.nodes = Append(@, [name |-> ln.name, val |-> E.nodes[1].val, unit |-> E.nodes[1].unit])]
         [] OTHER -> E

RECURSIVE Run(_, _)
Run(E, text) == IF text = <<>> THEN E ELSE Run(Line(E, Head(text)), Tail(text))

\* does the text end inside a clause that only the end of input closes?
RECURSIVE OpenAtEnd(_)
OpenAtEnd(text) == IF text = <<>> THEN FALSE
                   ELSE LET l == text[Len(text)] IN
                        IF l.k = "case" THEN TRUE ELSE IF l.k = "end" THEN FALSE
                        ELSE OpenAtEnd(SubSeq(text, 1, Len(text) - 1))

Start(nodes, units, sources, open) == [ok |-> TRUE, nodes |-> nodes, units |-> units, sources |-> sources, open |-> open]

\* IDEAL: a function of the base VALUE and the text; the end of input closes open clauses
IEval(v, text) == LET E == Run(Start(v.nodes, v.units, v.sources, "none"), text) IN
                  IF E.ok THEN [live |-> TRUE, nodes |-> E.nodes, units |-> E.units, sources |-> E.sources] ELSE INull
IEmpty == [live |-> TRUE, nodes |-> <<>>, units |-> <<>>, sources |-> <<>>]

-----------------------------------------------------------------------------
Init == cells = <<>> /\ envs = <<>> /\ ivals = <<>> /\ hist = <<>>

\* allocate four cells holding the given contents -> [cells, env]
Alloc(cs, n, u, s, b) == [cells |-> cs \o <<n, u, s, b>>,
                          env |-> [n |-> Len(cs) + 1, u |-> Len(cs) + 2, s |-> Len(cs) + 3, b |-> Len(cs) + 4]]

\* target = self.env.copy()
Target(cs, e) ==
  CASE CopyMode = "deep" -> Alloc(cs, cs[e.n], cs[e.u], cs[e.s], cs[e.b])
    [] CopyMode = "alias_if_no_nodes" -> IF cs[e.n] = <<>> THEN [cells |-> cs, env |-> e]
                                         ELSE Alloc(cs, cs[e.n], cs[e.u], cs[e.s], cs[e.b])
    [] CopyMode = "share_branching" -> LET a == Alloc(cs, cs[e.n], cs[e.u], cs[e.s], "unused") IN
                                       [cells |-> a.cells, env |-> [a.env EXCEPT !.b = e.b]]
    [] OTHER -> [cells |-> cs, env |-> e]

\* the parse loop writes into the target's cells (also when it ends with an exception)
Parse(tg, text) ==
  LET e == tg.env
      E == Run(Start(tg.cells[e.n], tg.cells[e.u], tg.cells[e.s], tg.cells[e.b]), text)
  IN [ok |-> E.ok, env |-> e,
      cells |-> [tg.cells EXCEPT ![e.n] = E.nodes, ![e.u] = E.units, ![e.s] = E.sources, ![e.b] = E.open]]

MObs(cs, e) == [live |-> TRUE, nodes |-> cs[e.n], units |-> cs[e.u], sources |-> cs[e.s]]
Expect(iv) == [j \in 1..Len(iv) |-> iv[j]]

Step(op, b, tix, text, tg, iv) ==
  LET p == Parse(tg, text) IN
  /\ cells' = p.cells
  /\ envs' = Append(envs, IF p.ok THEN p.env ELSE Null)
  /\ ivals' = Append(ivals, iv)
  /\ hist' = Append(hist, [op |-> op, base |-> b, text |-> text, res |-> IF iv.live THEN "ok" ELSE "rej",
                           expect |-> Expect(Append(ivals, iv))])

New(t) == /\ hist = <<>>
          /\ Step("new", 0, t, BaseTexts[t], Target(Alloc(cells, <<>>, <<>>, <<>>, "none").cells,
                                                      Alloc(cells, <<>>, <<>>, <<>>, "none").env),
                  IEval(IEmpty, BaseTexts[t]))

On(b, t) == /\ hist # <<>> /\ Len(hist) < MaxOps /\ b \in 1..Len(ivals) /\ ivals[b].live
            /\ ~OpenAtEnd(hist[b].text)          \* an environment whose text ended inside a clause is not used as a base
            /\ Step("on", b, t, ChildTexts[t], Target(cells, envs[b]), IEval(ivals[b], ChildTexts[t]))

Next == \/ \E t \in 1..Len(BaseTexts) : New(t)
        \/ \E b \in 1..MaxOps : \E t \in 1..Len(ChildTexts) : On(b, t)
Spec == Init /\ [][Next]_vars

\* every live environment shows its ideal value, after every call
Isolated == \A j \in 1..Len(envs) :
              /\ (envs[j] # Null) = ivals[j].live
              /\ envs[j] # Null => MObs(cells, envs[j]) = ivals[j]
EmitInv == (Emit /\ hist # <<>>) => PrintT(ToJson(hist))
=============================================================================
