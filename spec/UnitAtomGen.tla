---------------------------- MODULE UnitAtomGen ----------------------------
(***************************************************************************)
(* C03 (i): unique decodability of the published notation over the WHOLE   *)
(* live table, machine-vs-ideal on every case, and the scenario source for *)
(* the replay against BaseUnits(text).                                     *)
(*                                                                         *)
(* Cases (one leaf state each), for every unit u and every prefix p        *)
(* (p = 0: none), admissible or not:                                       *)
(*   plain      p o u                                                      *)
(*   ffront c   c o p o u            a foreign character in front          *)
(*   ffront2 c  c o c o p o u                                              *)
(*   fmid c     p o c o u            ... between prefix and symbol         *)
(*   pfront q   q o p o u            an extra prefix in front of a VALID   *)
(*                                   [prefix]symbol                        *)
(*   exp k      p o u o ExpForms[k]  (all forms for p = none / first       *)
(*                                   admissible / two-letter; the          *)
(*                                   fractional forms n:2, n:3 for EVERY   *)
(*                                   admissible prefix)                    *)
(* plus every system-unit symbol (plain, with exponent, with a prefix in   *)
(* front) and the number literals.                                         *)
(***************************************************************************)
EXTENDS UnitAtom, TLC, Json

CONSTANTS Foreign,      \* set of characters that are no prefix symbol
          KnownDevs,    \* tags of the open known findings of C03
          Emit

ExpForms == << <<"2">>, <<"-", "2">>, <<"1", ":", "2">>, <<"-", "3", ":", "2">>, <<"3">>, <<"2", ":", "4">>,
               <<"1", "0">>, <<"0">>, <<"+", "2">>, <<"1", ":", "0">>, <<"-">>, <<"2", "-">>, <<":", "2">>, <<"1", ":", "2", ":", "3">>,
               <<"-", "1", ":", "2">>, <<"3", ":", "2">>, <<"5", ":", "2">>, <<"1", ":", "3">>, <<"-", "1", ":", "3">>,
               <<"2", ":", "3">>, <<"-", "2", ":", "3">>, <<"4", ":", "3">>, <<"-", "1">> >>
\* every fractional exponent n:d with d in {2, 3} (and -1): carried by EVERY admissible prefix of every unit, so
\* that each decimal order of a prefix meets each fractional exponent, and by every unit whose table dimensions
\* are themselves fractions
FracIdx == {3, 4, 15, 16, 17, 18, 19, 20, 21, 22, 23}
NumForms == << <<"2">>, <<"6", "0">>, <<"3", "6", "5", ".", "2", "5">>, <<"1", ".", "6", "7", "e", "-", "2", "4">>,
               <<"1", "e", "3">>, <<"2", ".", "5", "e", "-", "7">>, <<"-", "3">>, <<"1", "e", "+", "2">>, <<"0", ".", "5">>,
               <<"1", "e", "3", "0">>, <<"5", ".">>, <<".", "5">>, <<"1", ".", "2", ".", "3">>, <<"1", "e", "+", "-", "3">> >>

FirstAdm(u) == IF Units[u].adm = {} THEN 0
               ELSE CHOOSE p \in 1..NP : Prefixes[p].name \in Units[u].adm /\ \A q \in 1..(p - 1) : Prefixes[q].name \notin Units[u].adm
TwoLetter(p) == p > 0 /\ Len(Prefixes[p].sym) > 1

VARIABLE v_cs
\* v_cs = [fam, u, p, kind, c, k]   (fam: "root" | "U" node | "UP" node | "L" leaf | "S" sys leaf | "N" number leaf)
Node(fam, u, p, kind, c, k) == [fam |-> fam, u |-> u, p |-> p, kind |-> kind, c |-> c, k |-> k]

Text(x) ==
  IF x.fam = "N" THEN NumForms[x.k]
  ELSE IF x.fam = "S" THEN
       (CASE x.kind = "plain" -> SysUnits[x.u].sym
          [] x.kind = "exp"   -> SysUnits[x.u].sym \o ExpForms[x.k]
          [] x.kind = "pfront" -> PSym(x.k) \o SysUnits[x.u].sym)
  ELSE LET P == PSym(x.p)  U == Units[x.u].sym IN
       CASE x.kind = "plain"   -> P \o U
         [] x.kind = "ffront"  -> <<x.c>> \o P \o U
         [] x.kind = "ffront2" -> <<x.c, x.c>> \o P \o U
         [] x.kind = "fmid"    -> P \o <<x.c>> \o U
         [] x.kind = "pfront"  -> PSym(x.k) \o P \o U
         [] x.kind = "exp"     -> P \o U \o ExpForms[x.k]

PlainValid(u, p) == IdealAtom(PSym(p) \o Units[u].sym).cls = "unit"

Children(x) ==
  CASE x.fam = "root" -> {Node("U", u, 0, "", "", 0) : u \in 1..NU}
                         \cup {Node("S", s, 0, "plain", "", 0) : s \in 1..NS}
                         \cup {Node("S", s, 0, "exp", "", k) : s \in 1..NS, k \in {2, 3}}
                         \cup {Node("S", s, 0, "pfront", "", 8) : s \in 1..NS}
                         \cup {Node("N", 0, 0, "num", "", k) : k \in 1..Len(NumForms)}
    [] x.fam = "U"    -> {Node("UP", x.u, p, "", "", 0) : p \in 0..NP}
    [] x.fam = "UP"   -> {Node("L", x.u, x.p, "plain", "", 0)}
                         \cup {Node("L", x.u, x.p, kd, c, 0) : kd \in {"ffront", "ffront2"}, c \in Foreign}
                         \cup (IF x.p > 0 THEN {Node("L", x.u, x.p, "fmid", c, 0) : c \in Foreign} ELSE {})
                         \cup (IF PlainValid(x.u, x.p) THEN {Node("L", x.u, x.p, "pfront", "", q) : q \in 1..NP} ELSE {})
                         \cup (IF x.p = 0 \/ x.p = FirstAdm(x.u) \/ (TwoLetter(x.p) /\ Admissible(x.p, x.u))
                               THEN {Node("L", x.u, x.p, "exp", "", k) : k \in 1..Len(ExpForms)}
                               ELSE IF Admissible(x.p, x.u) THEN {Node("L", x.u, x.p, "exp", "", k) : k \in FracIdx}
                               ELSE {})
    [] OTHER -> {}

Init == v_cs = Node("root", 0, 0, "", "", 0)
Next == v_cs' \in Children(v_cs)

IsLeaf(x) == x.fam \in {"L", "S", "N"}

\* feature predicates of the scenario (used by the known-findings matcher)
Tags(x) ==
  (IF x.fam = "L" /\ TwoLetter(x.p) THEN {"prefix_two_letter"} ELSE {})
  \cup (IF x.fam = "N" THEN {"number"} ELSE AtomTextTags(Text(x)))
  \cup (IF x.fam \in {"L", "S"} /\ x.kind = "exp" THEN {"exponent"} ELSE {})
  \cup (IF x.fam = "S" THEN {"system_unit"} ELSE {})


\* design-level facts about the tables and the notation: a counterexample here is a statement about the
\* published tables, not about the code
Decodable == IsLeaf(v_cs) /\ v_cs.fam # "N" => LET sp == SymPart(Text(v_cs)) IN
                 /\ Cardinality(Readings(sp)) <= 1
                 /\ AlgoResolve(sp) = Readings(sp)
\* every admissible prefix o unit and every bare symbol resolves to itself
SelfResolving == v_cs.fam = "L" /\ v_cs.kind = "plain" /\ Admissible(v_cs.p, v_cs.u) =>
                 LET o == IdealAtom(Text(v_cs)) IN o.cls = "unit" /\ o.p = v_cs.p /\ o.u = v_cs.u /\ o.e = QOne
TablesClean == SymbolsClean

UName(o) == IF o.cls = "unit" /\ o.u > 0 THEN Units[o.u].name ELSE IF o.cls = "sys" /\ o.u > 0 THEN SysUnits[o.u].name ELSE ""
Proj(o) == [cls |-> o.cls, p |-> PName(o.p), u |-> UName(o), e |-> o.e, num |-> o.num, lit |-> Join(o.lit)]

\* numeric expectation as a TERM over table entries (evaluated by the harness), exact dimensions
AtomTerm(o) ==
  CASE o.cls = "unit" /\ o.u > 0 ->
         <<"powq", IF o.p = 0 THEN <<"tab", "unit", Units[o.u].name, "magnitude">>
                   ELSE <<"mul", <<"p10", Prefixes[o.p].p10>>, <<"tab", "unit", Units[o.u].name, "magnitude">>>>, o.e[1], o.e[2]>>
    [] o.cls = "sys" /\ o.u > 0 -> <<"powq", <<"tab", "sys", SysUnits[o.u].name, "magnitude">>, o.e[1], o.e[2]>>
    [] o.cls = "number" -> IF o.lit # <<>> THEN <<"lit", Join(o.lit)>> ELSE <<"mul", <<"q", o.num[1], 1>>, <<"p10", o.num[2]>>>>
    [] OTHER -> <<"q", 1, 1>>
AtomDims(o) ==
  CASE o.cls = "unit" /\ o.u > 0 -> [i \in 1..8 |-> QMul(o.e, Units[o.u].dim[i])]
    [] o.cls = "sys" /\ o.u > 0  -> [i \in 1..8 |-> QMul(o.e, SysUnits[o.u].dim[i])]
    [] OTHER -> [i \in 1..8 |-> QZero]

Record(x) ==
  LET t == Text(x)  i == IdealAtom(t)  m == MachAtom(t) IN
  [fam |-> x.fam, kind |-> x.kind, text |-> Join(t), ideal |-> Proj(NormOut(i)), mach |-> Proj(NormOut(m)),
   term |-> AtomTerm(NormOut(i)), dims |-> AtomDims(NormOut(i)),
   refines |-> (i.cls = "unspecified" \/ SameOutcome(i, m)), tags |-> Tags(x),
   known |-> Tags(x) \cap KnownDevs # {}]

EmitInv == IsLeaf(v_cs) /\ Emit => PrintT(ToJson(Record(v_cs)))
=============================================================================
