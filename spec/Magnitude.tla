------------------------------ MODULE Magnitude ------------------------------
(***************************************************************************)
(* C08 - propagation of measurement uncertainties.                         *)
(*                                                                         *)
(* A magnitude is [v |-> rational, e |-> rational >= 0 or None]; None      *)
(* (= <<>>) means "exact".  The IDEAL is the list of obligations the       *)
(* property states for the absolute uncertainty of a result:               *)
(*   always        e >= 0 (or exact)                                       *)
(*   a + b, a - b  e = ea + eb            (an exact operand contributes 0) *)
(*   a*k, k*a      e = |k| ea             (k exact)                        *)
(*   a/k           e = ea / |k|                                            *)
(*   a*b, a/b      e >= |a| eb + |b| ea   resp. (|a| eb + |b| ea) / b^2    *)
(*                 for two uncertain POSITIVE values                       *)
(*   -a            e = ea                                                  *)
(*   a**p          e >= 0                                                  *)
(*   conversion    e' = e F(u)/F(w), relative uncertainty unchanged        *)
(*   exact (+) exact is exact for every operation                          *)
(* The MACHINE part transcribes the formulas of magnitude.py /             *)
(* unit_types.py (MErr); where they leave the ideal they are named         *)
(* deviations: error_sign (signed factor / exponent), error_not_scaled     *)
(* (UnitType.convert passes the error through).                            *)
(***************************************************************************)
EXTENDS QuantityAlg

CONSTANT FixedDevs      \* named deviations repaired in the tree: error_sign (bbd8748), error_not_scaled (3decc72)
Sgn(x) == IF "error_sign" \in FixedDevs THEN RAbs(x) ELSE x

None == <<>>
IsNone(e) == e = None
E0(e) == IF IsNone(e) THEN RZero ELSE e          \* an exact operand contributes no uncertainty
RMax(x, y) == IF RLe(x, y) THEN y ELSE x

\* obligations: lhs in {"abse","rele"}, rel in {"eq","ge","none","some"}, rhs a rational (enum) and a term
Ob(lhs, rel, q, t) == [lhs |-> lhs, rel |-> rel, q |-> q, t |-> t]

BinOps2 == {"add", "sub", "mul", "div"}

Positive(m) == RSign(m.v) > 0
Uncertain(m) == ~IsNone(m.e)

FirstOrderMul(a, b) == RAdd(RMul(RAbs(a.v), b.e), RMul(RAbs(b.v), a.e))
FirstOrderDiv(a, b) == RDiv(FirstOrderMul(a, b), RMul(b.v, b.v))

\* the ideal: what must hold of the result's absolute uncertainty  (p: exponent of pow)
\* the value used for expectation is exact (rational); the same number is emitted as a term
IdealOb(op, a, b, p) ==
  IF op \in BinOps2 /\ IsNone(a.e) /\ IsNone(b.e) THEN << Ob("abse", "none", RZero, TQ(RZero)) >>
  ELSE IF op \in {"neg", "pow"} /\ IsNone(a.e) THEN << Ob("abse", "none", RZero, TQ(RZero)) >>
  ELSE
  CASE op \in {"add", "sub"} ->
         LET x == RAdd(E0(a.e), E0(b.e)) IN << Ob("abse", "eq", x, TQ(x)) >>
    [] op = "mul" ->
         IF IsNone(b.e) THEN LET x == RMul(RAbs(b.v), a.e) IN << Ob("abse", "eq", x, TQ(x)) >>
         ELSE IF IsNone(a.e) THEN LET x == RMul(RAbs(a.v), b.e) IN << Ob("abse", "eq", x, TQ(x)) >>
         ELSE IF Positive(a) /\ Positive(b) THEN LET x == FirstOrderMul(a, b) IN << Ob("abse", "ge", x, TQ(x)) >>
         ELSE << Ob("abse", "ge", RZero, TQ(RZero)) >>
    [] op = "div" ->
         IF IsNone(b.e) THEN LET x == RDiv(a.e, RAbs(b.v)) IN << Ob("abse", "eq", x, TQ(x)) >>
         ELSE IF ~IsNone(a.e) /\ Positive(a) /\ Positive(b)
              THEN LET x == FirstOrderDiv(a, b) IN << Ob("abse", "ge", x, TQ(x)) >>
         ELSE << Ob("abse", "ge", RZero, TQ(RZero)) >>
    [] op = "neg" -> << Ob("abse", "eq", a.e, TQ(a.e)) >>
    [] op = "pow" -> << Ob("abse", "ge", RZero, TQ(RZero)) >>

\* inputs outside the statement: interval of the divisor reaches zero, fractional power of a negative number
UnspecifiedM(op, a, b, p) ==
  \* a quotient whose divisor's uncertainty interval [b-db, b+db] reaches or crosses zero is unbounded on the interval:
  \* a linearised bound says nothing there, and the statement speaks of uncertain POSITIVE values (the whole interval
  \* is positive).  The same for a negative power of such a base.
  \/ op = "div" /\ (RIsZero(b.v) \/ (~IsNone(b.e) /\ RLe(RAbs(b.v), b.e)))
  \/ op = "pow" /\ RSign(p) < 0 /\ ~IsNone(a.e) /\ RLe(RAbs(a.v), a.e)
  \/ op = "pow" /\ RSign(a.v) < 0 /\ ~RIsInt(p)
  \/ op = "pow" /\ RIsZero(a.v)

-----------------------------------------------------------------------------
\* unit conversion of an uncertain quantity between units of one dimension
\* f = F(u)/F(w) as exact rational (enum) and as term
\* (exact = FALSE: the factor is known only as a term; q is then None)
ConvOb(m, fq, ft, exact) ==
  IF IsNone(m.e) THEN << Ob("abse", "none", RZero, TQ(RZero)) >>
  ELSE << Ob("abse", "eq", IF exact THEN RMul(m.e, fq) ELSE None, TMul(TQ(m.e), ft)),
          Ob("rele", "eq", RDiv(RMul(RInt(100), m.e), m.v), TDiv(TMul(TQ(RInt(100)), TQ(m.e)), TQ(m.v))) >>

\* sum / difference of quantities given in different units of one dimension; result in the left operand's unit
\* g = F(ub)/F(ua)
QSumOb(a, b, gq, gt, exact) ==
  IF IsNone(a.e) /\ IsNone(b.e) THEN << Ob("abse", "none", RZero, TQ(RZero)) >>
  ELSE << Ob("abse", "eq", IF exact THEN RAdd(E0(a.e), RMul(E0(b.e), gq)) ELSE None,
             TAdd(TQ(E0(a.e)), TMul(TQ(E0(b.e)), gt))) >>

\* a read-only query of the value in another unit (value(w)) leaves the quantity as it is: same uncertainty, same
\* relative uncertainty
QueryOb(m) ==
  IF IsNone(m.e) THEN << Ob("abse", "none", RZero, TQ(RZero)) >>
  ELSE << Ob("abse", "eq", m.e, TQ(m.e)),
          Ob("rele", "eq", RDiv(RMul(RInt(100), m.e), m.v), TDiv(TMul(TQ(RInt(100)), TQ(m.e)), TQ(m.v))) >>

\* quotient of quantities given in different units u, w of ONE dimension: the result is a pure number and the factor
\* g = F(u)/F(w) is folded into it - a linear conversion of the quotient, so every obligation on the uncertainty of a/b
\* is scaled by g
ScaleOb(o, gq, gt, exact) ==
  IF o.rel = "none" THEN o ELSE Ob(o.lhs, o.rel, IF exact THEN RMul(o.q, gq) ELSE None, TMul(o.t, gt))
QDivOb(a, b, gq, gt, exact) ==
  LET obs == IdealOb("div", a, b, ROne) IN [i \in DOMAIN obs |-> ScaleOb(obs[i], gq, gt, exact)]

-----------------------------------------------------------------------------
\* the machine: formulas of the code
AbsDiff(x, y) == RAbs(RSub(x, y))
MErr(op, a, b, p) ==
  CASE op \in {"add", "sub"} ->
         IF IsNone(a.e) /\ IsNone(b.e) THEN None ELSE RAdd(E0(a.e), E0(b.e))
    [] op = "mul" ->
         IF IsNone(a.e) /\ IsNone(b.e) THEN None
         ELSE IF IsNone(a.e) THEN RMul(b.e, Sgn(a.v))                  \* right.error * left.value  (signed before bbd8748)
         ELSE IF IsNone(b.e) THEN RMul(a.e, Sgn(b.v))                  \* left.error * right.value
         ELSE LET v == RMul(a.v, b.v) IN
              RMax(AbsDiff(RMul(RAdd(a.v, a.e), RAdd(b.v, b.e)), v), AbsDiff(RMul(RSub(a.v, a.e), RSub(b.v, b.e)), v))
    [] op = "div" ->
         IF IsNone(a.e) /\ IsNone(b.e) THEN None
         ELSE LET v == RDiv(a.v, b.v) IN
              IF IsNone(a.e) THEN RMax(AbsDiff(RDiv(a.v, RAdd(b.v, b.e)), v), AbsDiff(RDiv(a.v, RSub(b.v, b.e)), v))
              ELSE IF IsNone(b.e) THEN RDiv(a.e, Sgn(b.v))             \* left.error / right.value
              ELSE RMax(AbsDiff(RDiv(RAdd(a.v, a.e), RSub(b.v, b.e)), v), AbsDiff(RDiv(RSub(a.v, a.e), RAdd(b.v, b.e)), v))
    [] op = "neg" -> a.e
    [] op = "pow" -> IF IsNone(a.e) THEN None ELSE Sgn(RMul(a.e, p))   \* value*(100 e/value * p)/100
Scaled == "error_not_scaled" \in FixedDevs
MConvErr(m, fq) == IF Scaled /\ ~IsNone(m.e) THEN RMul(m.e, fq) ELSE m.e      \* UnitType.convert (error passed through before 3decc72)
MQSumErr(a, b, gq) == IF IsNone(a.e) /\ IsNone(b.e) THEN None
                      ELSE RAdd(E0(a.e), IF Scaled THEN RMul(E0(b.e), gq) ELSE E0(b.e))

MQDivErr(a, b, gq) == LET e == MErr("div", a, b, ROne) IN IF IsNone(e) THEN None ELSE RMul(e, gq)   \* magnitude *= factor

\* does a predicted error satisfy an obligation list (abse obligations only; the exact model)
SatOb(o, e) ==
  CASE o.rel = "none" -> IsNone(e)
    [] o.rel = "eq" -> ~IsNone(e) /\ e = o.q
    [] o.rel = "ge" -> ~IsNone(e) /\ RLe(o.q, e)
NonNeg(e) == IsNone(e) \/ RSign(e) >= 0
SatAll(obs, e) == NonNeg(e) /\ \A i \in DOMAIN obs : (obs[i].lhs = "abse" => SatOb(obs[i], e))

\* feature predicates of a scenario and deviations of the machine (tags of the known findings)
Features(op, a, b, p) ==
  (IF op = "mul" /\ ((IsNone(b.e) /\ ~IsNone(a.e) /\ RSign(b.v) < 0) \/ (IsNone(a.e) /\ ~IsNone(b.e) /\ RSign(a.v) < 0))
     THEN {"mul_exact_negative"} ELSE {})
  \cup (IF op = "div" /\ IsNone(b.e) /\ ~IsNone(a.e) /\ RSign(b.v) < 0 THEN {"div_exact_negative"} ELSE {})
  \cup (IF op = "pow" /\ ~IsNone(a.e) /\ RSign(p) < 0 THEN {"pow_negative_exponent"} ELSE {})
DevTags(obs, e, name) ==
  (IF ~NonNeg(e) THEN {"error_sign"} ELSE {})
  \cup (IF NonNeg(e) /\ ~SatAll(obs, e) THEN {name} ELSE {})
=============================================================================
