----------------------------- MODULE SolverHist -----------------------------
(***************************************************************************)
(* C02 model-checking harness around Solver.tla: universes of expressions, *)
(* sets of histories, the standard operator tables, and the emission of    *)
(* finished histories for replay.  The concrete constants of one           *)
(* configuration are written by the check into SolverHistMC.tla.           *)
(***************************************************************************)
EXTENDS Naturals, Sequences, FiniteSets

StringsUpTo(alphabet, n) == UNION {[1..k -> alphabet] : k \in 0..n}
PlansOver(exprs, k) == [1..k -> exprs]
\* every short string also as the argument of a parenthesis and of a function: a failure INSIDE an
\* argument happens on the nested solver instance
Wrapped(strs) == {<<"(">> \o s \o <<")">> : s \in strs} \cup {<<"f1(">> \o s \o <<")">> : s \in strs}
                 \cup {<<"a", "*", "(">> \o s \o <<")">> : s \in strs}

AllOps == {"**", "*", "/", "+", "-", "==", "!=", "<=", ">=", "<", ">", "!", "&&", "||", "(", "f1(", "f2("}
DefaultSteps ==
  << [ops |-> {"(", "f1(", "f2("}, otype |-> "ARGS"],
     [ops |-> {"+", "-"},          otype |-> "UNARY"],
     [ops |-> {"**"},              otype |-> "BINARY"],
     [ops |-> {"*", "/"},          otype |-> "BINARY"],
     [ops |-> {"+", "-"},          otype |-> "BINARY"],
     [ops |-> {"==", "!=", "<=", ">=", "<", ">"}, otype |-> "BINARY"],
     [ops |-> {"!"},               otype |-> "UNARY"],
     [ops |-> {"&&"},              otype |-> "BINARY"],
     [ops |-> {"||"},              otype |-> "BINARY"] >>
\* the same with the two real two-argument functions instead of the generic "f2(" (trace validation)
TraceOps(table) == (table \ {"f2("}) \cup (IF "f2(" \in table THEN {"logb(", "pow("} ELSE {})
TraceSteps(steps) == [i \in 1..Len(steps) |-> [ops |-> TraceOps(steps[i].ops), otype |-> steps[i].otype]]

\* tests/solver/test_customisation.py : a subset of operators with its own step order
AddGtSteps == << [ops |-> {"("}, otype |-> "ARGS"], [ops |-> {"+"}, otype |-> "BINARY"], [ops |-> {">"}, otype |-> "BINARY"] >>
=============================================================================
