------------------------------- MODULE UnitEnv -------------------------------
(***************************************************************************)
(* Process-wide unit tables and the scopes that register temporary units   *)
(* (units/unit_environment.py, and every place where DIP opens one).       *)
(*                                                                         *)
(* Machine state                                                           *)
(*   table  : symbol -> row           UNIT_STANDARD (the part that matters) *)
(*   types  : sequence of type ids    UNIT_TYPES                            *)
(*   scopes : set of live UnitEnvironment objects, each                     *)
(*            [id, units, k, new_units, new_types, phase]                   *)
(*            phase "registering" = inside __init__, "open" = constructed   *)
(* One action per block of __init__ (Register = one loop iteration,        *)
(* CheckUnique = the call after the loop), Close = close()/__exit__, and   *)
(* an exception wherever Python raises.  UndoOnFail says whether a failing *)
(* __init__ removes what it had registered (code before the fix: FALSE).   *)
(*                                                                         *)
(* DIP line kinds: "unit" ($unit definition), "use"/"conv"/"cond" (a node with a unit, a          *)
(* modification in another unit, a logical expression: scopes whose body succeeds), "bad"/        *)
(* "convbad" (body raises: malformed $unit, inconvertible modification), "condbad"/"nestbad"/     *)
(* "boolbad" (a condition / numerical expression / boolean node comparing or adding incompatible  *)
(* units raises inside the solver's scope), "nest" (numerical                                     *)
(* expression; see NestedNumerical).                                                               *)
(* API-level history `hist` (what a caller can do and see) is what the     *)
(* replay harness executes: Open(units) -> ok | fail, Close(id),           *)
(* DipParse(text) -> ok | fail, each with the table contents the IDEAL     *)
(* demands afterwards: base table + units of the scopes that are open.     *)
(***************************************************************************)
EXTENDS Naturals, Sequences, FiniteSets, TLC

CONSTANTS BaseTable,     \* [symbol -> set of admissible prefixes]  (relevant part of the real table)
          BaseTypes,     \* sequence of type ids
          UnitLists,     \* set of sequences of unit descriptors [sym, pfx, typ] a caller may register
          DipTexts,      \* set of DIP programs: sequences of [kind |-> "unit"|"use"|"bad", sym]
          UndoOnFail,    \* BOOLEAN
          NestedNumerical, \* BOOLEAN: a numerical expression opens a second scope over the same units inside
                         \* the first (code before fix 388f9b7), which fails as soon as a custom unit exists
          MaxOps         \* bound on API calls per behaviour

VARIABLES table, types, scopes, nextid, hist,
          dip            \* the running DIP parse: [text, i, units (env.units so far)] or NoDip
vars == <<table, types, scopes, nextid, hist, dip>>

NoDip == [text |-> <<>>, i |-> 0, units |-> <<>>, sc |-> 0]
Row(owner, sym) == [owner |-> owner, sym |-> sym]
Table0 == [s \in DOMAIN BaseTable |-> Row(0, s)]

\* check_unique_symbols(): every symbol and every admissible prefixed symbol occurs once
Pfx(tb, pf, s) == IF s \in DOMAIN BaseTable /\ tb[s].owner = 0 THEN BaseTable[s] ELSE pf[s]
AllNames(tb, pf) == [s \in DOMAIN tb |-> {s} \cup {p \o s : p \in Pfx(tb, pf, s)}]
Clash(tb, pf) == \E s1, s2 \in DOMAIN tb : s1 # s2 /\ AllNames(tb, pf)[s1] \cap AllNames(tb, pf)[s2] # {}

Init == /\ table = Table0 /\ types = BaseTypes /\ scopes = {} /\ nextid = 1 /\ hist = <<>> /\ dip = NoDip

Registering == {c \in scopes : c.phase = "registering"}
Idle == Registering = {} /\ dip = NoDip

\* what the ideal demands of the global table: base table plus the units of the open scopes
IdealSyms == DOMAIN Table0 \cup UNION {{c.units[j].sym : j \in 1..Len(c.units)} : c \in {x \in scopes : x.phase = "open"}}
Custom(tb) == {s \in DOMAIN tb : tb[s].owner # 0}
Obs == [custom |-> Custom(table), ntypes |-> Len(types),
        ctypes |-> {types[j] : j \in 1..Len(types)} \ {BaseTypes[j] : j \in 1..Len(BaseTypes)},
        basek |-> {s \in DOMAIN Table0 : s \in DOMAIN table /\ table[s].owner = 0}]
OpenTypes == UNION {{c.units[j].typ : j \in 1..Len(c.units)} \ {""} : c \in {x \in scopes : x.phase = "open"}}
IdealObs == [custom |-> IdealSyms \ DOMAIN Table0,
             ctypes |-> OpenTypes \ {BaseTypes[j] : j \in 1..Len(BaseTypes)},
             ntypes |-> Len(BaseTypes) + Cardinality(OpenTypes \ {BaseTypes[j] : j \in 1..Len(BaseTypes)}),
             basek |-> DOMAIN Table0]

Log(op, arg, res) == hist' = Append(hist, [op |-> op, arg |-> arg, res |-> res, expect |-> IdealObs'])

-----------------------------------------------------------------------------
\* UnitEnvironment(units) : the constructor starts
Begin(units) ==
  /\ scopes' = scopes \cup {[id |-> nextid, units |-> units, k |-> 0, new_units |-> <<>>, new_types |-> <<>>, phase |-> "registering"]}
  /\ nextid' = nextid + 1
  /\ UNCHANGED <<table, types>>

Remove(seq, x) == SelectSeq(seq, LAMBDA y : y # x)
RemoveAll(tb, syms) == [s \in DOMAIN tb \ syms |-> tb[s]]
ToSet(seq) == {seq[j] : j \in 1..Len(seq)}
RECURSIVE RemoveTypes(_, _)
RemoveTypes(ts, rm) == IF rm = <<>> THEN ts ELSE RemoveTypes(Remove(ts, Head(rm)), Tail(rm))

\* the exception leaves __init__: the object never reaches the caller, so close() is never called
FailInit(c) ==
  IF UndoOnFail
  THEN /\ table' = RemoveAll(table, ToSet(c.new_units))
       /\ types' = RemoveTypes(types, c.new_types)
       /\ scopes' = scopes \ {c}
  ELSE /\ UNCHANGED <<table, types>>          \* everything registered so far stays behind
       /\ scopes' = scopes \ {c}

\* one iteration of the registration loop of the innermost running constructor
Register(c) ==
  /\ c.phase = "registering" /\ c.k < Len(c.units)
  /\ LET u == c.units[c.k + 1]
         newtype == u.typ # "" /\ u.typ \notin ToSet(types)
         types2  == IF newtype THEN <<u.typ>> \o types ELSE types
         c2      == [c EXCEPT !.new_types = IF newtype THEN Append(c.new_types, u.typ) ELSE c.new_types]
     IN
     IF u.sym \in DOMAIN table
     THEN /\ FailInit(c) /\ UNCHANGED nextid                                 \* "Unit with this symbol already exists"
     ELSE IF u.bad
     THEN \* malformed definition (no magnitude): the conversion type has been inserted and remembered,
          \* then building the table row raises
          /\ UNCHANGED nextid
          /\ IF UndoOnFail
             THEN /\ table' = RemoveAll(table, ToSet(c2.new_units))
                  /\ types' = RemoveTypes(types2, c2.new_types)
                  /\ scopes' = scopes \ {c}
             ELSE /\ UNCHANGED table /\ types' = types2 /\ scopes' = scopes \ {c}
     ELSE /\ table' = [s \in DOMAIN table \cup {u.sym} |-> IF s = u.sym THEN Row(c.id, u.sym) ELSE table[s]]
          /\ types' = types2
          /\ scopes' = (scopes \ {c}) \cup
                {[c2 EXCEPT !.k = c.k + 1, !.new_units = Append(c.new_units, u.sym)]}
          /\ UNCHANGED nextid

\* check_unique_symbols() after the loop
CheckUnique(c) ==
  /\ c.phase = "registering" /\ c.k = Len(c.units)
  /\ LET pf == [s \in Custom(table) |->
                  LET sc == CHOOSE x \in scopes : x.id = table[s].owner
                      d  == CHOOSE j \in 1..Len(sc.units) : sc.units[j].sym = s
                  IN sc.units[d].pfx]
     IN IF Clash(table, pf)
        THEN FailInit(c)
        ELSE /\ scopes' = (scopes \ {c}) \cup {[c EXCEPT !.phase = "open"]}
             /\ UNCHANGED <<table, types>>
  /\ UNCHANGED nextid

\* close() / __exit__ (normal end of the body or an exception in it: same code path)
Close(c) ==
  /\ c.phase = "open"
  /\ table' = RemoveAll(table, ToSet(c.new_units))
  /\ types' = RemoveTypes(types, c.new_types)
  /\ scopes' = scopes \ {c}
  /\ UNCHANGED nextid

-----------------------------------------------------------------------------
\* API-level steps of a direct user of UnitEnvironment
ApiOpen(units) ==
  /\ Idle /\ Len(hist) < MaxOps
  /\ Begin(units) /\ UNCHANGED <<hist, dip>>

Running == CHOOSE c \in Registering : \A d \in Registering : d.id <= c.id

ApiRegister ==
  /\ dip = NoDip /\ Registering # {}
  /\ LET c == Running IN
     /\ Register(c)
     /\ IF c.units[c.k + 1].sym \in DOMAIN table \/ c.units[c.k + 1].bad
        THEN Log("open", c.units, "fail") ELSE UNCHANGED hist
  /\ UNCHANGED dip

ApiCheck ==
  /\ dip = NoDip /\ Registering # {}
  /\ LET c == Running IN
     /\ c.k = Len(c.units)
     /\ CheckUnique(c)
     /\ Log("open", c.units, IF \E x \in scopes' : x.id = c.id THEN "ok" ELSE "fail")
  /\ UNCHANGED dip

ApiClose(c) ==
  /\ Idle /\ c \in scopes /\ c.phase = "open"
  /\ \A d \in scopes : d.id <= c.id            \* innermost first (with-statement discipline)
  /\ Close(c) /\ Log("close", c.units, "ok") /\ UNCHANGED dip

-----------------------------------------------------------------------------
\* DIP.parse(text): every `$unit` line and every node that uses units opens a scope over the
\* custom units collected so far (env.units) and closes it again; `$unit` then adds its symbol.
\* An exception anywhere aborts the parse (nothing catches it).
\* line kinds that USE the custom unit [len] of the text: as the unit of a literal ("useu"), as the declared unit of an
\* expression-valued node ("nestu"), through a referenced node in a condition ("condu") or in a boolean node ("boolu")
NeedsLen == {"useu", "nestu", "condu", "boolu"}

DipBegin(text) ==
  /\ Idle /\ Len(hist) < MaxOps
  /\ dip' = [text |-> text, i |-> 1, units |-> <<>>, sc |-> 0]
  /\ UNCHANGED <<table, types, scopes, nextid, hist>>

\* the current line opens its scope
DipOpenScope ==
  /\ dip # NoDip /\ dip.sc = 0
  /\ Begin(dip.units) /\ dip' = [dip EXCEPT !.sc = nextid] /\ UNCHANGED hist

\* ... whose constructor registers env.units one by one and then checks uniqueness
DipRegister ==
  /\ dip # NoDip /\ dip.sc # 0 /\ \E c \in scopes : c.id = dip.sc /\ c.phase = "registering"
  /\ LET c == CHOOSE x \in scopes : x.id = dip.sc IN
     /\ IF c.k < Len(c.units) THEN Register(c) ELSE CheckUnique(c)
     /\ IF \E x \in scopes' : x.id = c.id
        THEN UNCHANGED <<hist, dip>>
        ELSE /\ dip' = NoDip /\ Log("dip", dip.text, "fail")

\* the body of the scope: a `$unit` line adds its symbol to env.units (a name used twice raises
\* once the scope is closed), a "bad" line raises inside the body; either way the scope closes
DipBody ==
  /\ dip # NoDip /\ dip.sc # 0 /\ \E c \in scopes : c.id = dip.sc /\ c.phase = "open"
  /\ LET c == CHOOSE x \in scopes : x.id = dip.sc
         ln == dip.text[dip.i]
         dup == ln.kind = "unit" /\ ln.sym \in {dip.units[j].sym : j \in 1..Len(dip.units)}
     IN /\ Close(c)
        /\ IF ln.kind \in {"bad", "convbad", "condbad", "nestbad", "boolbad"} \/ dup \/ (NestedNumerical /\ ln.kind = "nest" /\ dip.units # <<>>)
              \/ (ln.kind \in NeedsLen /\ "[len]" \notin {dip.units[j].sym : j \in 1..Len(dip.units)})   \* unknown unit
           THEN /\ dip' = NoDip /\ Log("dip", dip.text, "fail")
           ELSE IF dip.i = Len(dip.text)
           THEN /\ dip' = NoDip /\ Log("dip", dip.text, "ok")
           ELSE /\ dip' = [dip EXCEPT !.i = dip.i + 1, !.sc = 0,
                                      !.units = IF ln.kind = "unit" THEN Append(dip.units, [sym |-> ln.sym, pfx |-> {}, typ |-> "", bad |-> FALSE]) ELSE dip.units]
                /\ UNCHANGED hist

DipStep == DipOpenScope \/ DipRegister \/ DipBody

Next == \/ \E u \in UnitLists : ApiOpen(u)
        \/ ApiRegister \/ ApiCheck
        \/ \E c \in scopes : ApiClose(c)
        \/ \E t \in DipTexts : DipBegin(t)
        \/ DipStep

Spec == Init /\ [][Next]_vars

-----------------------------------------------------------------------------
\* C09: between API calls the global tables hold exactly the base content plus the units of open scopes
Restored == Idle => Obs = IdealObs
\* inside a scope its units are usable
Usable == \A c \in scopes : c.phase = "open" => \A j \in 1..Len(c.units) : c.units[j].sym \in DOMAIN table /\ table[c.units[j].sym].owner = c.id
\* the base rows are never touched
BaseIntact == \A s \in DOMAIN Table0 : s \in DOMAIN table /\ table[s] = Table0[s]
=============================================================================
